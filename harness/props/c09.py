"""C09 — rendering a docstring keeps its text: nothing is lost, altered or reordered.

Kernel streams (model vs real code): `_colorize` trees and errors, visible text of rendered epytext
paragraphs, `_TARGET_RE`, `_tokenize_literal` / `_tokenize_doctest`, `colorize_codeblock_body` /
`colorize_doctest_body`, plaintext `to_stan`, the field-handler table.
Direct oracle (no model): structure-aware documents serialised to the five docformats, rendered by the
real `epydoc2stan.format_docstring`, compared with the text the generator intended.
"""
from __future__ import annotations

import html.parser
import inspect
import json
import io
import contextlib
import re
import textwrap
from typing import Any, Dict, List, Optional, Sequence, Tuple

from ..core import Ctx, enc, dec

USES_TABLES = True

THEOREMS = [
    "Epytext.colorize_conserves", "Epytext.colorize_conserves_live", "Epytext.strip_plain",
    "Epytext.symbols_total", "Epytext.liveCfg_total", "Epytext.tables_current",
    "Epytext.literal_block_exact", "Epytext.stripBlankEnds_joinNL", "Epytext.removed_prefix_is_space",
    "Epytext.doctest_block_exact", "Epytext.not_underline_of_other_char", "Epytext.heading_underline",
    "Doctest.splice_conserves", "Doctest.subfunc_conserves", "Doctest.doctest_body_text",
    "Doctest.doctest_body_conserves", "Doctest.doctest_body_conserves_exact", "Doctest.doctest_body_old_counterexample",
    "Epytext.plaintext_exact",
    "Docstring.kept_iff_in_scope", "Docstring.every_tag_rendered_or_reported_partial",
    "Docstring.every_tag_but_type_rendered_or_reported",
    "Docstring.every_tag_rendered_or_reported_counterexample", "Docstring.handlers_modelled",
    "Epytext.listartLoop_some", "Epytext.wrapped_item_para_indent",
    "Docstring.pair_both_orders_kept", "Docstring.runPair_last_desc", "Docstring.runPair_last_type",
    "Rst.stripSeparator_keeps_description", "Rst.stripSeparator_no_separator",
    "Property.fields_kept_with_body", "Property.return_kept_when_body",
    "Params.described_parameter_row", "Params.typed_parameter_row", "Params.type_field_shown", "Params.type_of_self_old_counterexample",
    "Params.lookup_dictSet", "Params.paramsDict_lookup",
    "Attrs.var_text_held", "Attrs.type_text_held", "Attrs.shownType_own",
    "Napoleon.getMinIndent_le", "Napoleon.dedent_removes_only_space", "Property.inherited_holds_all",
    "Property.inherited_holds_all_old_counterexample", "Docstring.pair_duplicate_reported", "Params.type_overwrite_reported",
    "Attrs.var_overwrite_reported",
]
PARTIAL = {
    "Docstring.every_tag_rendered_or_reported_partial":
        "hypothesis `inScope`: a `type` field with a name in a module/class docstring names a variable that is assigned or "
        "documented by ivar/cvar/var — otherwise the type goes to an Attribute without kind that is never displayed (open "
        "finding field:type-of-constructor-parameter-in-class-docstring-hidden). `kept_iff_in_scope` proves this is exactly "
        "the lost case over the live handler table; every other tag is kept unconditionally "
        "(`every_tag_but_type_rendered_or_reported`); counterexample proved.",
}
RULE = ("documents from a structure-aware generator (paragraphs of words with punctuation and markup-looking characters "
        "that are legal in the format, nested bullet/ordered lists, inline markup incl. nested, links with and without "
        "target, escapes, symbols, literal / doctest / code blocks, sections of three levels, paragraphs whose later lines start "
        "with `=`, `-`, `~` (`-1`, `--flag`, `~user`, `=>` …) incl. lines exactly as long as the line above, every field kind "
        "with type fields before / after their description and shuffled field order, field descriptions that start with "
        "`-1`, `--verbose`, `:-)`, `::`, reST consolidated fields as bullet (`:` / ` - ` separator) and definition lists, list "
        "items and fields whose first paragraph wraps, ends with `::` and is followed by a literal block and another paragraph, "
        "keywords with a type and no description in an otherwise undescribed signature, properties, variables, duplicated "
        "names) serialised to epytext, "
        "restructuredtext, google, numpy and plaintext and attached to a module, class or function of a real System. "
        "Oracle: word sequence of the rendered description == intended word sequence (formats reflow white space); "
        "<pre> blocks == intended block text character for character after removing the newline HTML ignores after <pre>, "
        "trailing newlines and the uniform indentation epytext keeps for literal blocks; plaintext == inspect.cleandoc(docstring); "
        "every field's words under its heading/entry or a report naming it. Non-trivial = at least one inline markup "
        "nested in another construct, or a block, or >= 2 fields. Kernel streams compare model and code on random and "
        "structured inputs (see distribution).")
ASSUMPTIONS = [
    "names and texts of fields are abstract numbers in Params / Attrs / Property / Fields.runPair; the correspondence maps them to real "
    "parameter names and TEXT<n> markers",
    "napoleon's google/numpy conversion, the reST field visitor besides the consolidated-entry separator, the epytext structuring pass "
    "and docutils/twisted are not modelled: the direct oracle (documents + deterministic corpus) speaks for them",
    "regex character classes `\\s` / `\\w` beyond ASCII are parameters of the model (`pyIsSpace` table checked against "
    "Python's for every code point < 0x3100; `\\w` supplied per request from Python's `re`)",
    "`DOCTEST_RE` / `DOCTEST_EXAMPLE_RE` match spans are parameters (non-overlapping, increasing — checked on every match "
    "list the real regexes produce); `DEFINE_FUNC_RE` groups concatenate to the matched text (checked); an expected-output "
    "group lacks its final newline only when it is the last one and ends the string (`Doctest.Terminated`, checked)",
    "reStructuredText, google and numpy bodies pass through docutils / napoleon: only the direct oracle speaks for them",
    "paragraph contents contain no newline (Token.contents of a paragraph is `' '.join(stripped lines)`)",
    "docutils strips trailing white space from every input line; generated reST/google/numpy blocks carry none",
]
EXPLANATION = ("Theorems over the model of the epytext colorizer, block slicers, doctest splicer, plaintext and the field "
               "dispatch table; the correspondence compares trees, errors, block contents and yielded pieces with the real "
               "functions; the direct oracle renders generated documents in all five formats.")

ERR_KIND = {
    "Unknown inline markup tag.": "unknown-tag", "Unbalanced '}'.": "unbalanced-close",
    "Invalid symbol code.": "invalid-symbol", "Invalid escape code.": "invalid-escape",
    "Bad uri target.": "bad-target", "Bad link target.": "bad-target", "Unbalanced '{'.": "unbalanced-open",
}


def word_extra(text: str) -> str:
    return "".join(sorted({c for c in text if ord(c) >= 128 and re.match(r"\w", c)}))


# ------------------------------------------------------------------ real-side adapters (kernels)

def show_elem(e) -> str:
    if isinstance(e, str):
        return enc(e)
    return "( %s %s)" % (e.tag, "".join(show_elem(c) + " " for c in e.children))


def impl_colorize(text: str) -> str:
    from pydoctor.epydoc.markup import epytext as E
    errors: List[Any] = []
    try:
        tree = E._colorize(E.Token("para", 0, text, 0), errors)
    except Exception as e:  # the colorizer never raises
        return "Crash:" + type(e).__name__
    errs = ",".join("%s@%d" % (ERR_KIND.get(e._descr, "?" + e._descr), e.charnum) for e in errors) or "-"
    return show_elem(tree) + " | " + errs


class _Text(html.parser.HTMLParser):
    """text content of an HTML fragment, with the <pre> blocks and the field table apart"""

    def __init__(self) -> None:
        super().__init__(convert_charrefs=True)
        self.out: List[str] = []
        self.pre: List[str] = []
        self.in_pre = 0
        self.body: List[str] = []          # text outside the field table
        self.in_table = 0
        self.rows: List[Tuple[str, List[str]]] = []   # (class of tr, [cell text])
        self.cell: Optional[List[str]] = None

    def handle_starttag(self, tag, attrs):
        a = dict(attrs)
        if tag == "pre":
            self.in_pre += 1
            self.pre.append("")
        if tag == "table" and "fieldTable" in (a.get("class") or ""):
            self.in_table += 1
        elif tag == "table" and self.in_table:
            self.in_table += 1
        if self.in_table == 1:
            if tag == "tr":
                self.rows.append((a.get("class") or "", []))
            elif tag == "td" and self.rows:
                self.cell = []
                self.rows[-1][1].append("")

    def handle_endtag(self, tag):
        if tag == "pre":
            self.in_pre -= 1
        if tag == "table" and self.in_table:
            self.in_table -= 1
        if tag in ("p", "li", "tr", "td", "div", "h1", "h2", "h3", "h4", "h5", "dt", "dd", "pre", "ul", "ol", "br"):
            self.handle_data(" ", sep=True)

    def handle_data(self, data, sep=False):
        self.out.append(data)
        if self.in_pre and not sep:
            self.pre[-1] += data
        if self.in_table:
            if self.rows and self.rows[-1][1]:
                self.rows[-1][1][-1] += data
        else:
            self.body.append(data)


def html_text(h: str) -> _Text:
    p = _Text()
    p.feed(h)
    p.close()
    return p


_SYS = None


def scratch_system():
    """one System with a module `m` defining the link targets the generators use"""
    global _SYS
    if _SYS is None:
        from pydoctor import model
        system = model.System()
        system.options.verbosity = 0      # as the command line without -v/-q: only warnings (thresh <= 0) are printed
        system.options.docformat = "epytext"
        b = system.systemBuilder(system)
        b.addModuleString("def f(a, b=1, *args, **kw):\n    pass\nclass K:\n    def __init__(self, a, b=2):\n        pass\n    def meth(self):\n        pass\nx = 1\n", modname="m")
        b.buildModules()
        _SYS = system
    return _SYS


def impl_visible(text: str) -> Tuple[str, str]:
    """parse one epytext paragraph with the real parser; returns (text of the docutils nodes `_to_node` builds,
    text of the rendered HTML or 'raises:<exception>')"""
    from pydoctor.epydoc.markup import epytext as E, ParseError
    from pydoctor import node2stan
    from pydoctor.stanutils import flatten
    errs: List[Any] = []
    try:
        pd = E.parse_docstring(text, errs)
    except ParseError:
        return "error", "error"
    if any(e.is_fatal() for e in errs):
        return "error", "error"
    try:
        nodes_text = "ok " + enc("".join(node2stan.gettext(pd.to_node())))
    except Exception as e:
        nodes_text = "raises"
    mod = scratch_system().allobjects["m"]
    try:
        with contextlib.redirect_stdout(io.StringIO()):
            # a fresh parse: a failed to_node() leaves an empty cached document behind
            h = flatten(E.parse_docstring(text, []).to_stan(mod.docstring_linker))
        rendered = "ok " + enc(text_of(dom(h), sep=False))
    except Exception as e:
        rendered = "raises:" + type(e).__name__ + ":" + str(e).split(":")[-1].strip()
    return nodes_text, rendered


def impl_target(s: str) -> str:
    from pydoctor.epydoc.markup import epytext as E
    m = E._TARGET_RE.match(s)
    return "none" if not m else "some %s %s" % (enc(m.group(1)), enc(m.group(2)))


def impl_block(kind: str, lines: List[str], start: int, indent: int) -> str:
    from pydoctor.epydoc.markup import epytext as E
    toks: List[Any] = []
    errs: List[Any] = []
    if kind == "literal":
        n = E._tokenize_literal(list(lines), start, indent, toks, errs)
        return "%s %d" % (enc(toks[-1].contents), n)
    n = E._tokenize_doctest(list(lines), start, indent, toks, errs)
    return "%s %d %s" % (enc(toks[-1].contents), n, ",".join(str(e._linenum) for e in errs) or "-")


def show_pieces(pieces) -> str:
    from twisted.web.template import Tag
    out = []
    for p in pieces:
        if isinstance(p, str):
            out.append("raw:" + enc(p))
        elif isinstance(p, Tag):
            assert p.tagName == "span" and len(p.children) == 1 and isinstance(p.children[0], str), p
            out.append("%s:%s" % (p.attributes["class"], enc(p.children[0])))
        else:
            out.append("?:" + repr(p))
    return " ".join(out) or "-"


KINDS = ["PROMPT1", "PROMPT2", "KEYWORD", "BUILTIN", "COMMENT", "STRING", "DEFINE", "EOS"]


def match_list(s: str) -> Tuple[str, List[Tuple[int, int, str]]]:
    from pydoctor.epydoc import doctest as D
    ms = []
    for m in D.DOCTEST_RE.finditer(s):
        kind = next((k for k in KINDS[:-1] if m.group(k)), None)
        if kind is None:
            kind = "EOS" if m.group("EOS") is not None else "NONE"
        ms.append((m.start(), m.end(), kind))
    return (",".join("%d-%d-%s" % m for m in ms) or "-"), ms


def impl_codeblock(s: str) -> str:
    from pydoctor.epydoc import doctest as D
    try:
        return show_pieces(list(D.colorize_codeblock_body(s)))
    except AssertionError:
        return "AssertionError"


def example_list(s: str):
    from pydoctor.epydoc import doctest as D
    toks, exs = [], []
    for m in D.DOCTEST_EXAMPLE_RE.finditer(s):
        src, want = m.group("source", "want")
        assert m.start("want") == m.end("source") and m.end("want") == m.end() and m.start("source") == m.start()
        mt, _ = match_list(src)
        exc = bool(want and D.EXCEPT_RE.match(want))
        toks += [str(m.start()), str(m.end("source")), str(m.end()), "1" if exc else "0", mt]
        exs.append((m.start(), m.end("source"), m.end(), want))
    return " ".join(toks), exs


def impl_doctestbody(s: str) -> str:
    from pydoctor.epydoc import doctest as D
    try:
        return show_pieces(list(D.colorize_doctest_body(s)))
    except AssertionError:
        return "AssertionError"


# ------------------------------------------------------------------ generators for the kernel streams

ALPHA = "ab z  ILCUEMBSXQ{{{}}}}<>>().:_@lrvx19-,é λ\u00a0"
SYMS = ["alpha", "<-", "->", "^", "v", "<=", ">=", "Omega", "infinity", "le", "sum"]


def rand_text(rng, n: int, alpha: str = ALPHA) -> str:
    return "".join(rng.choice(alpha) for _ in range(n))


def gen_inline(rng, depth: int = 0, wellformed: bool = True) -> Tuple[str, bool]:
    """one epytext paragraph source; returns (source, has nested markup)"""
    parts: List[str] = []
    nested = False
    for _ in range(rng.randint(1, 5)):
        r = rng.random()
        if r < 0.35 or depth > 2:
            parts.append(rng.choice(["word", "a b", "x.y", "(see)", "two  spaces", "f()", "é", "1 < 2", "a>b", "q.", "Tag", "IO", "x_1", "-", "@"]))
        elif r < 0.6:
            inner, _ = gen_inline(rng, depth + 1, wellformed)
            parts.append(rng.choice("CMIB") + "{" + inner + "}")
            nested = nested or depth > 0 or "{" in inner
        elif r < 0.7:
            code = rng.choice(["lb", "rb", ".", "@", "{", "E", " ", "-"] if wellformed else ["lb", "rb", "xx", "", "I{x}", "."])
            parts.append("E{" + code + "}")
        elif r < 0.78:
            parts.append("S{" + (rng.choice(SYMS) if wellformed or rng.random() < 0.5 else rng.choice(["nosuch", "", "B{x}"])) + "}")
        elif r < 0.86:
            inner, _ = gen_inline(rng, depth + 1, wellformed)
            parts.append("{" + inner + "}")
            nested = True
        else:
            tag = rng.choice("LU")
            name_parts = []
            for _ in range(rng.randint(0, 2)):
                name_parts.append(rng.choice(["the text", "I{it}", "f", "a  b", "E{lb}", "{n}", "B{C{x}}", "é"]))
            name = " ".join(name_parts)
            tgt_pool = ["m.f", "m.K.meth", "f", "m.f()", "K", "http://x.org/a", "www.y.z", "me@x.org", "URI:m.f", "URL:http://q", " m . f "]
            if not wellformed:
                tgt_pool += ["9a", "a b!", "", "a<b", "f(", "x>"]
            tgt = rng.choice(tgt_pool)
            form = rng.random()
            if form < 0.6:
                body = name + rng.choice(["", " ", "  "]) + "<" + tgt + ">"
            elif form < 0.85:
                body = tgt.strip() if wellformed else rng.choice([tgt, name])
            else:
                body = name + "<" + tgt + ">" + rng.choice(["", "", "x", "E{.}"]) if not wellformed else "<" + tgt + ">"
            parts.append(tag + "{" + body + "}")
            nested = nested or "{" in body
    sep = rng.choice([" ", " ", ""]) if not wellformed else " "
    return sep.join(parts), nested


PY_SNIPPETS = [
    "x = 1", "print('a  ')", "def f(a, b=2):", "    return a + b", "class K(object):", "# a comment", "s = \"\"\"multi",
    "line\"\"\"", "for i in range(3):", "    print(i)  # doctest: +SKIP", "y = 'it''s'", "import os.path", "z = len([1, 2])",
    "lambda: None", "t = '''a", "... b'''", "assert x is not None", "obj.print = 3", "def  spaced (x):", "async def g(): pass",
    "raise ValueError('bad')", "s = \"a \\\" b\"", "",
]
WANT_LINES = ["1", "a  ", "[1, 2]", "Traceback (most recent call last):", "  ...", "ValueError: bad", "3 ", "<BLANKLINE>", "x\ty", "done\u00a0"]


def gen_doctest_text(rng) -> str:
    lines: List[str] = []
    for _ in range(rng.randint(1, 4)):
        if rng.random() < 0.25:
            lines.append(rng.choice(["Some text.", "", "  indented text", "more"]))
        ind = rng.choice(["", "", "  "])
        lines.append(ind + ">>> " + rng.choice(PY_SNIPPETS))
        for _ in range(rng.randint(0, 2)):
            lines.append(ind + "... " + rng.choice(PY_SNIPPETS))
        for _ in range(rng.randint(0, 3)):
            lines.append(ind + rng.choice(WANT_LINES))
        if rng.random() < 0.5:
            lines.append(rng.choice(["", " "]))
    s = "\n".join(lines)
    if rng.random() < 0.4:
        s += "\n"
    return s


def gen_lines(rng) -> Tuple[List[str], int, int]:
    """random line list for the block slicers: (lines, start, block_indent)"""
    n = rng.randint(1, 9)
    lines = []
    for _ in range(n):
        r = rng.random()
        if r < 0.25:
            lines.append(rng.choice(["", " ", "    ", "      "]))
        else:
            lines.append(" " * rng.choice([0, 1, 2, 4, 4, 6, 8]) + rng.choice(["x = 1", ">>> go()", "text here  ", "a", "- b", "\u00a0nb", "\ttab"]))
    start = rng.randrange(0, n + 1)
    return lines, start, rng.choice([0, 2, 4, 4, 6])


# ------------------------------------------------------------------ kernel streams

def stream_tables(ctx: Ctx) -> None:
    import sys
    spaces = [i for i in range(0x3100) if chr(i).isspace()]
    res = [i for i in range(0x3100) if re.fullmatch(r"\s", chr(i))]
    beyond = [i for i in range(0x3100, sys.maxunicode + 1) if chr(i).isspace() or re.fullmatch(r"\s", chr(i))]
    impl = ",".join(map(str, spaces))
    if spaces != res or beyond:
        impl = "python-tables-disagree:%r" % (beyond[:3],)
    ctx.compare("pyIsSpace-table", ["epytext spaces"], [impl], [{"table": "str.isspace == \\s"}])
    ctx.count("stream:tables")


def stream_target(ctx: Ctx) -> None:
    reqs, impls, pay = [], [], []
    alpha = "ab <<>> \n\tURIL:.x\u00a0"
    seen = set()
    fixed = ["a<b>", "a <b>", "<b>", "a<b>\n", "a<b>\n\n", "a\nb<c>", "a<URI:x>", "a<URI:>", "a<URL:x>y", "<a>\n<b>\n", "x<y>z<t>",
             "a<>", "a<b", "a b>", "a\u00a0<b>", "a \t<b\n>", "<a<b>", "a><b>", "a<b>>", ""]
    n = 4000 if ctx.quick else 60000
    for i in range(n + len(fixed)):
        s = fixed[i] if i < len(fixed) else rand_text(ctx.rng, ctx.rng.randint(0, 9), alpha)
        if s in seen:
            continue
        seen.add(s)
        reqs.append("epytext target " + enc(s))
        impls.append(impl_target(s))
        pay.append({"string": s})
    ctx.compare("_TARGET_RE~splitTarget", reqs, impls, pay)
    ctx.count("stream:target-re", len(reqs))


def stream_colorize(ctx: Ctx) -> None:
    reqs, impls, pay = [], [], []
    n_rand = 4500 if ctx.quick else 120000
    n_struct = 3000 if ctx.quick else 60000
    texts: List[Tuple[str, bool, str]] = []
    for _ in range(n_rand):
        texts.append((rand_text(ctx.rng, ctx.rng.randint(0, 14)), False, "random"))
    for _ in range(n_struct):
        wf = ctx.rng.random() < 0.6
        s, nested = gen_inline(ctx.rng, 0, wf)
        texts.append((s, nested, "wellformed" if wf else "malformed"))
    for s in ["a{b}", "A{b}", "xI{b}", "E{}", "E{lb}", "S{alpha}", "L{f}", "L{a b<m.f>}", "U{x<y>}{", "}", "{", "I{", "C{B{x}}y", "", "{}", "L{}", "L{I{x}}", "E{E{x}}"]:
        texts.append((s, "{" in s, "fixed"))
    for s, nested, kind in texts:
        rq = "epytext colorize %s %s" % (enc(s), enc(word_extra(s)))
        out = impl_colorize(s)
        reqs.append(rq)
        impls.append(out)
        pay.append({"text": s})
        ok = out.endswith("| -")
        ctx.case("colorize:" + s, nested and ok, {"stream": "colorize", "text": s, "impl": out} if nested and ok and len(s) > 25 and len(ctx.samples) < 2 else None)
        ctx.count("colorize:%s:%s" % (kind, "ok" if ok else "error"))
    ctx.compare("_colorize~Epytext.colorize", reqs, impls, pay)


def stream_visible(ctx: Ctx) -> None:
    """well-formed paragraphs through the real parser (`_to_node`) and renderer; the model answers visible text and strip"""
    reqs, pay = [], []
    n = 1500 if ctx.quick else 30000
    outs = []
    from pydoctor.epydoc.markup import epytext as E
    todo = [("S{%s}" % sym, False) for sym in E.SYMBOLS]         # every symbol of the live table, once
    for _ in range(n):
        todo.append(gen_inline(ctx.rng, 0, True))
    for s, nested in todo:
        s = " ".join(s.split(" ")) if ctx.rng.random() < 0.8 else s   # mostly single blanks; sometimes runs of blanks survive
        s = s.strip()
        if not s or re.match(r"(-|\d+\.|@\w+.*:|>>>)( |$)", s) or s.endswith("::") or "M{" in s:
            continue
        nodes_text, rendered = impl_visible(s)
        reqs.append("epytext visible %s %s" % (enc(s), enc(word_extra(s))))
        pay.append({"text": s})
        outs.append((s, nested, nodes_text, rendered))
    # the model answers `ok <visible> <strip>`; the implementation only has the visible text
    if ctx.model_ok:
        model = ctx.driver.run_parallel(reqs)
        for (s, nested, nodes_text, rendered), mo in zip(outs, model):
            ctx.traces_validated += 1
            m = mo.split()
            if m[0] == "ok":
                if m[1] != m[2]:
                    ctx.disagree("visible==strip (model, theorem colorize_conserves)", {"text": s}, m[1], m[2])
                mo = "ok " + m[1]
            if mo != nodes_text:
                ctx.disagree("_to_node text~Epytext.visible", {"text": s}, mo, nodes_text)
            ctx.case("visible:" + s, nested and nodes_text.startswith("ok"), None)
            ctx.count("visible:" + nodes_text.split()[0])
            # direct check on the rendering of the same paragraph: it exists and shows the text of the nodes
            if rendered.startswith("raises"):
                multi = (re.search(r"C\{[^{}]*  ", s) or "  " in dec(nodes_text.split()[1]) or "\u00a0" in s) if nodes_text.startswith("ok") else False
                sig = ("html2stan:nbsp-entity:docstring-falls-back-to-plaintext" if ("undefined entity" in rendered and multi)
                       else "epytext:to_stan-" + ":".join(rendered.split(":")[:2]))
                ctx.fail(sig, {"paragraph": s, "exception": rendered}, "rendering a paragraph the parser accepted raises: " + rendered)
            elif nodes_text.startswith("ok") and dec(rendered.split()[1] if len(rendered.split()) > 1 else "u:").replace("\u00a0", " ") != \
                    dec(nodes_text.split()[1] if len(nodes_text.split()) > 1 else "u:").replace("\u00a0", " "):
                ctx.fail("epytext:rendered-text-differs-from-nodes", {"paragraph": s, "rendered": dec(rendered.split()[1]) if len(rendered.split()) > 1 else "",
                                                                       "nodes": dec(nodes_text.split()[1]) if len(nodes_text.split()) > 1 else ""},
                         "the rendered text of a paragraph differs from the text of its docutils nodes")


def stream_blocks(ctx: Ctx) -> None:
    reqs, impls, pay = [], [], []
    n = 3000 if ctx.quick else 50000
    for _ in range(n):
        lines, start, ind = gen_lines(ctx.rng)
        for kind in ("literal", "doctest"):
            if kind == "doctest" and start >= len(lines):
                continue            # _tokenize_doctest is only called on an existing line
            reqs.append("epytext %s %d %d %s" % (kind, start, ind, " ".join(enc(l) for l in lines)))
            impls.append(impl_block(kind, lines, start, ind))
            pay.append({"kind": kind, "lines": lines, "start": start, "block_indent": ind})
            ctx.count("blocks:" + kind)
    ctx.compare("_tokenize_literal/_doctest~Epytext.tokenize*", reqs, impls, pay)


def stream_splice(ctx: Ctx) -> None:
    from pydoctor.epydoc import doctest as D
    reqs, impls, pay = [], [], []
    n = 1500 if ctx.quick else 25000
    for _ in range(n):
        # code blocks
        src = "\n".join(ctx.rng.choice(PY_SNIPPETS) for _ in range(ctx.rng.randint(1, 5)))
        mt, ms = match_list(src)
        prev = 0
        for (a, b, k) in ms:
            if not (prev <= a <= b) or k == "NONE":
                ctx.fail("contract:DOCTEST_RE-spans", {"source": src}, "finditer spans overlap or decrease")
            prev = b
            if k == "DEFINE":
                g = D.DEFINE_FUNC_RE.match(src[a:b])
                if not g or "".join(g.group("def", "space", "name")) != src[a:b]:
                    ctx.fail("contract:DEFINE_FUNC_RE-groups", {"source": src}, "groups do not concatenate to the match")
        out = impl_codeblock(src)
        reqs.append("epytext codeblock %s %s" % (enc(src), mt))
        impls.append(out)
        pay.append({"codeblock": src})
        ctx.count("splice:codeblock")
        if out != "AssertionError":
            txt = "".join(dec(p.split(":", 1)[1]) for p in out.split() if p != "-")
            if txt != src:
                ctx.fail("codeblock:text-changed", {"codeblock": src}, "colorize_codeblock_body pieces do not concatenate to the input")
        # doctest bodies
        s = gen_doctest_text(ctx.rng)
        toks, exs = example_list(s)
        for n_ex, (a0, a1, a2, want) in enumerate(exs):
            if want and not want.endswith("\n") and not (n_ex == len(exs) - 1 and a2 == len(s)):
                ctx.fail("contract:DOCTEST_EXAMPLE_RE-want-unterminated", {"doctest": s}, "an expected-output group without final newline is not at the end of the string")
        out = impl_doctestbody(s)
        if out != "AssertionError":
            txt = "".join(dec(p.split(":", 1)[1]) for p in out.split() if p != "-")
            if txt not in (s, s + "\n"):
                ws_only = [l.rstrip() for l in txt.split("\n")] == [l.rstrip() for l in (s + "\n").split("\n")] or \
                          [l.rstrip() for l in txt.rstrip("\n").split("\n")] == [l.rstrip() for l in s.rstrip("\n").split("\n")]
                ctx.fail("doctest:want-trailing-whitespace-dropped" if ws_only else "doctestbody:text-changed", {"doctest": s, "shown": txt},
                         "colorize_doctest_body pieces do not concatenate to the input (up to one final newline)")
        reqs.append(("epytext doctestbody %s %s" % (enc(s), toks)).rstrip())
        impls.append(out)
        pay.append({"doctest": s})
        ctx.count("splice:doctestbody")
    ctx.compare("colorize_codeblock_body/doctest_body~Doctest.*", reqs, impls, pay)


def stream_plaintext(ctx: Ctx) -> None:
    from pydoctor.epydoc.markup import plaintext
    from twisted.web.template import Tag
    reqs, impls, pay = [], [], []
    n = 300 if ctx.quick else 5000
    for _ in range(n):
        s = rand_text(ctx.rng, ctx.rng.randint(0, 30), ALPHA + "\n\n&\"'\t*`")
        stan = plaintext.parse_docstring(s, []).to_stan(None)
        assert isinstance(stan, Tag) and stan.tagName == "p"
        reqs.append("epytext plaintext " + enc(s))
        impls.append(" ".join(enc(c) for c in stan.children))
        pay.append({"text": s})
    ctx.compare("plaintext.to_stan~plaintextToStan", reqs, impls, pay)
    ctx.count("stream:plaintext", n)


# ====================================================================== documents: generator

FORMATS = ["epytext", "restructuredtext", "google", "numpy", "plaintext"]
RST_FAMILY = ("restructuredtext", "google", "numpy")

BASE = ["alpha", "beta", "Gamma", "delta", "foo", "bar", "baz", "Qux", "data", "value", "node", "tree", "left",
        "right", "fast", "slow", "item", "word", "text", "thing", "result", "number", "x1", "y2", "k9"]
UNIVERSAL = ["a<b", "x>y", "&amp;", "<tag>", "#1", "50%", "a/b", "a+b", "a=b", "~x", "$v", "\u00e9t\u00e9", "na\u00efve",
             "\u03bbx", "\u65e5\u672c", "e.g.", "&", "x.y", "f()", "don't", "a,b",
             # characters str.splitlines() breaks on: white space for the word oracle (reST replaces them by a blank, ce72216)
             "line\u2028sep", "next\x85line"]
SPECIAL = {
    "epytext": ["*star*", "`tick`", "_under_", "a|b", "back\\slash", "x:", "a::b", "**kw", "|pipe|", "{curly}", "{}", "a{b}c"],
    "restructuredtext": ["{curly}", "@sign", "C{x}", "x*y", "a_b", "{", "}", "E{lb}", "x:", "a::b"],
    "google": ["{curly}", "@sign", "C{x}", "x*y", "a_b", "{", "}"],
    "numpy": ["{curly}", "@sign", "C{x}", "x*y", "a_b", "{", "}"],
    "plaintext": ["*star*", "`tick`", "{curly}", "@sign", "C{x}", "B{", "}", "::", "- ", ">>>", "<b>", "&lt;", "  two", "\ttab"],
}
SYMBOLS = [("alpha", "\u03b1"), ("<-", "\u2190"), ("->", "\u2192"), ("le", "\u2264"), ("Omega", "\u03a9"), ("infinity", "\u221e"), ("^", "\u2191")]
XREFS = ["m.f", "m.K", "m.K.meth", "m.x"]
URLS = ["http://example.org/a", "https://x.org/p?q=1"]
SAFE_START = re.compile(r"^[A-Za-z][a-z]{2,}")

BLOCK_LINES = ["x = 1", "if x < 2 and y > 3:", "    print('a & b')", "def g(x):", "    return {x: [1, 2]}", "s = \"q\"  # note",
               "@decorated", "- not a list", "1. not numbered", "value = 't'", "a  b   c", "\u00e9 = '\u03bb'", "B{not markup}",
               "*not* `markup`", "::", "<b>&amp;</b>", "    deeper", "        deepest", "end"]
SRC_LINES = ["x = 1", "print('a  b')", "y = [1, 2]", "s = \"str\"", "z = len(s)  # comment", "d = {'k': 1}", "t = x < y & 1"]
CONT_LINES = ["    + 2", "    .strip()"]
WANT = ["1", "[1, 2]", "'str'", "a  b", "<obj>", "3.0", "x & y", "Traceback (most recent call last):", "ValueError: bad"]


class DocGen:
    """abstract documents"""

    def __init__(self, rng):
        self.rng = rng
        self.nested_markup = False

    def word(self):
        r = self.rng.random()
        if r < 0.72:
            return ("w", self.rng.choice(BASE))
        if r < 0.87:
            return ("w", self.rng.choice(UNIVERSAL))
        return ("sp", self.rng.randrange(1000))

    def words(self, lo=1, hi=3):
        return [self.word() for _ in range(self.rng.randint(lo, hi))]

    def inline(self, depth=0):
        r = self.rng.random()
        if r < 0.55 or depth >= 2:
            node = self.word()
        elif r < 0.75:
            kind = self.rng.choice(["bold", "italic", "code", "code", "math"])
            kids = [self.inline(depth + 1) for _ in range(self.rng.randint(1, 3))]
            if kind == "math":
                kids = [("w", self.rng.choice(["x1", "y2", "k9"]))]
            if depth > 0 or any(k[0] not in ("w", "sp") for k in kids):
                self.nested_markup = True
            node = ("m", kind, kids)
        elif r < 0.84:
            label = [self.inline(depth + 1) for _ in range(self.rng.randint(1, 2))] if self.rng.random() < 0.6 else None
            node = ("link", label, self.rng.choice(XREFS))
        elif r < 0.90:
            label = self.words(1, 2) if self.rng.random() < 0.6 else None
            node = ("url", label, self.rng.choice(URLS))
        elif r < 0.95:
            node = ("brace", self.rng.choice("{}"))
        else:
            node = ("sym",) + self.rng.choice(SYMBOLS)
        if self.rng.random() < 0.25:
            node = ("p", node, self.rng.choice(["(", "\"", ""]), self.rng.choice([".", ",", ";", "!", "?", ")", "\""]))
        return node

    def inlines(self, lo=2, hi=9, first_plain=True):
        n = self.rng.randint(lo, hi)
        res = [self.inline() for _ in range(n)]
        if first_plain:
            res[0] = ("w", self.rng.choice(BASE[:22]).capitalize())
        return res

    def para(self):
        return ("para", self.inlines())

    def lst(self, depth=0):
        kind = self.rng.choice(["ulist", "olist"])
        items = []
        for _ in range(self.rng.randint(1, 3)):
            blocks: List[Any] = [("para", self.inlines(1, 6))]
            if any(i[0] not in ("w", "sp", "p") or (i[0] == "p" and i[1][0] not in ("w", "sp")) for i in blocks[0][1]):
                self.nested_markup = True
            if self.rng.random() < 0.22:
                # first paragraph on two lines ending with `::`, a literal block, then another paragraph of the same item
                blocks = [("litfirst", [("w", self.rng.choice(BASE).capitalize())] + self.words(1, 3), self.words(1, 3),
                           self.block_lines()), ("para", self.inlines(1, 5))]
                self.nested_markup = True
            elif depth < 1 and self.rng.random() < 0.3:
                blocks.append(self.lst(depth + 1))
            elif self.rng.random() < 0.15:
                blocks.append(("para", self.inlines(1, 5)))
            items.append(blocks)
        return (kind, items)

    def block_lines(self, trailing_ws=False):
        n = self.rng.randint(1, 5)
        lines = [self.rng.choice(BLOCK_LINES) for _ in range(n)]
        if n >= 3 and self.rng.random() < 0.4:
            lines[self.rng.randrange(1, n - 1)] = ""
        lines[0] = lines[0].lstrip() or "x"
        lines[-1] = lines[-1] or "end"
        if trailing_ws:
            i = self.rng.randrange(n)
            if lines[i]:
                lines[i] += "  "
        return lines

    def literal(self):
        intro = self.inlines(1, 4)
        return ("literal", intro, self.block_lines(self.rng.random() < 0.25))

    def doctest(self):
        exs = []
        for _ in range(self.rng.randint(1, 3)):
            src = [self.rng.choice(SRC_LINES)]
            if self.rng.random() < 0.25:
                src.append(self.rng.choice(CONT_LINES))
            want = [self.rng.choice(WANT) for _ in range(self.rng.randint(0, 2))]
            exs.append((src, want))
        tw = None
        if self.rng.random() < 0.2 and exs[-1][1]:
            tw = "last"          # trailing blanks on the last expected-output line of an example
        elif self.rng.random() < 0.15 and len(exs[0][1]) > 1:
            tw = "mid"           # ... on an expected-output line that is not the last of its example
        return ("doctest", exs, tw)

    def code(self):
        lines = [l for l in self.block_lines() if l not in ("::",)]
        while lines and not lines[0].strip():
            lines.pop(0)
        while lines and not lines[-1].strip():
            lines.pop()
        if lines:
            lines[0] = lines[0].lstrip()
        return ("code", lines or ["x = 1"])

    HAZARDS = ["-1", "--flag", "~user", "=>", "-x", "~", "=", "-0.5", "==", "~~", "->", "=1"]

    def hard(self):
        """a paragraph of two or three physical lines whose later lines START with `=`, `-` or `~`; often a line is
        exactly as long as the line above (what a heading underline would be)"""
        lines: List[str] = []
        nl = self.rng.choice([2, 2, 3])
        later = []
        for _ in range(nl - 1):
            later.append(self.rng.choice(self.HAZARDS) + " " + " ".join(self.rng.choice(BASE) for _ in range(self.rng.randint(1, 5))))
        first_target = len(later[0]) if self.rng.random() < 0.6 else None
        first = self.rng.choice(BASE[:22]).capitalize()
        if first_target is None:
            first += " " + " ".join(self.rng.choice(BASE) for _ in range(self.rng.randint(1, 5)))
        else:
            while len(first) + 4 <= first_target:
                w = self.rng.choice([b for b in BASE if len(first) + 1 + len(b) <= first_target] or ["x"])
                first += " " + w
            r = first_target - len(first)
            if r >= 2:
                first += " " + "x" * (r - 1)
            elif r == 1:
                first += "x"
            if len(first) != first_target:          # the hazard line is shorter than any first line: lengthen it instead
                later[0] += " " + "y" * max(1, len(first) - len(later[0]) - 1) if len(first) - len(later[0]) >= 2 else "y" * (len(first) - len(later[0]))
        lines = [first] + later
        if nl == 3 and self.rng.random() < 0.5:       # third line as long as the second
            d = len(lines[1]) - len(lines[2])
            if d >= 2:
                lines[2] += " " + "z" * (d - 1)
            elif d == 1:
                lines[2] += "z"
            elif d <= -2:
                lines[1] += " " + "z" * (-d - 1)
            elif d == -1:
                lines[1] += "z"
        return ("hard", lines)

    def section(self, level=0):
        body = [self.hard() if self.rng.random() < 0.35 else self.para()] + self.blocks(self.rng.randint(0, 2), False)
        if level < 2 and self.rng.random() < 0.45:
            body.append(self.section(level + 1))
        return ("section", [("w", self.rng.choice(BASE).capitalize())] + self.words(0, 2), body, level)

    def blocks(self, n, allow_section=True):
        res = []
        for _ in range(n):
            r = self.rng.random()
            if r < 0.10:
                res.append(self.hard())
            elif r < 0.42:
                res.append(self.para())
            elif r < 0.6:
                res.append(self.lst())
            elif r < 0.72:
                res.append(self.literal())
            elif r < 0.84:
                res.append(self.doctest())
            elif r < 0.92:
                res.append(self.code())
            elif allow_section:
                res.append(self.section(0))
            else:
                res.append(self.para())
        return res

    def fields(self, owner):
        res = []
        n = self.rng.choice([0, 1, 2, 2, 3, 4, 6])
        kinds_fn = ["param", "param", "keyword", "return", "yield", "raise", "warn", "var", "note", "see", "since", "author", "todo", "custom"]
        kinds_cls = ["param", "ivar", "cvar", "ivar", "raise", "note", "see", "since", "author", "todo", "custom"]
        kinds_mod = ["var", "var", "note", "see", "since", "author", "todo", "custom"]
        kinds_prop = ["return", "return", "raise", "note", "see", "todo"]
        kinds_var = ["note", "see", "since", "author", "todo", "custom"]
        pool = {"function": kinds_fn, "class": kinds_cls, "module": kinds_mod, "property": kinds_prop,
                "variable": kinds_var}[owner]
        allow_dup = self.rng.random() < 0.25          # the same parameter / keyword documented twice
        if owner == "function" and self.rng.random() < 0.12:
            # keywords that have a type but no description, and nothing else described in the signature
            res = [{"kind": "keyword", "arg": a, "type": self.rng.choice(["float", "int", "str"]), "body": [],
                    "type_first": self.rng.random() < 0.5} for a in self.rng.sample(["timeout", "retries"], self.rng.randint(1, 2))]
            if self.rng.random() < 0.4:
                res.append({"kind": "note", "arg": None, "type": None, "body": self.inlines(1, 4), "type_first": False})
            return res
        used_args, singles = set(), set()
        for _ in range(n):
            k = self.rng.choice(pool)
            arg, typ = None, None
            if k in ("return", "yield"):
                if k in singles:
                    continue
                singles.add(k)
                if self.rng.random() < 0.5:
                    typ = self.rng.choice(["int", "str"])
            elif k == "param":
                cands = [a for a in ("a", "b") if ("p", a) not in used_args or allow_dup]
                if not cands:
                    continue
                arg = self.rng.choice(cands)
                used_args.add(("p", arg))
                if self.rng.random() < 0.5:
                    typ = self.rng.choice(["int", "str"])
            elif k == "keyword":
                arg = self.rng.choice(["opt", "flag"])
                if ("k", arg) in used_args and not allow_dup:
                    continue
                used_args.add(("k", arg))
            elif k in ("raise", "warn"):
                arg = self.rng.choice(["ValueError", "KeyError"] if k == "raise" else ["RuntimeWarning", "UserWarning"])
            elif k in ("ivar", "cvar", "var"):
                arg = self.rng.choice(["zz", "yy", "ww"])
                if self.rng.random() < 0.15:
                    # the documented name is defined further down by a method / a function / a class
                    arg = {"class": "meth", "module": self.rng.choice(["f", "K"])}.get(owner, arg)
                if ("v", arg) in used_args:
                    continue
                used_args.add(("v", arg))
                if self.rng.random() < 0.4:
                    typ = self.rng.choice(["int", "str"])
            body = self.inlines(1, 6)
            if any(i[0] in ("m", "link", "url") for i in body):
                self.nested_markup = True
            fld = {"kind": k, "arg": arg, "type": typ, "body": body, "type_first": self.rng.random() < 0.5}
            if self.rng.random() < 0.3:
                # descriptions that start with punctuation a separator-stripper could eat
                fld["lead"] = self.rng.choice(["-1", "--verbose", ":-)", "::", "-x", ":", "-0.5"])
            if self.rng.random() < 0.12:
                fld["aligned"] = True
            if k in ("return", "yield") and self.rng.random() < 0.35:
                fld["freeform"] = True      # numpy: free text instead of "type / description", with a colon inside
            if k in ("note", "see", "todo", "custom", "return", "raise", "param", "keyword") and self.rng.random() < 0.18:
                # the field's first paragraph wraps, ends with `::`, a literal block and one more paragraph follow
                fld["literal"] = self.block_lines()
                fld["after"] = self.inlines(1, 4)
            elif k in self.CONS_KINDS and self.rng.random() < 0.45:
                # seeded C09-r5-1: a description of more than one block - used where the field is written as an entry of a reST
                # consolidated field (bullet item / definition): further paragraph, nested list, literal block
                more: List[Any] = []
                for _ in range(self.rng.randint(1, 3)):
                    r = self.rng.random()
                    if r < 0.4:
                        more.append(("para", self.inlines(1, 5)))
                    elif r < 0.75:
                        more.append(("list", [self.inlines(1, 4) for _ in range(self.rng.randint(1, 3))]))
                    else:
                        more.append(("lit", self.inlines(1, 3), self.block_lines()))
                fld["more"] = more
            res.append(fld)
        if allow_dup and owner == "function":
            # the same keyword (and sometimes the same parameter) documented twice
            for k, arg in [("keyword", "opt")] + ([("param", "a")] if self.rng.random() < 0.5 else []):
                have = sum(1 for f in res if f["kind"] == k and f["arg"] == arg)
                for _ in range(max(0, 2 - have)):
                    res.insert(self.rng.randrange(len(res) + 1),
                               {"kind": k, "arg": arg, "type": None, "body": self.inlines(1, 4), "type_first": False})
        return res

    CONS_KINDS = ("param", "keyword", "raise", "ivar", "cvar", "var")

    def document(self):
        owner = self.rng.choice(["function", "function", "function", "class", "class", "module", "module", "property", "variable"])
        self.nested_markup = False
        body = [self.para()] + self.blocks(self.rng.choice([0, 1, 1, 2, 3, 4]))
        if self.rng.random() < 0.08:
            # the docstring is one section (title first, no paragraph before it), sometimes followed by a second one
            body = [self.section(0)] + ([self.section(0)] if self.rng.random() < 0.3 else [])
        r = self.rng.random()
        if r < 0.04 and body[0][0] == "para":
            body[0][1].append(("code2", "a  b"))       # inline code with a run of two blanks
        elif r < 0.06 and body[0][0] == "para":
            body[0][1].append(("w", "10\u00a0EUR"))    # a no-break space in the text
        doc = {"owner": owner, "body": body, "fields": self.fields(owner),
               "field_perm": self.rng.randrange(1 << 30) if self.rng.random() < 0.4 else None,
               # reST consolidated fields (`:Parameters:` + bullet or definition list) instead of one field per entry
               "consolidated": self.rng.choice([None, None, "bullet:", "bullet-", "deflist"])}
        if owner in ("property", "function", "variable") and self.rng.random() < 0.3:
            doc["inherit"] = True        # written on a base class member, rendered for the override that has no docstring
        if owner == "variable":
            doc["var_level"] = "class" if doc.get("inherit") else self.rng.choice(["module", "class", "instance"])
            doc["var_type"] = self.rng.choice(["int", "str", None])
        if owner == "property" and self.rng.random() < 0.5:
            doc["return_tag"] = "returns"          # `@returns:` / `:returns:` instead of `@return:` / `:return:`
        return doc


# ====================================================================== documents: serialisers

class Out:
    """what the generator intends the reader to see"""

    def __init__(self):
        self.words: List[str] = []
        self.blocks: List[Tuple[str, str]] = []
        self.flags: set = set()


class Ser:
    def __init__(self, fmt: str):
        self.fmt = fmt
        self.ep = fmt == "epytext"
        self.last: Optional[str] = None
        self.field_perm: Optional[int] = None
        self.var_type: Optional[str] = None
        self.return_tag: Optional[str] = None
        self.consolidated: Optional[str] = None
        self.flags: set = set()
        self.attr_owner = False      # google/numpy read "type: description" on the first line of an attribute docstring

    # ---- inline: returns (source, visible)
    def inl(self, node, in_markup: Optional[str] = None) -> Tuple[str, str]:
        t = node[0]
        if t == "w":
            return node[1], node[1]
        if t == "sp":
            pool = SPECIAL[self.fmt]
            w = pool[node[1] % len(pool)]
            if in_markup and not self.ep:
                w = "sp" + str(node[1] % 7)
            return w, w
        if t == "p":
            s, v = self.inl(node[1], in_markup)
            return node[2] + s + node[3], node[2] + v + node[3]
        if t == "code2":
            return ("C{%s}" if self.ep else "``%s``") % node[1], node[1]
        if t == "brace":
            if self.ep:
                return ("E{lb}" if node[1] == "{" else "E{rb}"), node[1]
            return node[1], node[1]
        if t == "sym":
            if self.ep:
                return "S{%s}" % node[1], node[2]
            return node[2], node[2]
        if t == "m":
            kind, kids = node[1], node[2]
            if self.ep:
                parts = [self.inl(k, kind) for k in kids]
                src = " ".join(p[0] for p in parts)
                vis = " ".join(p[1] for p in parts)
                return {"bold": "B", "italic": "I", "code": "C", "math": "M"}[kind] + "{" + src + "}", vis
            # reST family: no nesting; the content is the visible text of the children
            vis = " ".join(self.plain(k) for k in kids)
            if in_markup:
                return vis, vis
            if kind == "bold":
                return "**" + vis + "**", vis
            if kind == "italic":
                return "*" + vis + "*", vis
            if kind == "math":
                return ":math:`" + vis + "`", vis
            return "``" + vis + "``", vis
        if t == "link":
            label, target = node[1], node[2]
            if self.ep:
                if label is None:
                    return "L{%s}" % target, target
                parts = [self.inl(k, "link") for k in label]
                return "L{%s <%s>}" % (" ".join(p[0] for p in parts), target), " ".join(p[1] for p in parts)
            if in_markup:
                v = target if label is None else " ".join(self.plain(k) for k in label)
                return v, v
            if label is None:
                return "`%s`" % target, target
            vis = " ".join(self.plain(k) for k in label)
            return "`%s <%s>`" % (vis, target), vis
        if t == "url":
            label, url = node[1], node[2]
            if self.ep:
                if label is None:
                    return "U{%s}" % url, url
                parts = [self.inl(k, "url") for k in label]
                return "U{%s <%s>}" % (" ".join(p[0] for p in parts), url), " ".join(p[1] for p in parts)
            if in_markup:
                v = url if label is None else " ".join(self.plain(k) for k in label)
                return v, v
            if label is None:
                return url, url
            vis = " ".join(self.plain(k) for k in label)
            return "`%s <%s>`__" % (vis, url), vis
        raise AssertionError(node)

    def plain(self, node) -> str:
        """visible text of a node placed inside reST inline markup (which cannot nest): plain words only"""
        t = node[0]
        if t == "w":
            return node[1] if re.fullmatch(r"[A-Za-z0-9]+", node[1]) else "w" + str(len(node[1]))
        if t == "sp":
            return "sp" + str(node[1] % 7)
        if t == "p":
            return self.plain(node[1])
        if t in ("brace", "sym"):
            return "q"
        if t == "m":
            return " ".join(self.plain(k) for k in node[2])
        if t in ("link", "url"):
            return "ref" if node[1] is None else " ".join(self.plain(k) for k in node[1])
        raise AssertionError(node)

    def wrap(self, inls, first_prefix: str, indent: str, out_words: List[str], width: int = 68, suffix: str = "",
             no_colon: bool = False) -> List[str]:
        """lay the chunks out on lines; a new line starts only before a chunk that cannot be taken for markup"""
        chunks = [self.inl(n) for n in inls]
        if no_colon:
            # google / numpy field sections split on colons: chunks that carry one are written as plain words
            chunks = [c if ":" not in c[0] else (self.plain(n), self.plain(n)) for c, n in zip(chunks, inls)]
        if suffix:
            chunks[-1] = (chunks[-1][0] + suffix, chunks[-1][1])
        lines, cur = [], first_prefix
        started = False
        for src, vis in chunks:
            out_words.extend(vis.split())
            if started and len(cur) + 1 + len(src) > width and SAFE_START.match(src) and not src.endswith(":"):
                lines.append(cur)
                cur = indent + src
            else:
                cur = cur + (" " if started else "") + src
            started = True
        lines.append(cur)
        return lines

    # ---- blocks
    def block(self, b, ind: int, out: Out, lines: List[str]) -> None:
        pad = " " * ind
        t = b[0]
        nap = self.fmt in ("google", "numpy")
        if self.ep and t in ("ulist", "olist") and self.last == "literal":
            # in epytext an indented list directly after a literal block would continue the literal block
            self.block(("para", [("w", "Then")]), ind, out, lines)
        if t != "section":
            self.last = "literal" if (t == "literal" or (t == "code" and self.ep)) else t
        if t == "para":
            lines.extend(self.wrap(b[1], pad, pad, out.words, no_colon=(nap and self.attr_owner and not lines)))
            lines.append("")
        elif t == "hard":
            for l in b[1]:
                lines.append(pad + l)
                out.words.extend(l.split())
            lines.append("")
            out.flags.add("hard-para")
            if any(len(x) == len(y) for x, y in zip(b[1], b[1][1:])):
                out.flags.add("hard-para-equal-length")
        elif t in ("ulist", "olist"):
            li = ind + 2 if self.ep else ind
            for n, item in enumerate(b[1]):
                bullet = "- " if t == "ulist" else "%d. " % (n + 1)
                cind = li + len(bullet)
                first = item[0]
                if first[0] == "litfirst":
                    if nap:
                        first = ("para", first[1] + first[2])
                    else:
                        lines.extend(self.wrap(first[1], " " * li + bullet, " " * cind, out.words, width=300))
                        w2: List[str] = []
                        lines.extend(self.wrap([("w", "then")] + first[2] + [("w", "shown")], " " * cind, " " * cind, w2, width=300, suffix="::"))
                        out.words.extend(w2[:-1] + ["shown:"])
                        lines.append("")
                        body = [l.rstrip() if not self.ep else l for l in first[3]]
                        lines.extend((" " * (cind + 4) + l) if l else "" for l in body)
                        lines.append("")
                        out.blocks.append(("literal", "\n".join(body)))
                        out.words.extend("\n".join(body).split())
                        out.flags.add("literal")
                        out.flags.add("item-first-paragraph-wraps-then-literal")
                        self.last = "para"
                        for sub in item[1:]:
                            self.block(sub, cind, out, lines)
                        continue
                lines.extend(self.wrap(first[1], " " * li + bullet, " " * cind, out.words))
                if not self.ep or len(item) > 1:
                    lines.append("")
                for sub in item[1:]:
                    self.block(sub, cind, out, lines)
            if lines and lines[-1] != "":
                lines.append("")
            out.flags.add("list")
        elif t == "literal":
            intro = list(b[1])
            w: List[str] = []
            src_lines = self.wrap(intro[:-1] + [("w", "shown")], pad, pad, w, suffix="::")
            out.words.extend(w[:-1] + ["shown:"])
            lines.extend(src_lines)
            lines.append("")
            body = [l.rstrip() if not self.ep else l for l in b[2]]
            for l in body:
                lines.append((" " * (ind + 4) + l) if l else "")
            lines.append("")
            text = "\n".join(body)
            out.blocks.append(("literal", text))
            out.words.extend(text.split())
            out.flags.add("literal")
            if self.ep and any(l != l.rstrip() for l in body):
                out.flags.add("literal-trailing-ws")
        elif t == "doctest":
            exs, tw = b[1], b[2]
            body = []
            for i, (src, want) in enumerate(exs):
                body.append(">>> " + src[0])
                for c in src[1:]:
                    body.append("... " + c)
                for j, wl in enumerate(want):
                    if self.ep and ((tw == "last" and i == len(exs) - 1 and j == len(want) - 1) or (tw == "mid" and i == 0 and j == 0)):
                        wl = wl + "  "
                        out.flags.add("doctest-want-trailing-ws:" + tw)
                    body.append(wl)
            for l in body:
                lines.append(pad + l)
            lines.append("")
            text = "\n".join(body)
            out.blocks.append(("doctest", text))
            out.words.extend(text.split())
            out.flags.add("doctest")
        elif t == "code":
            if self.ep:
                return self.block(("literal", [("w", "Code")], b[1]), ind, out, lines)
            body = [l.rstrip() for l in b[1]]
            lines.append(pad + ".. python::")
            lines.append("")
            for l in body:
                lines.append((" " * (ind + 4) + l) if l else "")
            lines.append("")
            text = "\n".join(body)
            out.blocks.append(("code", text))
            out.words.extend(text.split())
            out.flags.add("code")
        elif t == "section":
            if nap:
                for sub in b[2]:
                    self.block(sub, ind, out, lines)
                return
            w2: List[str] = []
            title = self.wrap(b[1], pad, pad, w2, width=200)
            out.words.extend(w2)
            lines.append(title[0])
            ulen = len(title[0].strip())
            if not self.ep:
                from docutils.utils import column_width
                ulen = column_width(title[0].strip())       # reST measures the underline in display columns
            level = b[3] if len(b) > 3 else 0
            lines.append(pad + "=-~"[level] * ulen)
            out.flags.add("section-level-%d" % level)
            lines.append("")
            for sub in b[2]:
                self.block(sub, ind, out, lines)
            out.flags.add("section")
        else:
            raise AssertionError(b)

    # ---- fields
    TAGS = {"return": "return", "yield": "yield", "raise": "raise", "warn": "warn", "see": "see", "custom": "customfield"}
    CONSOLIDATED = {"param": "Parameters", "keyword": "Keywords", "raise": "Exceptions", "ivar": "IVariables",
                    "cvar": "CVariables", "var": "Variables"}

    def fields(self, fields, owner: str, lines: List[str]) -> List[Dict[str, Any]]:
        exp: List[Dict[str, Any]] = []
        if self.fmt == "plaintext" or not (fields or (self.var_type and self.fmt in ("epytext", "restructuredtext"))):
            return exp
        if self.fmt in ("epytext", "restructuredtext"):
            def mk(tag, arg):
                head = tag + (" " + arg if arg else "")
                return ("@%s: " % head) if self.ep else (":%s: " % head)
            entries: List[List[str]] = []
            consolidated: Dict[str, List[Any]] = {}
            if self.var_type:
                entries.append([mk("type", None) + self.var_type])
            for f in fields:
                tag = self.TAGS.get(f["kind"], f["kind"])
                if f["kind"] == "return" and self.return_tag:
                    tag = self.return_tag
                w: List[str] = []
                body = ([("w", f["lead"])] if (f.get("lead") and not f.get("literal")) else []) + list(f["body"])
                if not self.ep and body and body[0][0] == "w" and body[0][1].startswith(":"):
                    # reST: `:-) … x:` at the start of a field body would itself be a field marker
                    body = [body[0]] + [n if ":" not in self.inl(n)[0] else ("w", self.plain(n)) for n in body[1:]]
                cons = self.consolidated if (not self.ep and f["kind"] in self.CONSOLIDATED and not f.get("literal")) else None
                if cons:
                    # one entry of a consolidated field, written below
                    consolidated.setdefault(self.CONSOLIDATED[f["kind"]], []).append((f["arg"], body, w, f.get("more") if body else None))
                    desc = []
                elif not body:
                    desc = [mk(tag, f["arg"]).rstrip()]
                elif f.get("literal"):
                    half = max(1, len(body) // 2)
                    desc = self.wrap(body[:half], mk(tag, f["arg"]), "    ", w, width=300)
                    w2: List[str] = []
                    desc += self.wrap([("w", "then")] + body[half:] + [("w", "shown")], "    ", "    ", w2, width=300, suffix="::")
                    w.extend(w2[:-1] + ["shown:"])
                    lit = [l.rstrip() if not self.ep else l for l in f["literal"]]
                    desc += [""] + [(" " * 8 + l) if l else "" for l in lit] + [""]
                    w.extend("\n".join(lit).split())
                    desc += self.wrap(f["after"], "    ", "    ", w) + [""]
                    self.flags.add("field-first-paragraph-wraps-then-literal")
                else:
                    desc = self.wrap(body, mk(tag, f["arg"]), "    ", w)
                if f.get("lead") and not f.get("literal"):
                    self.flags.add("field-description-starts-with-punctuation")
                e = dict(kind=f["kind"], tag=tag, arg=f["arg"], words=w, type=None)
                if f["type"]:
                    ttag = {"return": "rtype", "yield": "ytype"}.get(f["kind"], "type")
                    tline = [mk(ttag, f["arg"] if ttag == "type" else None) + f["type"]]
                    e["type"] = f["type"]
                    e["type_first"] = bool(f.get("type_first"))
                    entries.extend([tline, desc] if f.get("type_first") else [desc, tline])
                else:
                    entries.append(desc)
                exp.append(e)
            def more_blocks(more, pad, w, block):
                # the further blocks of one entry's description, each after a blank line, indented like its first paragraph
                for mb in more:
                    block.append("")
                    if mb[0] == "para":
                        block.extend(self.wrap(mb[1], pad, pad, w))
                    elif mb[0] == "list":
                        for it in mb[1]:
                            block.extend(self.wrap(it, pad + "- ", pad + "  ", w))
                    else:
                        w2: List[str] = []
                        block.extend(self.wrap(list(mb[1]) + [("w", "shown")], pad, pad, w2, width=300, suffix="::"))
                        w.extend(w2[:-1] + ["shown:"])
                        block.append("")
                        block.extend([(pad + "    " + l.rstrip()) if l.strip() else "" for l in mb[2]])
                        w.extend("\n".join(mb[2]).split())
                    self.flags.add("consolidated-entry-block:" + mb[0])
                block.append("")
            for name, items in consolidated.items():
                block = [":%s:" % name]
                for arg, body, w, more in items:
                    if self.consolidated == "deflist" and name not in ("Exceptions",) and all(b for _, b, _, _ in items):
                        block.append("    `%s`" % arg)
                        block.extend(self.wrap(body, "        ", "        ", w))
                        if more:
                            more_blocks(more, "        ", w, block)
                    else:
                        sep = ": " if self.consolidated != "bullet-" else " - "
                        if body:
                            block.extend(self.wrap(body, "    - `%s`%s" % (arg, sep), "      ", w))
                            if more:
                                more_blocks(more, "      ", w, block)
                        else:
                            block.append("    - `%s`" % arg)
                entries.append(block)
                self.flags.add("consolidated-field:" + str(self.consolidated))
            entries = [en for en in entries if en]
            if self.field_perm is not None:
                import random as _random
                _random.Random(self.field_perm).shuffle(entries)    # the author chooses the order of the fields
            for en in entries:
                lines.extend(en)
            return exp
        # google / numpy: fields are grouped into sections
        groups = [("param", "Args", "Parameters"), ("keyword", "Keyword Args", "Other Parameters"), ("return", "Returns", "Returns"),
                  ("yield", "Yields", "Yields"), ("raise", "Raises", "Raises"), ("warn", "Warns", "Warns"),
                  ("ivar", "Attributes", "Attributes"), ("cvar", "Attributes", "Attributes"), ("var", "Attributes", "Attributes"),
                  ("note", "Note", "Notes"), ("todo", "Todo", "Todo"), ("see", "See Also", "See Also")]
        done = set()
        g = self.fmt == "google"
        for kind, gname, nname in groups:
            name = gname if g else nname
            if name in done:
                continue
            kinds = [k for k, a, b2 in groups if (a if g else b2) == name]
            fs = [f for f in fields if f["kind"] in kinds]
            if not fs:
                continue
            done.add(name)
            if kind in ("note", "todo", "return", "yield", "see"):
                fs = fs[:1]
            lines.append(name + ":" if g else name)
            if not g:
                lines.append("-" * len(name))
            for f in fs:
                w = []
                e = dict(kind=f["kind"], tag=f["kind"], arg=f["arg"], words=w, type=f["type"], section=name)
                if f.get("lead") and f["body"] and ":" not in f["lead"]:
                    f = dict(f, body=[("w", f["lead"])] + list(f["body"]))
                    self.flags.add("field-description-starts-with-punctuation")
                if not f["body"]:
                    # a keyword with a type and no description
                    lines.append(("    %s (%s):" % (f["arg"], f["type"])) if g else ("%s : %s" % (f["arg"], f["type"])))
                    exp.append(e)
                    continue
                if kind == "see" and not g:
                    # numpydoc See Also: a comma separated list of names, then an indented description shared by them
                    lines.append("m.f, m.K")
                    w.extend(["m.f", "m.K"])
                    lines.extend(self.wrap(f["body"], "    ", "    ", w, no_colon=True))
                    self.flags.add("numpy-see-also-names-and-description")
                elif kind in ("note", "todo", "see"):
                    lines.extend(self.wrap(f["body"], "    " if g else "", "    " if g else "", w, no_colon=True))
                elif kind in ("return", "yield"):
                    if g:
                        lines.extend(self.wrap(f["body"], "    " + (f["type"] + ": " if f["type"] else ""), "        ", w, no_colon=True))
                    elif f.get("freeform"):
                        # free-form text (no "type" line); one word of it ends with a colon
                        body = [n if ":" not in self.inl(n)[0] else ("w", self.plain(n)) for n in f["body"]]
                        # (words follow `dingonumber`: "text: word" alone would be numpy's own "name : type" syntax)
                        body = body[:1] + [("w", "wallabyvalue:"), ("w", "dingonumber")] + body[1:] + [("w", "that"), ("w", "was"), ("w", "computed")]
                        lines.extend(self.wrap(body, "", "", w, width=300))
                        e["type"] = None
                        e["freeform_line"] = True
                        self.flags.add("numpy-free-form-returns-with-colon")
                    else:
                        lines.append(f["type"] or "object")
                        e["type"] = f["type"] or "object"
                        lines.extend(self.wrap(f["body"], "    ", "    ", w, no_colon=True))
                elif f.get("literal") and kind in ("param", "keyword", "raise"):
                    # the description starts on the `name:` line (google) / below the name (numpy), ends with `::`, a literal
                    # block indented DEEPER than the continuation lines follows, then prose back at the continuation indent
                    lit = [l.rstrip() for l in f["literal"]]
                    if g:
                        head = "    " + f["arg"] + (" (%s)" % f["type"] if f["type"] else "") + ": "
                        ci = "        "
                        w2: List[str] = []
                        lines.extend(self.wrap(list(f["body"]) + [("w", "shown")], head, ci, w2, width=300, suffix="::", no_colon=True))
                    else:
                        lines.append(f["arg"] if kind == "raise" else f["arg"] + (" : " + f["type"] if f["type"] else ""))
                        ci = "    "
                        w2 = []
                        lines.extend(self.wrap(list(f["body"]) + [("w", "shown")], ci, ci, w2, width=300, suffix="::", no_colon=True))
                    w.extend(w2[:-1] + ["shown:"])
                    lines.append("")
                    lines.extend((ci + "    " + l) if l else "" for l in lit)
                    lines.append("")
                    w.extend("\n".join(lit).split())
                    lines.extend(self.wrap([("w", "Larger")] + list(f["after"]), ci, ci, w, no_colon=True))
                    lines.append("")
                    self.flags.add("napoleon-field-literal-then-prose")
                else:
                    if g and f.get("aligned") and len(f["body"]) >= 2:
                        # second line aligned under the text of the first (deeper), later lines at the regular indent
                        head = "    " + f["arg"] + (" (%s)" % f["type"] if f["type"] else "") + ": "
                        lines.extend(self.wrap(f["body"][:1], head, "", w, width=300, no_colon=True))
                        lines.extend(self.wrap([("w", "aligned")] + list(f["body"][1:]), " " * len(head), "", w, width=300, no_colon=True))
                        lines.extend(self.wrap(W("Larger", "values", "are", "slower"), "        ", "        ", w, no_colon=True))
                        self.flags.add("google-field-aligned-second-line")
                    elif g:
                        head = "    " + f["arg"] + (" (%s)" % f["type"] if f["type"] else "") + ": "
                        lines.extend(self.wrap(f["body"], head, "        ", w, no_colon=True))
                    else:
                        if kind in ("raise", "warn"):
                            lines.append(f["arg"])
                            e["type"] = None
                        else:
                            lines.append(f["arg"] + (" : " + f["type"] if f["type"] else ""))
                        lines.extend(self.wrap(f["body"], "    ", "    ", w, no_colon=True))
                if kind in ("raise", "warn"):
                    e["type"] = None
                exp.append(e)
            lines.append("")
        return exp

    def document(self, doc) -> Dict[str, Any]:
        out = Out()
        lines: List[str] = []
        if self.fmt == "plaintext":
            # any text: chunks with arbitrary characters, kept exactly
            flat: List[Any] = []
            def _flatten(bs):
                for b in bs:
                    if b[0] == "section":       # plain text has no sections: the title is a line of text, the content follows
                        flat.append(("para", b[1]))
                        _flatten(b[2])
                    else:
                        flat.append(b)
            _flatten(doc["body"])
            for n, b in enumerate(flat):
                w: List[str] = []
                if b[0] == "para":
                    lines.extend(self.wrap(b[1], "", "  " if n % 3 == 0 else "", w, width=40))
                    lines.append("")
                elif b[0] == "hard":
                    lines.extend(b[1])
                    lines.append("")
                elif b[0] in ("literal", "code"):
                    lines.extend(("    " + l) if l else "" for l in b[2 if b[0] == "literal" else 1])
                    lines.append("")
            while lines and lines[-1] == "":
                lines.pop()
            return {"docstring": "\n".join(lines), "out": out, "fields": []}
        self.attr_owner = doc["owner"] in ("property", "variable")
        for b in doc["body"]:
            self.block(b, 0, out, lines)
        self.field_perm = doc.get("field_perm")
        self.consolidated = doc.get("consolidated") if self.fmt == "restructuredtext" else None
        self.var_type = doc.get("var_type") if self.fmt in ("epytext", "restructuredtext") else None
        self.return_tag = doc.get("return_tag")
        fexp = self.fields(doc["fields"], doc["owner"], lines)
        while lines and lines[-1] == "":
            lines.pop()
        out.flags |= self.flags
        return {"docstring": "\n".join(lines), "out": out, "fields": fexp, "var_type": self.var_type}


def module_source(owner: str, docstring: str, var_level: str = "module", inherit: bool = False) -> Tuple[str, str]:
    """python source of module `m` carrying the docstring on the chosen owner; returns (source, owner full name).
    `inherit`: the docstring is written on a base class member; the object rendered is the override without docstring"""
    def lit(ind):
        body = "\n".join((" " * ind + l) if l else "" for l in docstring.split("\n"))
        assert '"""' not in docstring
        esc = body.replace("\\", "\\\\")
        return " " * ind + '"""\n' + esc + "\n" + " " * ind + '"""\n'
    other = "def f(a, b=1, *args, **kw):\n    pass\nclass K:\n    def __init__(self, a, b=2):\n        pass\n    def meth(self):\n        pass\nx = 1\n"
    if owner == "module":
        return lit(0) + other, "m"
    if inherit and owner == "property":
        return other + "class BP:\n    @property\n    def prop(self):\n" + lit(8) + "        return 1\n" + \
            "class SP(BP):\n    @property\n    def prop(self):\n        return 2\n", "m.SP.prop"
    if inherit and owner == "function":
        return "class K:\n    def __init__(self, a, b=2):\n        pass\n    def meth(self):\n        pass\nx = 1\n" + \
            "class BF:\n    def f(self, a, b=1, *args, **kw):\n" + lit(8) + "        pass\n" + \
            "class SF(BF):\n    def f(self, a, b=1, *args, **kw):\n        pass\n", "m.SF.f"
    if inherit and owner == "variable":
        return other + "class BV:\n    vv = 1\n" + lit(4) + "class SV(BV):\n    vv = 2\n", "m.SV.vv"
    if owner == "property":
        return other + "class P:\n    @property\n    def prop(self):\n" + lit(8) + "        return 1\n", "m.P.prop"
    if owner == "variable":
        if var_level == "module":
            return other + "vv = 1\n" + lit(0), "m.vv"
        if var_level == "class":
            return other + "class V:\n    vv = 1\n" + lit(4), "m.V.vv"
        return other + "class V:\n    def __init__(self):\n        self.vv = 1\n" + lit(8), "m.V.vv"
    if owner == "function":
        return "class K:\n    def __init__(self, a, b=2):\n        pass\n    def meth(self):\n        pass\nx = 1\ndef f(a, b=1, *args, **kw):\n" + lit(4) + "    pass\n", "m.f"
    return "def f(a, b=1, *args, **kw):\n    pass\nx = 1\nclass K:\n" + lit(4) + "    def __init__(self, a, b=2):\n        pass\n    def meth(self):\n        pass\n", "m.K"


# ====================================================================== documents: rendering and the direct oracle

class Node:
    __slots__ = ("tag", "attrs", "kids")

    def __init__(self, tag, attrs):
        self.tag, self.attrs, self.kids = tag, attrs, []

    def cls(self) -> str:
        return self.attrs.get("class") or ""


class _Dom(html.parser.HTMLParser):
    VOID = {"br", "wbr", "hr", "img"}

    def __init__(self):
        super().__init__(convert_charrefs=True)
        self.root = Node("#root", {})
        self.stack = [self.root]

    def handle_starttag(self, tag, attrs):
        n = Node(tag, dict(attrs))
        self.stack[-1].kids.append(n)
        if tag not in self.VOID:
            self.stack.append(n)

    def handle_startendtag(self, tag, attrs):
        self.stack[-1].kids.append(Node(tag, dict(attrs)))

    def handle_endtag(self, tag):
        for i in range(len(self.stack) - 1, 0, -1):
            if self.stack[i].tag == tag:
                del self.stack[i:]
                break

    def handle_data(self, data):
        self.stack[-1].kids.append(data)


BLOCKISH = {"p", "li", "tr", "td", "div", "h1", "h2", "h3", "h4", "h5", "h6", "dt", "dd", "pre", "ul", "ol", "table", "blockquote", "dl"}


def dom(h: str) -> Node:
    p = _Dom()
    p.feed(h)
    p.close()
    return p.root


def text_of(n, skip=lambda n: False, sep: bool = True) -> str:
    if isinstance(n, str):
        return n
    if skip(n):
        return " "
    inner = "".join(text_of(k, skip, sep) for k in n.kids)
    return (" " + inner + " ") if (sep and n.tag in BLOCKISH) else inner


def find_all(n, pred, out=None, stop=lambda n: False):
    out = [] if out is None else out
    if isinstance(n, str):
        return out
    if pred(n):
        out.append(n)
    if not stop(n):
        for k in n.kids:
            find_all(k, pred, out, stop)
    return out


def norm_pre(text: str, dedent: bool) -> str:
    """the text of a <pre> as a reader sees it: HTML drops a newline directly after <pre>; trailing newlines
    show nothing.  `dedent`: remove the indentation common to all non-blank lines (epytext literal blocks keep
    their indentation relative to the paragraph)."""
    t = text.strip("\n")
    if dedent:
        ls = t.split("\n")
        m = min((len(l) - len(l.lstrip(" ")) for l in ls if l.strip(" ")), default=0)
        t = "\n".join(l[m:] if l.strip(" ") else l for l in ls)
    return t


def render_doc(src: str, fmt: str, full: str) -> Dict[str, Any]:
    """build a real System from the source, render the owner's docstring (and its attributes') with the real code"""
    from pydoctor import model, epydoc2stan
    from pydoctor.stanutils import flatten
    buf = io.StringIO()
    res: Dict[str, Any] = {"attrs": {}}
    with contextlib.redirect_stdout(buf):
        system = model.System()
        system.options.verbosity = 0      # as the command line without -v/-q: only warnings (thresh <= 0) are printed
        system.options.docformat = fmt
        b = system.systemBuilder(system)
        b.addModuleString(src, modname="m")
        b.buildModules()
        obj = system.allobjects[full]
        res["docstring"] = obj.docstring
        res["own_type"] = None
        if isinstance(obj, model.Attribute):
            t0 = epydoc2stan.type2stan(obj)          # attributechild.html renders the type, then the docstring
            res["own_type"] = flatten(t0) if t0 is not None else None
        res["html"] = flatten(epydoc2stan.format_docstring(obj))
        res["to_stan_error"] = None
        if obj.parsed_docstring is not None:
            try:        # why a fallback happened, asked from the code itself (reportErrors prints only the first problem of an object)
                flatten(obj.parsed_docstring.to_stan(obj.docstring_linker))
            except Exception as e:
                res["to_stan_error"] = "%s: %s" % (type(e).__name__, e)
        for name, sub in getattr(obj, "contents", {}).items():
            if name in ("meth", "f", "K") and full in ("m", "m.K"):
                res["attrs"][name] = {"visible": bool(sub.isVisible), "kind": str(sub.kind),
                                      "html": flatten(epydoc2stan.format_docstring(sub)), "type": None}
            if isinstance(sub, model.Attribute) and name in ("zz", "yy", "ww", "a", "b"):
                t = epydoc2stan.type2stan(sub)
                res["attrs"][name] = {"visible": bool(sub.isVisible), "kind": str(sub.kind),
                                      "html": flatten(epydoc2stan.format_docstring(sub)),
                                      "type": flatten(t) if t is not None else None}
    res["reports"] = [l for l in buf.getvalue().split("\n") if l.strip()]
    return res


HEADINGS = {"param": ["Parameters"], "keyword": ["Parameters"], "return": ["Returns"], "yield": ["Yields"], "raise": ["Raises"],
            "warn": ["Warns"], "note": ["Note", "Notes"], "see": ["See Also"], "since": ["Present Since"],
            "author": ["Author", "Authors"], "todo": ["Unknown Field: todo"], "custom": ["Unknown Field: customfield"]}
ADMONITIONS = {"note": ["Note", "Notes"], "todo": ["Todo"], "see": ["See Also"]}


def field_table(root: Node) -> Dict[str, List[List[str]]]:
    """heading -> rows (each row = list of cell texts) of the table FieldHandler.format() produces"""
    res: Dict[str, List[List[str]]] = {}
    for table in find_all(root, lambda n: n.tag == "table" and "fieldTable" in n.cls()):
        cur = None
        for tr in find_all(table, lambda n: n.tag == "tr"):
            cells = [" ".join(text_of(td).split()) for td in tr.kids if not isinstance(td, str) and td.tag == "td"]
            if "fieldStart" in tr.cls():
                cur = cells[0] if cells else ""
                res.setdefault(cur, [])
            elif cur is not None:
                res[cur].append(cells)
    return res


def in_admonition(kind, words, adm) -> bool:
    strip = (lambda ws: [w.strip(",") for w in ws if w.strip(",")]) if kind == "see" else (lambda ws: ws)
    return any(strip(ws) == strip(words) for t in ADMONITIONS.get(kind, []) for ws in adm.get(t, []))


class _Relabel:
    """google / numpy docstrings containing U+2028 / U+0085: napoleon splits its input with str.splitlines(), which cuts the field or
    list item in two at these characters; whatever goes wrong in such a document is that one finding"""

    def __init__(self, ctx):
        self._ctx = ctx

    def __getattr__(self, name):
        return getattr(self._ctx, name)

    def fail(self, signature, input, what):
        if signature.startswith("html2stan:nbsp-entity"):
            return self._ctx.fail(signature, input, what)
        return self._ctx.fail("napoleon:unicode-line-boundary-cuts-docstring-structure", input,
                              "google/numpy docstring containing U+2028 or U+0085 (line ends for str.splitlines(), not for Python): " + what)


def oracle_document(ctx: Ctx, fmt: str, doc, ser, full: str, src: str, r) -> None:
    if fmt in ("google", "numpy") and re.search("[\u2028\x85]", ser["docstring"]):
        ctx = _Relabel(ctx)
    inp = {"docformat": fmt, "owner": full, "source": src}
    out: Out = ser["out"]
    root = dom(r["html"])
    if fmt == "plaintext":
        shown = text_of(root, sep=False)
        import ast
        want = inspect.cleandoc(next(n.value.value for n in ast.walk(ast.parse(src))
                                     if isinstance(n, ast.Expr) and isinstance(n.value, ast.Constant) and isinstance(n.value.value, str)))
        if shown != want:
            ctx.fail("plaintext:not-reproduced-exactly", {**inp, "shown": shown}, "plaintext docstring is not reproduced exactly")
        return
    fallback = find_all(root, lambda n: n.tag == "p" and n.cls() == "pre")
    bad = [l for l in r["reports"] if "bad docstring" in l]
    if fallback:      # (a non-fatal "bad docstring" warning alone, e.g. docutils' INFO about two equal section titles, loses nothing)
        why = (r.get("to_stan_error") or (bad[0].split("bad docstring:")[-1].strip() if bad else "?"))[:80]
        code_spaces = re.search(r"C\{[^{}]*  [^{}]*\}|``[^`]*  [^`]*``|\u00a0", ser["docstring"])
        if code_spaces and "undefined entity" in why:
            sig = "html2stan:nbsp-entity:docstring-falls-back-to-plaintext"
        else:
            sig = "wellformed-docstring-rejected:" + fmt + ":" + re.sub(r"[^A-Za-z ]", "", why.split("\n")[0])[:40].strip().replace(" ", "-")
        ctx.fail(sig, {**inp, "reports": r["reports"][:4]}, f"{fmt}: a well-formed docstring is reported as bad and shown as plain text: {why}")
        return
    is_field = lambda n: (n.tag == "table" and "fieldTable" in n.cls()) or (n.tag == "div" and "admonition" in n.cls())
    # 1. the description: same words, same order
    shown_words = text_of(root, skip=is_field).split()
    if shown_words != out.words:
        i = next((k for k, (a, b) in enumerate(zip(shown_words, out.words)) if a != b), min(len(shown_words), len(out.words)))
        kind = "lost" if len(shown_words) < len(out.words) else ("added" if len(shown_words) > len(out.words) else "altered")
        sig = f"description:words-{kind}:{fmt}"
        if fmt == "restructuredtext" and doc["body"][0][0] == "section" and kind == "lost" and \
                any(out.words[n:] == shown_words for n in range(1, 8)):
            sig = "rst:lone-section-title-dropped"      # the docstring starts with a section title: docutils makes it the document title
        ctx.fail(sig, {**inp, "at": i, "shown": shown_words[max(0, i - 3):i + 4], "intended": out.words[max(0, i - 3):i + 4]},
                 f"{fmt}: description words differ at word {i}: shown {shown_words[max(0, i - 2):i + 3]} intended {out.words[max(0, i - 2):i + 3]}")
    # 2. blocks, character for character
    pres = find_all(root, lambda n: n.tag == "pre", stop=is_field)
    got = [norm_pre(text_of(p, sep=False), dedent=(fmt == "epytext" and "literal" in p.cls())) for p in pres]
    if len(got) != len(out.blocks):
        ctx.fail(f"blocks:count:{fmt}", {**inp, "shown": got, "intended": out.blocks}, f"{fmt}: {len(out.blocks)} blocks written, {len(got)} shown")
    else:
        for (kind, want), g in zip(out.blocks, got):
            if g != want:
                same_but_ws = [l.rstrip() for l in g.split("\n")] == [l.rstrip() for l in want.split("\n")]
                if kind == "doctest" and same_but_ws and any(fl.startswith("doctest-want-trailing-ws") for fl in out.flags):
                    sig = "doctest:want-trailing-whitespace-dropped"
                elif same_but_ws:
                    sig = f"block:{kind}:trailing-whitespace:{fmt}"
                else:
                    sig = f"block:{kind}:text-changed:{fmt}"
                ctx.fail(sig, {**inp, "shown": g, "intended": want}, f"{fmt}: {kind} block is not reproduced character for character")
    # 3. fields
    table = field_table(root)
    adm: Dict[str, List[List[str]]] = {}
    for d in find_all(root, lambda n: n.tag == "div" and "admonition" in n.cls()):
        title = find_all(d, lambda n: n.tag == "p" and "admonition-title" in n.cls())
        t = " ".join(text_of(title[0]).split()) if title else ""
        adm.setdefault(t, []).append(text_of(d, skip=lambda n: n in title).split())
    owner_kind = doc["owner"]
    if ser.get("var_type"):
        shown_t = text_of(dom(r["own_type"])).split() if r.get("own_type") else []
        ctx.count("field:type:variable:%s" % ("shown" if shown_t == [ser["var_type"]] else "DROPPED"))
        if shown_t != [ser["var_type"]] and not any(re.search(r"\btype\b", l) for l in r["reports"]):
            ctx.fail("field:type-in-variable-docstring-not-shown", {**inp, "field": ["type", None, ser["var_type"]], "shown_type": r.get("own_type")},
                     f"{fmt}: `type` field in the {doc.get('var_level')}-level variable's own docstring: the type is not shown where the page shows it and nothing is reported")
    for f in ser["fields"]:
        k, arg, words = f["kind"], f["arg"], f["words"]
        where = None
        if k in ("ivar", "cvar", "var"):
            a = r["attrs"].get(arg)
            if a and a["visible"] and text_of(dom(a["html"])).split() != words and "Undocumented" not in a["html"]:
                ctx.fail(f"field:text-altered:var:{fmt}", {**inp, "field": [k, arg, words], "shown": text_of(dom(a["html"])).split()},
                         f"{fmt}: the documentation of variable {arg} does not show the field's own words")
                ctx.count("field:%s:%s:ALTERED" % (k, owner_kind))
                continue
            if a and a["visible"] and text_of(dom(a["html"])).split() == words:
                where = "attribute"
                if f["type"] and arg not in ("meth", "f", "K") and (a["type"] is None or text_of(dom(a["type"])).split() != [f["type"]]):
                    ctx.fail(f"field:type-of-variable-not-shown:{fmt}", {**inp, "field": [k, arg]}, "type of a documented variable is not shown")
        else:
            altered = None
            for h in HEADINGS.get(k, []):
                for row in table.get(h, []):
                    desc = row[-1].split()
                    name = row[0] if len(row) > 1 else ""
                    if arg and not (name.split(":")[0].lstrip("*") == arg or name == arg):
                        continue
                    if desc != words:
                        altered = (h, desc)
                        continue
                    where = "table:" + h
                    if f["type"] and k in ("param", "return", "yield", "keyword"):
                        shown_type = name.split(":", 1)[1].strip() if (arg and ":" in name) else ("" if arg else name)
                        if owner_kind == "property" and k == "return" and shown_type != f["type"]:
                            # the property's type (`rtype` of the getter) is shown as the type of the attribute
                            shown_type = " ".join(text_of(dom(r["own_type"])).split()) if r.get("own_type") else ""
                        if shown_type != f["type"]:
                            if owner_kind == "class" and k == "param":
                                ctx.fail("field:type-of-constructor-parameter-in-class-docstring-hidden",
                                         {**inp, "field": [k, arg, f["type"]], "attr": r["attrs"].get(arg)},
                                         f"{fmt}: the type given for constructor parameter '{arg}' in the class docstring is shown nowhere and not reported")
                            elif arg and any(g is not f and g["kind"] == k and g["arg"] == arg and g.get("type") for g in ser["fields"]) and \
                                    any("was already given" in l for l in r["reports"]):
                                pass        # two `type` fields for one name: the replaced one is reported (08a4c10)
                            elif arg and any(g is not f and g["kind"] == k and g["arg"] == arg and g.get("type") for g in ser["fields"]):
                                # the same name documented twice, each time with a type: two `type` fields for one name, the last wins
                                ctx.fail("field:duplicate-field-first-text-silently-dropped", {**inp, "field": [k, arg, f["type"]], "cell": name},
                                         f"{fmt}: two type fields for '{arg}': only the last one is shown, no report")
                            else:
                                ctx.fail(f"field:type-not-shown:{k}:{fmt}", {**inp, "field": [k, arg, f["type"]], "cell": name}, "the field's type is not shown in its entry")
                    break
                if where:
                    break
            twins = [g for g in ser["fields"] if g is not f and g["kind"] == k and g["arg"] == arg and arg]
            if where is None and altered is not None and any(g["words"] == altered[1] for g in twins):
                altered = None          # the row is the other field of the same name: this one is not displayed at all
            if where is None and altered is not None and not in_admonition(k, words, adm):
                merged = fmt == "numpy" and "wallabyvaluedingonumber" in altered[1] and "wallabyvalue:" in words
                if fmt == "numpy" and f.get("freeform_line") and [w.strip("*") for w in altered[1]] == words and altered[1] != words:
                    # `_escape_args_and_kwargs` is applied to the whole free-form line: a `*` that follows ", " is escaped
                    ctx.fail("numpy:free-form-returns-emphasis-after-comma-shown-raw", {**inp, "field": [k, arg, words], "shown": altered[1]},
                             "numpy: inline emphasis that follows ', ' in a free-form Returns/Yields line is shown with its asterisks")
                    ctx.count("field:%s:%s:ALTERED" % (k, owner_kind))
                    continue
                ctx.fail("numpy:free-form-returns-colon-merges-words" if merged else f"field:text-altered:{k}:{fmt}", {**inp, "field": [k, arg, words], "shown": altered[1]},
                         f"{fmt}: the entry of field {f['tag']} {arg or ''} under '{altered[0]}' does not show the field's own words")
                ctx.count("field:%s:%s:ALTERED" % (k, owner_kind))
                continue
            if where is None and in_admonition(k, words, adm):
                where = "admonition"
        if where is None:
            tagre = r"\b[ic]?var\b" if k in ("ivar", "cvar", "var") else r"\b%s\b" % re.escape(f["tag"])
            rep = [l for l in r["reports"] if (arg and re.search(r"\b%s\b" % re.escape(arg), l)) or re.search(tagre, l)]
            if rep:
                where = "reported"
        ctx.count("field:%s:%s:%s" % (k, owner_kind, (where or "DROPPED").split(":")[0]))
        if where is None and k in ("ivar", "cvar", "var") and arg in ("meth", "f", "K"):
            ctx.fail("field:var-naming-method-property-or-class-silently-dropped", {**inp, "field": [k, arg, words], "reports": r["reports"][:5]},
                     f"{fmt}: field {f['tag']} {arg} documents a name that the {owner_kind} body defines as a method / function / class: "
                     "its text is shown nowhere and nothing is reported")
        elif where is None and arg and any(g is not f and g["kind"] == k and g["arg"] == arg for g in ser["fields"]):
            ctx.fail(f"field:duplicate-{k}-first-text-silently-dropped", {**inp, "field": [k, arg, words], "reports": r["reports"][:5]},
                     f"{fmt}: {k} {arg} is documented twice; the text of one of the two fields is shown nowhere and no duplicate is reported")
        elif where is None and k == "see" and fmt == "numpy":
            ctx.fail("numpy:see-also-description-dropped", {**inp, "field": [k, arg, words], "see-also": adm.get("See Also"), "reports": r["reports"][:5]},
                     "numpy: the description under a comma separated name list of a See Also section is shown nowhere and nothing is reported")
        elif where is None:
            kk = "var" if k in ("ivar", "cvar", "var") else k
            ctx.fail(f"field:{kk}-in-{owner_kind}-silently-dropped", {**inp, "field": [k, arg, words], "reports": r["reports"][:5]},
                     f"{fmt}: field {f['tag']} {arg or ''} of a {owner_kind} docstring is neither displayed under its entry nor reported")


# ====================================================================== field-handler table: probing the real handlers

PROBE = "probetext"
HEAD_NORM = {"Notes": "Note", "Authors": "Author"}


def probe_source(tag: str, kind: str, has_arg: bool, exists: bool, known: bool) -> Tuple[str, str, str]:
    """epytext docstring with one field `@tag [arg]: probetext` on an object of the given kind"""
    arg = ("a" if exists else "nope") if has_arg else ""
    field = "@%s%s: %s" % (tag, (" " + arg) if arg else "", PROBE)
    extra = ("\n@ivar %s: companion" % arg) if (known and arg) else ""
    doc = '"""\nDoc.\n\n%s%s\n"""\n' % (field, extra)
    ind = lambda t: "".join("    " + l + "\n" for l in t.splitlines())
    if kind == "module":
        return doc + "def f(a):\n    pass\n", "m", arg
    if kind == "class":
        return "class K:\n" + ind(doc) + "    def __init__(self, a):\n        pass\n", "m.K", arg
    if kind == "function":
        return "def f(a):\n" + ind(doc) + "    pass\n", "m.f", arg
    return "x = 1\n" + doc, "m.x", arg


def impl_field(tag: str, kind: str, has_arg: bool, exists: bool, known: bool) -> str:
    from pydoctor import model, epydoc2stan
    from pydoctor.stanutils import flatten
    src, full, arg = probe_source(tag, kind, has_arg, exists, known)
    buf = io.StringIO()
    with contextlib.redirect_stdout(buf):
        system = model.System()
        system.options.verbosity = 0      # as the command line without -v/-q: only warnings (thresh <= 0) are printed
        system.options.docformat = "epytext"
        b = system.systemBuilder(system)
        b.addModuleString(src, modname="m")
        b.buildModules()
        obj = system.allobjects[full]
        h = flatten(epydoc2stan.format_docstring(obj))
        heading = "-"
        for hd, rows in field_table(dom(h)).items():
            if any(PROBE in " ".join(r) for r in rows):
                heading = "Unknown_Field" if hd.startswith("Unknown Field") else HEAD_NORM.get(hd, hd).replace(" ", "_")
        attr = "0"
        holder = obj if kind == "attribute" else (obj.contents.get(arg) if arg and hasattr(obj, "contents") else None)
        if holder is not None and isinstance(holder, model.Attribute):
            texts = []
            if kind != "attribute" and holder.parsed_docstring is not None:
                texts.append(flatten(epydoc2stan.format_docstring(holder)))
            t = epydoc2stan.type2stan(holder)
            if t is not None:
                texts.append(flatten(t))
            if any(PROBE in t for t in texts):
                attr = "shown" if holder.kind is not None and holder.isVisible else "hidden"
    reported = any(l.strip() for l in buf.getvalue().split("\n") if "companion" not in l)
    return "heading=%s attr=%s reported=%d modelled=1" % (heading, attr, reported)


def stream_fields(ctx: Ctx) -> None:
    from .. import tables
    handlers = tables.field_handlers() + [("customfield", "handleUnknownField")]
    reqs, impls, pay = [], [], []
    for tag, fn in handlers:
        for kind in ("module", "class", "function", "attribute"):
            for has_arg in (False, True):
                for exists in (False, True):
                    for known in (False, True):
                        if (not has_arg and (exists or known)) or (known and kind not in ("module", "class")):
                            continue
                        if known and (exists or tag != "type"):
                            continue            # the companion `@ivar` field only makes sense next to `@type`
                        reqs.append("epytext field %s %s %s %d %d %d" % (tag, fn, kind, has_arg, exists, known))
                        out = impl_field(tag, kind, has_arg, exists, known)
                        impls.append(out)
                        pay.append({"tag": tag, "handler": fn, "kind": kind, "has_arg": has_arg, "param_exists": exists, "attr_known": known})
                        ctx.count("fields-table:" + ("kept" if ("heading=-" not in out or "attr=shown" in out or "reported=1" in out) else "DROPPED"))
    ctx.compare("FieldHandler/extract_fields~Fields.outcome", reqs, impls, pay)
    ctx.count("stream:fields-table", len(reqs))


# ====================================================================== heading recogniser of _tokenize_para

def impl_heading(l0: str, l1: Optional[str]) -> str:
    """the real `_tokenize_para` on a one- or two-line paragraph at indentation 0"""
    from pydoctor.epydoc.markup import epytext as E
    lines = [l0] + ([l1] if l1 is not None else [])
    toks: List[Any] = []
    errs: List[Any] = []
    try:
        E._tokenize_para(lines, 0, 0, toks, errs)
    except IndexError:
        return "IndexError"
    t = toks[-1]
    if t.tag == E.Token.HEADING:
        return "heading %d" % t.level
    if any("heading typo" in e._descr for e in errs):
        return "typo"
    return "para"


def stream_heading(ctx: Ctx) -> None:
    """every pair (first line, second line) with the second line over {=,-,~,a,' '} up to a length bound"""
    import itertools
    from pydoctor.epydoc.markup import epytext as E
    bound = 5 if ctx.quick else 6
    firsts = ["a" * n for n in range(1, bound + 7)] + ["a a", "==", "-a", "~~~", "a  "]
    seconds = ["".join(p) for n in range(1, bound + 1) for p in itertools.product("=-~a ", repeat=n)]
    reqs, impls, pay = [], [], []
    for l0 in firsts:
        for l1 in seconds:
            # what `_tokenize_para` puts in `contents`: the second line joins the paragraph unless it is blank,
            # indented differently or starts with a list bullet
            joins = bool(l1.strip()) and not l1.startswith(" ") and not E._BULLET_RE.match(l1, 0) and not l0.rstrip().endswith("::")
            reqs.append("epytext heading %s%s" % (enc(l0.strip()), (" " + enc(l1.strip())) if joins else ""))
            impls.append(impl_heading(l0, l1))
            pay.append({"heading-lines": [l0, l1]})
            out = impls[-1]
            uniform = len(set(l1.strip())) == 1 and l1.strip()[0] in "=-~"
            if out != "para" and not uniform:
                ctx.fail("epytext:text-line-taken-for-heading-underline", {"heading-lines": [l0, l1]},
                         "a line that is not a run of one heading character is treated as a heading underline (%s)" % out)
    ctx.compare("_tokenize_para(heading)~Epytext.headingOf", reqs, impls, pay)
    ctx.count("stream:heading-pairs", len(reqs))
    ctx.exhaustive = True


# ====================================================================== paired fields in every order

PAIRS = [("return", "rtype", "Returns"), ("yield", "ytype", "Yields"), ("returns", "returntype", "Returns"), ("yields", "yieldtype", "Yields")]


def impl_pair(desc_tag: str, type_tag: str, heading: str, events: List[str], fmt: str) -> str:
    from pydoctor import model, epydoc2stan
    from pydoctor.stanutils import flatten
    mk = (lambda tag, text: "@%s: %s" % (tag, text)) if fmt == "epytext" else (lambda tag, text: ":%s: %s" % (tag, text))
    fields = "\n".join("    " + mk(desc_tag if e[0] == "d" else type_tag, "TEXT" + e[1:]) for e in events)
    src = 'def f(a):\n    """\n    Doc.\n\n%s\n    """\n' % fields
    buf = io.StringIO()
    with contextlib.redirect_stdout(buf):
        system = model.System()
        system.options.verbosity = 0      # as the command line without -v/-q: only warnings (thresh <= 0) are printed
        system.options.docformat = fmt
        b = system.systemBuilder(system)
        b.addModuleString(src, modname="m")
        b.buildModules()
        h = flatten(epydoc2stan.format_docstring(system.allobjects["m.f"]))
    rows = field_table(dom(h)).get(heading)
    if rows is None:
        return "absent dups=0"
    row = rows[0]
    body = row[-1]
    typ = row[0] if len(row) > 1 else ""
    num = lambda cell: (re.search(r"TEXT(\d+)", cell).group(1) if "TEXT" in cell else "-")
    dups = sum(1 for l in buf.getvalue().split("\n") if "was already given" in l)
    return "body=%s type=%s dups=%d" % (num(body), num(typ), dups)


def stream_pairs(ctx: Ctx) -> None:
    import itertools
    reqs, impls, pay = [], [], []
    for desc_tag, type_tag, heading in PAIRS:
        for fmt in ("epytext", "restructuredtext"):
            for n in range(0, 4):
                for kinds in itertools.product("dt", repeat=n):
                    events = ["%s%d" % (k, i + 1) for i, k in enumerate(kinds)]
                    out = impl_pair(desc_tag, type_tag, heading, events, fmt)
                    reqs.append(("epytext pair " + " ".join(events)).strip())
                    impls.append(out)
                    pay.append({"pair": [desc_tag, type_tag], "events": events, "docformat": fmt})
                    # direct oracle: one description and one type, either order: both texts under the entry
                    if sorted(kinds) == ["d", "t"]:
                        d = next(e[1:] for e in events if e[0] == "d")
                        t = next(e[1:] for e in events if e[0] == "t")
                        if out != "body=%s type=%s dups=0" % (d, t):
                            ctx.fail("field:paired-%s-text-lost-by-order" % desc_tag.rstrip("s"),
                                     {"pair": [desc_tag, type_tag], "events": events, "docformat": fmt, "shown": out},
                                     f"{fmt}: @{type_tag}/@{desc_tag} in the order {events}: the entry shows {out}")
    ctx.compare("return/yield handlers~Fields.runPair", reqs, impls, pay)
    ctx.count("stream:paired-field-orders", len(reqs))


# ====================================================================== literal block after the first paragraph of an item / field

ITEM_HEADS = ["- ", "1. ", "@note: ", "@param a: ", "2.1. "]
ITEM_TEXT = ["first line", "goes on", "ends here::", "x = 1", "  deeper", "text::", "- sub", "@see: y", "after", ">>> q"]


def gen_item_text(rng) -> Tuple[List[str], int]:
    b = rng.choice([0, 2, 4])
    head = rng.choice(ITEM_HEADS)
    lines = [" " * b + head + rng.choice(["first line", "first::", "", "intro text::"])]
    c = b + rng.choice([len(head), 2, 4, 0])
    for _ in range(rng.randint(0, 2)):            # continuation lines of the first paragraph
        lines.append(" " * c + rng.choice(["goes on", "ends here::", "more words", "- sub", "last::"]))
    if rng.random() < 0.8:
        lines.append(rng.choice(["", "", "   "]))
    for _ in range(rng.randint(0, 3)):            # what may become the literal block
        lines.append(rng.choice(["", " " * (c + rng.choice([0, 2, 4, 4, 6])) + rng.choice(["x = 1", "B{raw}", "  y  ", "- z"])]))
    if rng.random() < 0.7:
        lines.append(rng.choice(["", " "]))
        lines.append(" " * rng.choice([b, c, c, c + 2, 0]) + rng.choice(["after I{it}", "- next", "tail"]))
    return lines, b


def impl_itemliteral(lines: List[str]) -> str:
    from pydoctor.epydoc.markup import epytext as E
    errs: List[Any] = []
    toks = E._tokenize("\n".join(lines), errs)
    if len(toks) >= 3 and toks[0].tag == E.Token.BULLET and toks[1].tag == E.Token.PARA and toks[1].startline == 0 \
            and toks[2].tag == E.Token.LBLOCK:
        return "some %s %d" % (enc(toks[2].contents), toks[2].indent)
    return "none"


def stream_itemliteral(ctx: Ctx) -> None:
    from pydoctor.epydoc.markup import epytext as E
    reqs, impls, pay = [], [], []
    n = 4000 if ctx.quick else 60000
    for _ in range(n):
        lines, b = gen_item_text(ctx.rng)
        m = E._BULLET_RE.match(lines[0], b)
        assert m is not None
        flags = "".join("1" if (l.strip() and E._BULLET_RE.match(l, len(l) - len(l.lstrip()))) else "0" for l in lines)
        reqs.append("epytext itemliteral %d %d %s %s" % (b, m.end(), flags, " ".join(enc(l) for l in lines)))
        impls.append(impl_itemliteral(lines))
        pay.append({"item-lines": lines})
        ctx.count("itemliteral:" + impls[-1].split()[0])
    ctx.compare("_tokenize(item + literal)~Epytext.itemLiteral", reqs, impls, pay)


# ====================================================================== reST consolidated bullet entry: the separator

def impl_rstsep(text: str) -> str:
    """the real `handle_consolidated_bullet_list` on one entry `` `a`<text> `` built as docutils nodes"""
    from docutils import nodes
    from pydoctor.epydoc.markup import restructuredtext as R
    from pydoctor.epydoc.docutils import new_document
    doc = new_document("c09")
    tr = R._SplitFieldsTranslator(doc, [])
    para = nodes.paragraph("", "", nodes.title_reference("", "a"), nodes.Text(text))
    para.line = 1
    tr.handle_consolidated_bullet_list(nodes.bullet_list("", nodes.list_item("", para)), "param")
    f = tr.fields[0]
    assert f.tag() == "param" and f.arg() == "a"
    return enc(f.body()._document.astext())


def stream_rstsep(ctx: Ctx) -> None:
    import itertools
    reqs, impls, pay = [], [], []
    alpha = ":- \ta1\u00a0"
    texts = ["".join(p) for n in range(0, 5) for p in itertools.product(alpha, repeat=n)]
    texts += [": -1 disables the limit", " - --verbose makes", ": :-) smile", ":: x", " : :: y", "-1", ":-)", " -  - z", ":\n next"]
    for t in texts:
        reqs.append("epytext rstsep " + enc(t))
        out = impl_rstsep(t)
        impls.append(out)
        pay.append({"rst-separator-text": t})
        # direct oracle: after ONE separator and the blanks around it, nothing of the description is removed
        shown = dec(out)
        m = re.match(r"^( ?[:\-])?\s*", t) if (t[:1] in ":-" or t[:2] in (" -", " :")) else None
        want = t[m.end():] if m else t
        if shown != want:
            ctx.fail("rst-consolidated:description-start-eaten", {"rst-separator-text": t, "shown": shown},
                     "the description of a consolidated-field entry loses more than its separator")
    ctx.compare("handle_consolidated_bullet_list~Rst.stripSeparator", reqs, impls, pay)
    ctx.count("stream:rst-separator", len(reqs))


# ====================================================================== FieldHandler: the Parameters table

PNAMES = {1: "a", 2: "b", 3: "kw", 4: "args", 5: "timeout", 6: "zz", 7: "self", 8: "cls"}
SIGS = [  # (source of the parameter list, [(id, annotation id)], kwargs id, self id, decorator, is method)
    ("a, b", [(1, None), (2, None)], None, None, "", False),
    ("a, b: ANN20 = 1", [(1, None), (2, 20)], None, None, "", False),
    ("a, *args, **kw", [(1, None), (4, None), (3, None)], 3, None, "", False),
    ("a: ANN21, **kw: ANN22", [(1, 21), (3, 22)], 3, None, "", False),
    ("self, a, **kw", [(7, None), (1, None), (3, None)], 3, 7, "", True),
    ("cls, a", [(8, None), (1, None)], None, 8, "@classmethod\n    ", True),
    ("", [], None, None, "", False),
    ("**kw", [(3, None)], 3, None, "", False),
]


def impl_params(sig, events: List[Tuple[str, int, int]], fmt: str = "epytext") -> str:
    from pydoctor import model, epydoc2stan
    from pydoctor.stanutils import flatten
    plist, _, _, _, deco, method = sig
    fields = "\n".join("%s%s%s %s:%s" % ("    " * (2 if method else 1), "@" if fmt == "epytext" else ":", {"P": "param", "K": "keyword", "T": "type"}[k], PNAMES[n],
                                         (" TEXT%d" % t) if t else "")        # text 0 = a field without any text
                       for k, n, t in events)
    if method:
        src = 'class C:\n    %sdef f(%s):\n        """\n        Doc.\n\n%s\n        """\n' % (deco, plist, fields)
        full = "m.C.f"
    else:
        src = 'def f(%s):\n    """\n    Doc.\n\n%s\n    """\n' % (plist, fields)
        full = "m.f"
    buf = io.StringIO()
    with contextlib.redirect_stdout(buf):
        system = model.System()
        system.options.verbosity = 0      # as the command line without -v/-q: only warnings (thresh <= 0) are printed
        system.options.docformat = fmt
        b = system.systemBuilder(system)
        b.addModuleString(src, modname="m")
        b.buildModules()
        h = flatten(epydoc2stan.format_docstring(system.allobjects[full]))
    ids = {v: k for k, v in PNAMES.items()}
    field_lines = [i for i, l in enumerate(src.split("\n"), 1) if re.match(r"\s*[@:](param|keyword|type) ", l)]
    type_line_names = {ln: n for ln, (k, n, t) in zip(field_lines, events)}     # source line of every field
    rows = []
    for row in field_table(dom(h)).get("Parameters", []):
        name = row[0] if len(row) > 1 else ""
        nm, _, typ = name.partition(":")
        num = lambda cell: (re.search(r"(?:TEXT|ANN)(\d+)", cell).group(1) if re.search(r"(?:TEXT|ANN)(\d+)", cell) else "-")
        rows.append("%d/%s/%s" % (ids[nm.strip().lstrip("*")], num(row[-1]), num(typ)))
    reps = []
    for l in buf.getvalue().split("\n"):
        m = re.search(r'Parameter "(\w+)" was already documented', l)
        if m:
            reps.append("dup:%d" % ids[m.group(1)])
        m = re.search(r'Documented parameter "(\w+)" does not exist', l)
        if m:
            reps.append("notfound:%d" % ids[m.group(1)])
        m = re.search(r'Parameter "(\w+)" is documented as keyword', l)
        if m:
            reps.append("askw:%d" % ids[m.group(1)])
        m = re.search(r'm:(\d+): Field "type" was already given', l)
        if m:
            reps.append("duptype:%d" % type_line_names[int(m.group(1))])
    return "rows %s | reports %s" % (" ".join(rows) or "-", " ".join(reps) or "-")


def params_request(sig, events) -> str:
    _, params, kw, slf, _, _ = sig
    ps = ",".join(("%d:%d" % p) if p[1] is not None else str(p[0]) for p in params) or "-"
    return ("epytext params %s %s %s %s" % (ps, kw if kw is not None else "-", slf if slf is not None else "-",
                                           " ".join("%s%d.%d" % e for e in events))).rstrip()


def params_oracle(ctx: Ctx, sig, events, out: str) -> None:
    """every described / typed name has a row that shows its text, or the field is reported (by name)"""
    rows = {}
    for r in out.split(" | ")[0].split()[1:]:
        if r != "-":
            n, b, t = r.split("/")
            rows[int(n)] = (b, t)
    reports = out.split(" | reports ")[1]
    for i, (k, n, t) in enumerate(events):
        later_same = any(k2 in (("P", "K") if k in "PK" else ("T",)) and n2 == n for k2, n2, _ in events[i + 1:])
        shown = n in rows and rows[n][0 if k in "PK" else 1] == (str(t) if t else "-")
        if not shown and not later_same and not re.search(r":%d\b" % n, reports):
            ctx.fail("field:type-of-self-or-cls-silently-dropped" if (k == "T" and n == sig[3]) else
                     "field:%s-text-missing-from-parameters-table" % {"P": "param", "K": "keyword", "T": "type"}[k],
                     {"signature": sig[0], "fields": [list(e) for e in events], "names": PNAMES, "shown": out},
                     "a %s field's text is neither in the row of '%s' nor reported" % ({"P": "param", "K": "keyword", "T": "type"}[k], PNAMES[n]))


def stream_params(ctx: Ctx) -> None:
    import itertools
    reqs, impls, pay = [], [], []
    cases = []
    # exhaustive: every signature x every sequence of <= 2 fields over a small name set; random longer ones
    for sig in SIGS:
        names = sorted({p[0] for p in sig[1]} | {5, 6})
        evs1 = [(k, n) for k in "PKT" for n in names]
        for n_ev in range(0, 3):
            for combo in itertools.product(evs1, repeat=n_ev):
                cases.append((sig, [(k, n, 30 + i) for i, (k, n) in enumerate(combo)]))
    if ctx.quick:
        ctx.rng.shuffle(cases)
        keep = [c for c in cases if len(c[1]) < 2]
        cases = keep + [c for c in cases if len(c[1]) == 2][:900]
    for _ in range(300 if ctx.quick else 5000):
        sig = ctx.rng.choice(SIGS)
        names = sorted({p[0] for p in sig[1]} | {5, 6})
        cases.append((sig, [(ctx.rng.choice("PKT"), ctx.rng.choice(names), 30 + i) for i in range(ctx.rng.randint(3, 5))]))
    # described without any text (`@keyword timeout:`), alone and next to a type, in both orders, for every signature
    for sig in SIGS:
        for k in "KP":
            for n in (5, sig[1][0][0] if sig[1] else 6):
                cases += [(sig, [(k, n, 0)]), (sig, [(k, n, 0), ("T", n, 31)]), (sig, [("T", n, 31), (k, n, 0)]),
                          (sig, [(k, n, 0), ("T", n, 31), (k, 6, 0), ("T", 6, 33)])]
    cases = [(sig, ev, "epytext") for sig, ev in cases]
    cases += [(sig, ev, "restructuredtext") for sig, ev, _ in cases if any(t == 0 for _, _, t in ev)]   # empty bodies differ per parser
    for sig, events, fmt in cases:
        out = impl_params(sig, events, fmt)
        reqs.append(params_request(sig, events))
        impls.append(out)
        pay.append({"signature": sig[0], "fields": [list(e) for e in events], "names": PNAMES, "docformat": fmt})
        params_oracle(ctx, sig, events, out)
        ctx.count("params:fields=%d" % len(events))
    ctx.compare("FieldHandler(param/keyword/type, resolve_types, format)~Params.rows", reqs, impls, pay)


# ====================================================================== _handlePropertyDef: where the fields go

def impl_property(has_body: bool, fields: List[Tuple[str, int, bool]]) -> str:
    from pydoctor import model
    tagname = {"r": "return", "t": "rtype", "o": "note"}
    lines = "\n".join("        @%s:%s" % (tagname[k], (" TEXT%d" % t) if b else "") for k, t, b in fields)
    src = 'class C:\n    @property\n    def p(self):\n        """\n%s%s\n        """\n        return 1\n' % ("        Body.\n\n" if has_body else "", lines)
    with contextlib.redirect_stdout(io.StringIO()):
        system = model.System()
        system.options.verbosity = 0      # as the command line without -v/-q: only warnings (thresh <= 0) are printed
        system.options.docformat = "epytext"
        b = system.systemBuilder(system)
        b.addModuleString(src, modname="m")
        b.buildModules()
    attr = system.allobjects["m.C.p"]
    pd = attr.parsed_docstring
    num = lambda s: (re.search(r"TEXT(\d+)", s).group(1) if re.search(r"TEXT(\d+)", s) else None)
    # which field became the description: the n-th return field whose text is the body (empty bodies carry no number)
    body_text = str(pd) if pd is not None else ""
    desc = "-"
    if not has_body or "Body" not in body_text:
        cand = [t for k, t, bb in fields if k == "r"]
        d = num(body_text)
        desc = d if d is not None else ("?" if cand else "-")
    typ = num(str(attr.parsed_type)) if attr.parsed_type is not None else None
    if attr.parsed_type is not None and typ is None:
        typ = "?"
    other = []
    for f in (pd.fields if pd is not None else []):
        other.append(num(str(f.body())) or "?")
    return "desc=%s type=%s other=%s" % (desc, typ or "-", ",".join(other) or "-")


# ====================================================================== napoleon _get_min_indent / _dedent

def stream_dedent(ctx: Ctx) -> None:
    from pydoctor.napoleon.docstring import GoogleDocstring
    g = GoogleDocstring("")
    reqs, impls, pay = [], [], []
    pool = ["", "", "x", "  y z", "    deep", "        deeper  ", " ", "   ", "\tt", "\u00a0n", "    Larger values are slower", "      lit = 1"]
    cases = [["        literal", "", "    Larger values are slower"], ["   aligned", "normal"], [], [""], ["  "], ["    a", "  ", "      b"]]
    for _ in range(1500 if ctx.quick else 30000):
        cases.append([ctx.rng.choice(pool) for _ in range(ctx.rng.randint(0, 5))])
    for lines in cases:
        reqs.append(("epytext dedent " + " ".join(enc(l) for l in lines)).rstrip())
        out = g._dedent(list(lines))
        impls.append(("%d %d %s" % (g._get_min_indent(list(lines)), g._get_initial_indent(list(lines)), " ".join(enc(l) for l in out))))
        pay.append({"dedent-lines": lines})
        # direct oracle: the same number of columns from every line, and only white space
        k = [len(a) - len(b) for a, b in zip(lines, out)]
        if any(not a.endswith(b) or a[:len(a) - len(b)].strip() for a, b in zip(lines, out)) or \
                len({x for x, a in zip(k, lines) if len(a) >= max(k, default=0)}) > 1:
            ctx.fail("napoleon:dedent-cuts-text", {"dedent-lines": lines, "dedented": out}, "_dedent removes non-blank characters or different amounts")
    ctx.compare("napoleon._get_min_indent/_dedent~Napoleon.dedent", reqs, impls, pay)
    ctx.count("stream:napoleon-dedent", len(reqs))


def impl_inherited_property(has_body: bool, fields: List[Tuple[str, int, bool]]) -> str:
    """the parsed docstring an overriding property WITHOUT docstring gets from the base property"""
    from pydoctor import model, epydoc2stan
    tagname = {"r": "return", "t": "rtype", "o": "note"}
    lines = "\n".join("        @%s:%s" % (tagname[k], (" TEXT%d" % t) if b else "") for k, t, b in fields)
    src = ('class B:\n    @property\n    def p(self):\n        """\n%s%s\n        """\n        return 1\n'
           'class S(B):\n    @property\n    def p(self):\n        return 2\n') % ("        Body.\n\n" if has_body else "", lines)
    with contextlib.redirect_stdout(io.StringIO()):
        system = model.System()
        system.options.verbosity = 0      # as the command line without -v/-q: only warnings (thresh <= 0) are printed
        system.options.docformat = "epytext"
        b = system.systemBuilder(system)
        b.addModuleString(src, modname="m")
        b.buildModules()
        attr = system.allobjects["m.S.p"]
        epydoc2stan.ensure_parsed_docstring(attr)
    pd = attr.parsed_docstring
    num = lambda s: (re.search(r"TEXT(\d+)", s).group(1) if re.search(r"TEXT(\d+)", s) else "?")
    other = [num(str(f.body())) for f in (pd.fields if pd is not None else [])]
    typ = num(str(attr.parsed_type)) if attr.parsed_type is not None else "-"
    return "desc=- type=%s other=%s" % (typ, ",".join(other) or "-")


def stream_property(ctx: Ctx) -> None:
    import itertools
    reqs, impls, pay = [], [], []
    for has_body in (False, True):
        for n in range(0, 4):
            for kinds in itertools.product("rto", repeat=n):
                fields = [(k, 40 + i, True) for i, k in enumerate(kinds)]
                out = impl_property(has_body, fields)
                reqs.append(("epytext property %d %s" % (has_body, " ".join("%s.%d.%d" % f for f in fields))).rstrip())
                impls.append(out)
                pay.append({"property-fields": [list(f) for f in fields], "has_body": has_body})
                # direct oracle: every field's text is the description, the type, or kept among the fields
                # (a second @rtype replaces the first: duplicates are outside well-formed docstrings)
                for i, (k, t, _) in enumerate(fields):
                    if str(t) not in out and not (k == "t" and any(k2 == "t" for k2, _, _ in fields[i + 1:])):
                        ctx.fail("field:%s-in-property-silently-dropped" % {"r": "return", "t": "rtype", "o": "note"}[k],
                                 {"property-fields": [list(f) for f in fields], "has_body": has_body, "shown": out},
                                 "a field of a property docstring is neither description, type nor kept field")
    # the override without docstring: every field of the base docstring is there for FieldHandler (model: Property.inheritedView)
    for has_body in (False, True):
        for n in range(1, 4):
            for kinds in itertools.product("rto", repeat=n):
                fields = [(k, 40 + i, True) for i, k in enumerate(kinds)]
                out = impl_inherited_property(has_body, fields)
                reqs.append("epytext inherited %d %s" % (has_body, " ".join("%s.%d.%d" % f for f in fields)))
                impls.append(out)
                pay.append({"inherited-property-fields": [list(f) for f in fields], "has_body": has_body})
                for k, t, _ in fields:
                    if str(t) not in out:
                        ctx.fail("inherited-property:return-only-docstring-not-inherited" if (not has_body and fields and any(k2 == "r" for k2, _, _ in fields)) else
                                 "field:%s-lost-from-inherited-property-docstring" % {"r": "return", "t": "rtype", "o": "note"}[k],
                                 {"inherited-property-fields": [list(f) for f in fields], "has_body": has_body, "shown": out},
                                 "a field of the base property's docstring is missing from what the overriding property (no docstring) gets")
    ctx.compare("_handlePropertyDef~Property.handle", reqs, impls, pay)
    ctx.count("stream:property-fields", len(reqs))
    ctx.exhaustive = True


# ====================================================================== extract_fields / get_parsed_type

ANAMES = {1: "xx", 2: "zz", 3: "yy"}      # none of them is assigned in the class body: extract_fields runs before the body is visited


def impl_extract(fields: List[Tuple[str, Optional[int], int]]) -> str:
    from pydoctor import model, epydoc2stan
    tagname = {"i": "ivar", "c": "cvar", "v": "var", "t": "type", "o": "note"}
    lines = "\n".join("    @%s%s: TEXT%d" % (tagname[k], (" " + ANAMES[n]) if n else "", t) for k, n, t in fields)
    src = 'class C:\n    """\n    Doc.\n\n%s\n    """\n' % lines
    buf = io.StringIO()
    with contextlib.redirect_stdout(buf):
        system = model.System()
        system.options.verbosity = 0      # as the command line without -v/-q: only warnings (thresh <= 0) are printed
        system.options.docformat = "epytext"
        b = system.systemBuilder(system)
        b.addModuleString(src, modname="m")
        b.buildModules()
    cls = system.allobjects["m.C"]
    ids = {v: k for k, v in ANAMES.items()}
    num = lambda s: (re.search(r"TEXT(\d+)", s).group(1) if re.search(r"TEXT(\d+)", s) else "-")
    attrs = []
    for name, a in cls.contents.items():
        if isinstance(a, model.Attribute):
            attrs.append("%d/%s/%s/%s" % (ids[name], num(str(a.parsed_docstring)) if a.parsed_docstring is not None else "-",
                                          num(str(a.parsed_type)) if a.parsed_type is not None else "-",
                                          "shown" if a.kind is not None else "hidden"))
    missing = [str(i) for i, (k, n, t) in enumerate(fields) if n is None and k != "o"]
    nmiss = sum(1 for l in buf.getvalue().split("\n") if "Missing field name" in l)
    assert nmiss == len(missing), (nmiss, missing)
    dups = sorted(int(m.group(1)) - 5 for m in re.finditer(r"m:(\d+): Field \"\w+ \w+\" was already given", buf.getvalue()))
    return "attrs %s | missing %s | dup %s" % (" ".join(attrs) or "-", ",".join(missing) or "-", ",".join(map(str, dups)) or "-")


def impl_showntype(own: List[int], ann: Optional[int]) -> str:
    from pydoctor import model, epydoc2stan
    from pydoctor.stanutils import flatten
    fields = "".join("@type: TEXT%d\n" % t for t in own)
    src = "vv%s = None\n\"\"\"\nDoc.\n\n%s\"\"\"\n" % ((": ANN%d" % ann) if ann else "", fields)
    with contextlib.redirect_stdout(io.StringIO()):
        system = model.System()
        system.options.verbosity = 0      # as the command line without -v/-q: only warnings (thresh <= 0) are printed
        system.options.docformat = "epytext"
        b = system.systemBuilder(system)
        b.addModuleString(src, modname="m")
        b.buildModules()
        t = epydoc2stan.type2stan(system.allobjects["m.vv"])
        h = flatten(t) if t is not None else ""
    m = re.search(r"(?:TEXT|ANN)(\d+)", h)
    return m.group(1) if m else "-"


def stream_extract(ctx: Ctx) -> None:
    import itertools
    reqs, impls, pay = [], [], []
    one = [(k, n) for k in "icvt" for n in (1, 2, 3, None)] + [("o", None)]
    for n_f in range(0, 3):
        for combo in itertools.product(one, repeat=n_f):
            fields = [(k, n, 50 + i) for i, (k, n) in enumerate(combo)]
            reqs.append(("epytext extract - %s" % " ".join("%s.%s.%d" % (k, n if n else "-", t) for k, n, t in fields)).rstrip())
            out = impl_extract(fields)
            impls.append(out)
            pay.append({"class-fields": [list(f) for f in fields], "names": ANAMES})
            # direct oracle: the text of the last var-kind / type field of a name is held by the attribute of that name
            for i, (k, n, t) in enumerate(fields):
                if n is None or k == "o":
                    continue
                later = any(n2 == n and ((k2 == "t") == (k == "t")) and k2 != "o" for k2, n2, _ in fields[i + 1:])
                if not later and not re.search(r"\b%d/%s" % (n, ("[^/]*/%d/" % t) if k == "t" else ("%d/" % t)), out):
                    ctx.fail("extract_fields:text-not-on-its-attribute", {"class-fields": [list(f) for f in fields], "shown": out},
                             "the text of a variable field is not held by the attribute it names")
    for _ in range(200 if ctx.quick else 3000):
        fields = [(ctx.rng.choice("icvto"), ctx.rng.choice([1, 2, 3, None]), 50 + i) for i in range(ctx.rng.randint(3, 5))]
        fields = [(k, None if k == "o" else n, t) for k, n, t in fields]
        reqs.append(("epytext extract - %s" % " ".join("%s.%s.%d" % (k, n if n else "-", t) for k, n, t in fields)).rstrip())
        impls.append(impl_extract(fields))
        pay.append({"class-fields": [list(f) for f in fields], "names": ANAMES})
    for own in ([], [60], [60, 61]):
        for ann in (None, 70):
            reqs.append("epytext showntype - %s %s" % (",".join(map(str, own)) or "-", ann or "-"))
            impls.append(impl_showntype(own, ann))
            pay.append({"own-type-fields": own, "annotation": ann})
    ctx.compare("extract_fields / get_parsed_type~Attrs.extract / shownType", reqs, impls, pay)
    ctx.count("stream:extract-fields", len(reqs))


def check_document(ctx: Ctx, doc, nested: bool, i: int, tag: str = "doc") -> None:
    """one abstract document serialised to every format, rendered by the real code, judged by the direct oracle"""
    for fmt in FORMATS:
        ser = Ser(fmt).document(doc)
        src, full = module_source(doc["owner"], ser["docstring"], doc.get("var_level", "module"), bool(doc.get("inherit")))
        inp = {"docformat": fmt, "owner": full, "source": src}
        if doc.get("inherit"):
            ctx.count("doc-inherited:%s:%s" % (doc["owner"], fmt))
        try:
            r = render_doc(src, fmt, full)
        except Exception as e:
            ctx.fail("render-raises:" + type(e).__name__, inp, f"{fmt}: building or rendering raises {type(e).__name__}: {str(e)[:80]}")
            continue
        out: Out = ser["out"]
        nontriv = fmt != "plaintext" and ((nested and fmt == "epytext") or bool(out.blocks) or len(ser["fields"]) >= 2 or
                                          (nested and "list" in out.flags))
        ctx.case("%s:%s:%s" % (tag, fmt, src), nontriv,
                 {"stream": "documents", "docformat": fmt, "owner": full, "docstring": ser["docstring"][:400]}
                 if nontriv and fmt == FORMATS[i % 4] and len(ctx.samples) < 6 and i % 7 == 0 else None)
        ctx.count(tag + ":" + fmt)
        ctx.count("doc-owner:" + doc["owner"])
        for fl in sorted(out.flags):
            ctx.count("doc-has:%s:%s" % (fl.split(":")[0], fmt))
        if fmt != "plaintext" and any(n[0] == "code2" for n in doc["body"][0][1]):
            ctx.count("doc-has:inline-code-with-two-blanks:" + fmt)
        if fmt != "plaintext" and "\u00a0" in ser["docstring"]:
            ctx.count("doc-has:no-break-space:" + fmt)
        ctx.count("doc-fields:%d" % min(len(ser["fields"]), 5))
        if fmt in ("epytext", "restructuredtext"):
            for f in ser["fields"]:
                if f.get("type"):
                    ctx.count("field-order:%s:%s" % (f["kind"], "type-first" if f.get("type_first") else "type-after"))
            if doc.get("field_perm") is not None and len(ser["fields"]) > 1:
                ctx.count("field-order:shuffled-docstrings")
        oracle_document(ctx, fmt, doc, ser, full, src, r)


def stream_documents(ctx: Ctx) -> None:
    n = 250 if ctx.quick else 6000
    gen = DocGen(ctx.rng)
    for i in range(n):
        doc = gen.document()
        check_document(ctx, doc, gen.nested_markup, i)


# ====================================================================== deterministic corpus (runs first, independent of the seed)

def W(*ws):
    return [("w", w) for w in ws]


def corpus_documents() -> List[Dict[str, Any]]:
    """the shapes every past seeded change and finding needed, as abstract documents (all five formats)"""
    def fld(kind, arg=None, typ=None, body=None, **kw):
        d = {"kind": kind, "arg": arg, "type": typ, "body": W("Alpha", "beta") if body is None else body, "type_first": False}
        d.update(kw)
        return d
    base = {"field_perm": None, "consolidated": None}
    docs = []
    # seeded C09-1: later lines of a paragraph start with - = ~ and are as long as the line above, at every section level
    hard = ("hard", ["Returns the index of the item or", "-1 when the item cannot be found", "~user or =1 of the given items."])
    docs.append(dict(base, owner="function", body=[("para", W("Look", "up")), hard,
                ("section", W("Return", "value"), [hard, ("section", W("Deeper"), [hard, ("section", W("Deepest"), [hard], 2)], 1)], 0)], fields=[]))
    # seeded C09-2 / paired fields: type before the description
    docs.append(dict(base, owner="function", body=[("para", W("Doc"))],
                fields=[fld("yield", typ="int", type_first=True), fld("return", typ="str", type_first=True), fld("param", "a", "int", type_first=True)]))
    # seeded C09-r2-1: consolidated reST fields, descriptions starting with punctuation
    for cons in ("bullet:", "bullet-", "deflist"):
        docs.append(dict(base, consolidated=cons, owner="function", body=[("para", W("Doc"))],
                    fields=[fld("param", "a", lead="-1"), fld("param", "b", lead="--verbose"), fld("keyword", "opt", lead=":-)"),
                            fld("raise", "ValueError", lead="::"), fld("raise", "KeyError", lead="-x")]))
    # seeded C09-r5-1: entries of a consolidated field whose description has more than one block
    more = [("para", W("Literal", "addresses", "are", "accepted")), ("list", [W("numeric", "form"), W("bracketed", "form")]),
            ("lit", W("As", "in"), ["x = 1", "    deeper", "", "end"])]
    for cons in ("bullet:", "bullet-", "deflist"):
        docs.append(dict(base, consolidated=cons, owner="function", body=[("para", W("Doc"))],
                    fields=[fld("param", "a", more=more), fld("param", "b"), fld("keyword", "opt", more=more[:1]),
                            fld("raise", "ValueError", more=more[1:2]), fld("raise", "KeyError", more=more[2:])]))
        docs.append(dict(base, consolidated=cons, owner="class", body=[("para", W("Doc"))],
                    fields=[fld("ivar", "zz", more=more), fld("cvar", "yy", more=more[:1]), fld("ivar", "ww")]))
    docs.append(dict(base, consolidated="bullet:", owner="class", body=[("para", W("Doc"))],
                fields=[fld("ivar", "zz", lead="-1"), fld("cvar", "yy", lead=":"), fld("ivar", "ww", lead="-0.5")]))
    # seeded C09-r2-2: first paragraph of an item / field wraps, ends with `::`, literal block, another paragraph
    lit = ["x = 1", "    deeper  ", "", "end"]
    docs.append(dict(base, owner="function", body=[("para", W("Doc")),
                ("ulist", [[("litfirst", W("First", "line"), W("goes", "on"), lit), ("para", [("m", "code", W("after")), ("w", "it")])]]),
                ("olist", [[("litfirst", W("Numbered"), W("too"), lit), ("para", W("tail"))]])],
                fields=[fld("note", literal=lit, after=W("after", "note")), fld("return", literal=lit, after=W("after", "return"))]))
    # seeded C09-r2-3: keywords with a type and no description, nothing else described
    docs.append(dict(base, owner="function", body=[("para", W("Doc"))],
                fields=[fld("keyword", "timeout", "float", body=[]), fld("keyword", "retries", "int", body=[], type_first=True)]))
    # findings (fixed and open): var in function, trailing blanks in expected output, type of a constructor parameter,
    # nbsp, property @return, type in a variable's docstring, duplicate keyword
    docs.append(dict(base, owner="function", body=[("para", W("Doc")), ("doctest", [(["print('a  ')"], ["a"])], "last")],
                fields=[fld("var", "zz"), fld("keyword", "opt"), fld("keyword", "opt", body=W("second", "text"))]))
    docs.append(dict(base, owner="class", body=[("para", W("Doc"))], fields=[fld("param", "a", "int"), fld("ivar", "zz", "str")]))
    docs.append(dict(base, owner="function", body=[("para", W("Use") + [("code2", "a  b")] + W("here"))], fields=[]))
    docs.append(dict(base, owner="function", body=[("para", W("Price", "10\u00a0EUR"))], fields=[]))
    docs.append(dict(base, owner="property", body=[("para", W("The", "description"))], fields=[fld("return", typ="int"), fld("raise", "ValueError")]))
    docs.append(dict(base, owner="property", return_tag="returns", body=[("para", W("The", "description"))], fields=[fld("return")]))
    # seeded C09-r3-1: google/numpy field descriptions with varying continuation indents
    docs.append(dict(base, owner="function", body=[("para", W("Doc"))],
                fields=[fld("param", "a", "int", body=W("The", "depth"), literal=["depth = 3", "    more"], after=W("values", "are", "slower")),
                        fld("param", "b", body=W("First", "line", "text"), aligned=True),
                        fld("raise", "ValueError", body=W("When", "bad"), literal=["x = 1"], after=W("values", "fail"))]))
    # seeded C09-r3-2: inherited docstrings (property with description + rtype, method, class variable)
    docs.append(dict(base, owner="property", inherit=True, body=[("para", W("The", "description"))], fields=[fld("return", typ="int"), fld("raise", "ValueError")]))
    docs.append(dict(base, owner="property", inherit=True, return_tag="returns", body=[("para", W("The", "description"))], fields=[fld("return", typ="str", type_first=True)]))
    docs.append(dict(base, owner="function", inherit=True, body=[("para", W("The", "description"))], fields=[fld("param", "a", "int"), fld("return", typ="str")]))
    docs.append(dict(base, owner="variable", inherit=True, var_level="class", var_type="str", body=[("para", W("The", "description"))], fields=[fld("note")]))
    # hunter round: a docstring that is one section; numpy See Also with description; numpy free-form Returns with a colon;
    # a variable field naming a method / function / class of the body
    docs.append(dict(base, owner="function", body=[("section", W("Zebratitle", "overview"), [("para", W("Bodyword", "one", "two"))], 0)], fields=[]))
    docs.append(dict(base, owner="function", body=[("para", W("Doc"))], fields=[fld("see", body=W("Numbatdescription", "shared", "by", "both")),
                                                                               fld("return", freeform=True, body=W("The", "computed", "result"))]))
    docs.append(dict(base, owner="function", body=[("para", W("Doc"))],
                fields=[fld("yield", freeform=True, body=[("w", "Value"), ("p", ("w", "tree"), "(", ","), ("m", "italic", W("sp0", "foo"))])]))
    docs.append(dict(base, owner="class", body=[("para", W("Doc"))], fields=[fld("ivar", "meth", body=W("Platypusvolume", "in", "litres"))]))
    docs.append(dict(base, owner="module", body=[("para", W("Doc"))], fields=[fld("var", "f", body=W("Documented", "as", "variable")), fld("var", "K", body=W("Also", "a", "class"))]))
    for level in ("module", "class", "instance"):
        docs.append(dict(base, owner="variable", var_level=level, var_type="str", body=[("para", W("The", "description"))], fields=[fld("note")]))
    return docs


def corpus_sources() -> List[Dict[str, Any]]:
    """reviewer-reported shapes as fixed sources: every listed token must be visible (page text, attribute docs, types) or the
    object must be reported; `html_must` is a regex the rendered HTML must match"""
    return [
        dict(sig="field:duplicate-field-first-text-silently-dropped", fmt="epytext", owner="m.f",
             src='def f(a):\n    """\n    D.\n\n    @return: FIRSTR\n    @return: SECONDR\n    """\n', tokens=["FIRSTR", "SECONDR"]),
        dict(sig="field:duplicate-field-first-text-silently-dropped", fmt="epytext", owner="m.f",
             src='def f(a):\n    """\n    D.\n\n    @rtype: FIRSTT\n    @rtype: SECONDT\n    @yield: FIRSTY\n    @yield: SECONDY\n    """\n',
             tokens=["FIRSTT", "SECONDT", "FIRSTY", "SECONDY"]),
        dict(sig="field:duplicate-field-first-text-silently-dropped", fmt="restructuredtext", owner="m.f",
             src='def f(a):\n    """\n    D.\n\n    :type a: FIRSTA\n    :type a: SECONDA\n    """\n', tokens=["FIRSTA", "SECONDA"]),
        dict(sig="field:duplicate-field-first-text-silently-dropped", fmt="epytext", owner="m.K",
             src='class K:\n    """\n    D.\n\n    @ivar yy: FIRSTI\n    @ivar yy: SECONDI\n    """\n', tokens=["FIRSTI", "SECONDI"]),
        dict(sig="field:ivar-and-inline-docstring:inline-text-silently-dropped", fmt="epytext", owner="m.K",
             src='class K:\n    """\n    D.\n\n    @ivar zz: FROMCLASS\n    """\n    zz = 1\n    """INLINE text"""\n', tokens=["FROMCLASS", "INLINE"]),
        dict(sig="rst:sphinx-role-prefix-stripped-from-text", fmt="restructuredtext", owner="m.f",
             src='def f(a):\n    """\n    The option :data: is a plain word and ``:meth:`run```.\n\n    Lit::\n\n        :class:`X` stays\n    """\n',
             tokens=[":data:", ":meth:", ":class:"]),
        dict(sig="epytext:ordered-list-start-number-lost", fmt="epytext", owner="m.f",
             src='def f(a):\n    """\n    P.\n\n      3. third\n      4. fourth\n    """\n', tokens=["third", "fourth"], html_must=r'<ol[^>]*start="3"'),
        dict(sig="napoleon:type-spec-text-altered", fmt="google", owner="m.f",
             src='def f(x):\n    """\n    Doc.\n\n    Args:\n        x (int, default=5): the x\n    """\n', tokens=["default=5"]),
    ]


def stream_corpus_sources(ctx: Ctx) -> None:
    for c in corpus_sources():
        r = render_doc(c["src"], c["fmt"], c["owner"])
        visible = " ".join(text_of(dom(r["html"])).split()) + " " + " ".join(text_of(dom(r.get("own_type") or "")).split())
        for a in r["attrs"].values():
            visible += " " + " ".join(text_of(dom(a["html"])).split()) + " " + " ".join(text_of(dom(a["type"] or "")).split())
        extra = {n: o for n, o in []}
        # attributes named in the source but not in the fixed list of render_doc
        missing = [t for t in c["tokens"] if t not in visible]
        if c["owner"] == "m.K" and missing:
            from pydoctor import model, epydoc2stan
            from pydoctor.stanutils import flatten
            with contextlib.redirect_stdout(io.StringIO()):
                system = model.System()
                system.options.verbosity = 0      # as the command line without -v/-q: only warnings (thresh <= 0) are printed
                system.options.docformat = c["fmt"]
                b = system.systemBuilder(system)
                b.addModuleString(c["src"], modname="m")
                b.buildModules()
                for sub in system.allobjects[c["owner"]].contents.values():
                    visible += " " + " ".join(text_of(dom(flatten(epydoc2stan.format_docstring(sub)))).split())
            missing = [t for t in c["tokens"] if t not in visible]
        reported = bool(r["reports"]) and any(re.search(r"already|not displayed|docstring", l) for l in r["reports"])
        bad = (missing and not reported) or ("html_must" in c and not re.search(c["html_must"], r["html"]))
        ctx.case("corpus-source:" + c["src"], True, None)
        ctx.count("corpus-source:%s:%s" % (c["sig"].split(":")[0], "fails" if bad else "holds"))
        if bad:
            ctx.fail(c["sig"], {"docformat": c["fmt"], "owner": c["owner"], "source": c["src"], "missing": missing, "reports": r["reports"][:3]},
                     "%s: %s" % (c["sig"], ("not visible and not reported: %s" % missing) if missing else "rendered HTML lacks " + c.get("html_must", "")))


def stream_corpus(ctx: Ctx) -> None:
    for i, doc in enumerate(corpus_documents()):
        check_document(ctx, doc, True, i, tag="corpus")
    # the recorded input of every C09 finding (fixed or open): a fixed one must stay fixed
    from ..core import load_known
    for e in load_known().get("C09", []):
        inp = e.get("input") or {}
        if "source" not in inp:
            continue
        bad, lines = doc_verdict(inp)
        ctx.count("corpus:finding-input:%s:%s" % (e.get("status", "open"), "fails" if bad else "holds"))
        ctx.case("corpus-finding:" + e["signature"], True, None)
        if bad:
            ctx.fail(e["signature"], inp, "recorded input of this finding: " + " / ".join(lines)[:300])


def run(ctx: Ctx) -> None:
    stream_corpus(ctx)
    stream_corpus_sources(ctx)
    stream_tables(ctx)
    stream_target(ctx)
    stream_colorize(ctx)
    stream_visible(ctx)
    stream_blocks(ctx)
    stream_splice(ctx)
    stream_plaintext(ctx)
    stream_fields(ctx)
    stream_heading(ctx)
    stream_itemliteral(ctx)
    stream_pairs(ctx)
    stream_rstsep(ctx)
    stream_params(ctx)
    stream_property(ctx)
    stream_extract(ctx)
    stream_dedent(ctx)
    stream_documents(ctx)


def doc_verdict(inp, verbose: bool = False) -> Tuple[int, List[str]]:
    """re-render a recorded document input and decide whether the recorded failure is still there"""
    r = render_doc(inp["source"], inp["docformat"], inp["owner"])
    root = dom(r["html"])
    lines: List[str] = []
    if verbose:
        lines += ["docformat : %s  object: %s" % (inp["docformat"], inp["owner"]), "html      : " + r["html"],
                  "reports   : %r" % (r["reports"],), "attributes: %r" % ({k: (v["visible"], v["kind"]) for k, v in r["attrs"].items()},),
                  "own type  : %r" % (r.get("own_type"),)]
    bad = 0
    if find_all(root, lambda n: n.tag == "p" and n.cls() == "pre") and inp["docformat"] != "plaintext":
        lines.append("oracle    : the docstring is shown as plain text (%s)" % (r.get("to_stan_error") or "bad docstring"))
        bad = 1
    if "field" in inp:
        f = inp["field"]
        words = f[2] if isinstance(f[2], list) else [f[2]]
        shown = text_of(root).split() + text_of(dom(r.get("own_type") or "")).split() + \
            [w for a in r["attrs"].values() if a["visible"] for w in text_of(dom(a["html"])).split() + text_of(dom(a["type"] or "")).split()]
        joined, pos, present = " ".join(shown), 0, True      # words in order; a name cell reads "self:the …" without a blank
        for w in words:
            pos = joined.find(w, pos)
            if pos < 0:
                present = False
                break
            pos += len(w)
        reported = any((f[1] and f[1] in l) or re.search(r"\b[ic]?%s\b" % re.escape(f[0]), l) for l in r["reports"])
        lines.append("oracle    : field %s %s -> text displayed: %s, reported: %s" % (f[0], f[1] or "", present, reported))
        bad = bad or int(not (present or reported))
    if "intended" in inp and isinstance(inp["intended"], str):
        pres = [norm_pre(text_of(p, sep=False), dedent="literal" in p.cls()) for p in find_all(root, lambda n: n.tag == "pre")]
        ok = inp["intended"] in pres
        lines.append("oracle    : intended block %r %s among the displayed blocks %r" % (inp["intended"], "is" if ok else "is NOT", pres))
        bad = bad or int(not ok)
    return bad, lines


def replay(ctx: Ctx, obj) -> int:
    """re-run one recorded case on the model and on the implementation; 1 = the property (or the correspondence) still fails"""
    inp = obj.get("input") or obj.get("request") or obj
    if isinstance(inp, dict) and "source" in inp and "docformat" in inp:
        bad, lines = doc_verdict(inp, verbose=True)
        for l in lines:
            print(l)
        return bad
    if isinstance(inp, dict) and ("paragraph" in inp or "text" in inp):
        s = inp.get("paragraph", inp.get("text"))
        rq = ["epytext colorize %s %s" % (enc(s), enc(word_extra(s))), "epytext visible %s %s" % (enc(s), enc(word_extra(s)))]
        nodes_text, rendered = impl_visible(s)
        print("paragraph :", repr(s))
        print("impl tree :", impl_colorize(s))
        print("impl text :", nodes_text, "| rendered:", rendered)
        try:
            mo = ctx.driver.run(rq)
            print("model tree:", mo[0])
            print("model text:", mo[1])
            m = mo[1].split()
            agree = mo[0] == impl_colorize(s) and (m[0] != "ok" or "ok " + m[1] == nodes_text)
        except Exception as e:
            print("model     : unavailable", e)
            agree = True
        return int(not agree or rendered.startswith("raises"))
    if isinstance(inp, dict) and "string" in inp:
        print("impl :", impl_target(inp["string"]))
        print("model:", ctx.driver.run(["epytext target " + enc(inp["string"])])[0])
        return int(impl_target(inp["string"]) != ctx.driver.run(["epytext target " + enc(inp["string"])])[0])
    if isinstance(inp, dict) and "lines" in inp:
        out = impl_block(inp["kind"], inp["lines"], inp["start"], inp["block_indent"])
        mo = ctx.driver.run(["epytext %s %d %d %s" % (inp["kind"], inp["start"], inp["block_indent"], " ".join(enc(l) for l in inp["lines"]))])[0]
        print("impl :", out)
        print("model:", mo)
        return int(out != mo)
    if isinstance(inp, dict) and ("codeblock" in inp or "doctest" in inp):
        if "codeblock" in inp:
            src = inp["codeblock"]
            out, rq = impl_codeblock(src), "epytext codeblock %s %s" % (enc(src), match_list(src)[0])
        else:
            src = inp["doctest"]
            out, rq = impl_doctestbody(src), ("epytext doctestbody %s %s" % (enc(src), example_list(src)[0])).rstrip()
        mo = ctx.driver.run([rq])[0]
        print("impl :", out)
        print("model:", mo)
        return int(out != mo)
    if isinstance(inp, dict) and "item-lines" in inp:
        from pydoctor.epydoc.markup import epytext as E
        lines = inp["item-lines"]
        b = len(lines[0]) - len(lines[0].lstrip())
        flags = "".join("1" if (l.strip() and E._BULLET_RE.match(l, len(l) - len(l.lstrip()))) else "0" for l in lines)
        out = impl_itemliteral(lines)
        mo = ctx.driver.run(["epytext itemliteral %d %d %s %s" % (b, E._BULLET_RE.match(lines[0], b).end(), flags, " ".join(enc(l) for l in lines))])[0]
        print("lines:", lines)
        print("impl :", out)
        print("model:", mo)
        return int(out != mo)
    if isinstance(inp, dict) and "heading-lines" in inp:
        from pydoctor.epydoc.markup import epytext as E
        l0, l1 = inp["heading-lines"]
        joins = bool(l1.strip()) and not l1.startswith(" ") and not E._BULLET_RE.match(l1, 0) and not l0.rstrip().endswith("::")
        out = impl_heading(l0, l1)
        mo = ctx.driver.run(["epytext heading %s%s" % (enc(l0.strip()), (" " + enc(l1.strip())) if joins else "")])[0]
        print("lines:", [l0, l1])
        print("impl :", out)
        print("model:", mo)
        uniform = len(set(l1.strip())) == 1 and l1.strip()[0] in "=-~"
        return int(out != mo or (out != "para" and not uniform))
    if isinstance(inp, dict) and "events" in inp:
        d, t = inp["pair"]
        heading = next(h for a, b, h in PAIRS if a == d)
        out = impl_pair(d, t, heading, inp["events"], inp["docformat"])
        mo = ctx.driver.run([("epytext pair " + " ".join(inp["events"])).strip()])[0]
        print("fields in source order:", inp["events"], "(d = @%s, t = @%s, %s)" % (d, t, inp["docformat"]))
        print("impl :", out)
        print("model:", mo)
        return int(out != mo)
    if isinstance(inp, dict) and "handler" in inp:
        out = impl_field(inp["tag"], inp["kind"], inp["has_arg"], inp["param_exists"], inp["attr_known"])
        mo = ctx.driver.run(["epytext field %s %s %s %d %d %d" % (inp["tag"], inp["handler"], inp["kind"], inp["has_arg"], inp["param_exists"], inp["attr_known"])])[0]
        print("impl :", out)
        print("model:", mo)
        return int(out != mo)
    print(json.dumps(obj, indent=1, default=str)[:4000])
    return 0
