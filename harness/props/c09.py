"""C09 — rendering a docstring keeps its text: nothing is lost, altered or reordered.

Kernel streams (model vs real code): `_colorize` trees and errors, visible text of rendered epytext
paragraphs, `_TARGET_RE`, `_tokenize_literal` / `_tokenize_doctest`, `colorize_codeblock_body` /
`colorize_doctest_body`, plaintext `to_stan`, the field-handler table.
Direct oracle (no model): structure-aware documents serialised to the five docformats, rendered by the
real `epydoc2stan.format_docstring`, compared with the text the generator intended.
"""
from __future__ import annotations

import html.parser
import inspect
import io
import contextlib
import re
import textwrap
from typing import Any, Dict, List, Optional, Sequence, Tuple

from ..core import Ctx, enc, dec

USES_TABLES = True

THEOREMS = [
    "Epytext.colorize_conserves", "Epytext.strip_plain", "Epytext.symbols_total", "Epytext.tables_current",
    "Epytext.literal_block_exact", "Epytext.doctest_block_exact",
    "Doctest.splice_conserves", "Doctest.subfunc_conserves", "Doctest.doctest_body_text",
    "Doctest.doctest_body_conserves_partial", "Doctest.doctest_body_conserves_counterexample",
    "Epytext.plaintext_exact",
    "Docstring.every_tag_rendered_or_reported_partial", "Docstring.every_tag_rendered_or_reported_counterexample",
    "Docstring.dropped_iff_var_outside_module_or_class",
]
PARTIAL = {
    "Doctest.doctest_body_conserves_partial":
        "hypothesis: every expected-output group is empty or ends with exactly one newline and has no other trailing "
        "white space (`want.rstrip()` drops it) — counterexample proved, finding doctest:want-trailing-whitespace-dropped",
    "Docstring.every_tag_rendered_or_reported_partial":
        "hypothesis: a field whose handler is `handled_elsewhere` (ivar, cvar, var) stands in a module or class docstring; "
        "in a function or attribute docstring it is dropped without output or report — counterexample proved, finding "
        "field:var-in-function-silently-dropped",
}
RULE = ("documents from a structure-aware generator (paragraphs of words with punctuation and markup-looking characters "
        "that are legal in the format, nested bullet/ordered lists, inline markup incl. nested, links with and without "
        "target, escapes, symbols, literal / doctest / code blocks, sections, every field kind) serialised to epytext, "
        "restructuredtext, google, numpy and plaintext and attached to a module, class or function of a real System. "
        "Oracle: word sequence of the rendered description == intended word sequence (formats reflow white space); "
        "<pre> blocks == intended block text character for character after removing the newline HTML ignores after <pre>, "
        "trailing newlines and the uniform indentation epytext keeps for literal blocks; plaintext == inspect.cleandoc(docstring); "
        "every field's words under its heading/entry or a report naming it. Non-trivial = at least one inline markup "
        "nested in another construct, or a block, or >= 2 fields. Kernel streams compare model and code on random and "
        "structured inputs (see distribution).")
ASSUMPTIONS = [
    "regex character classes `\\s` / `\\w` beyond ASCII are parameters of the model (`pyIsSpace` table checked against "
    "Python's for every code point < 0x3100; `\\w` supplied per request from Python's `re`)",
    "`DOCTEST_RE` / `DOCTEST_EXAMPLE_RE` match spans are parameters (non-overlapping, increasing — checked on every match "
    "list the real regexes produce); `DEFINE_FUNC_RE` groups concatenate to the matched text (checked)",
    "reStructuredText, google and numpy bodies pass through docutils / napoleon: only the direct oracle speaks for them",
    "paragraph contents contain no newline (Token.contents of a paragraph is `' '.join(stripped lines)`)",
    "docutils strips trailing white space from every input line; generated reST/google/numpy blocks carry none",
]
EXPLANATION = ("Theorems over the model of the epytext colorizer, block slicers, doctest splicer, plaintext and the field "
               "dispatch table; the correspondence compares trees, errors, block contents and yielded pieces with the real "
               "functions; the direct oracle renders generated documents in all five formats.")

ERR_KIND = {
    "Unknown inline markup tag.": "unknown-tag", "Unbalanced '}'.": "unbalanced-close",
    "Invalid symbol code.": "invalid-symbol", "Invalid escape code.": "invalid-escape",
    "Bad uri target.": "bad-target", "Bad link target.": "bad-target", "Unbalanced '{'.": "unbalanced-open",
}


def word_extra(text: str) -> str:
    return "".join(sorted({c for c in text if ord(c) >= 128 and re.match(r"\w", c)}))


# ------------------------------------------------------------------ real-side adapters (kernels)

def show_elem(e) -> str:
    if isinstance(e, str):
        return enc(e)
    return "( %s %s)" % (e.tag, "".join(show_elem(c) + " " for c in e.children))


def impl_colorize(text: str) -> str:
    from pydoctor.epydoc.markup import epytext as E
    errors: List[Any] = []
    try:
        tree = E._colorize(E.Token("para", 0, text, 0), errors)
    except Exception as e:  # the colorizer never raises
        return "Crash:" + type(e).__name__
    errs = ",".join("%s@%d" % (ERR_KIND.get(e._descr, "?" + e._descr), e.charnum) for e in errors) or "-"
    return show_elem(tree) + " | " + errs


class _Text(html.parser.HTMLParser):
    """text content of an HTML fragment, with the <pre> blocks and the field table apart"""

    def __init__(self) -> None:
        super().__init__(convert_charrefs=True)
        self.out: List[str] = []
        self.pre: List[str] = []
        self.in_pre = 0
        self.body: List[str] = []          # text outside the field table
        self.in_table = 0
        self.rows: List[Tuple[str, List[str]]] = []   # (class of tr, [cell text])
        self.cell: Optional[List[str]] = None

    def handle_starttag(self, tag, attrs):
        a = dict(attrs)
        if tag == "pre":
            self.in_pre += 1
            self.pre.append("")
        if tag == "table" and "fieldTable" in (a.get("class") or ""):
            self.in_table += 1
        elif tag == "table" and self.in_table:
            self.in_table += 1
        if self.in_table == 1:
            if tag == "tr":
                self.rows.append((a.get("class") or "", []))
            elif tag == "td" and self.rows:
                self.cell = []
                self.rows[-1][1].append("")

    def handle_endtag(self, tag):
        if tag == "pre":
            self.in_pre -= 1
        if tag == "table" and self.in_table:
            self.in_table -= 1
        if tag in ("p", "li", "tr", "td", "div", "h1", "h2", "h3", "h4", "h5", "dt", "dd", "pre", "ul", "ol", "br"):
            self.handle_data(" ", sep=True)

    def handle_data(self, data, sep=False):
        self.out.append(data)
        if self.in_pre and not sep:
            self.pre[-1] += data
        if self.in_table:
            if self.rows and self.rows[-1][1]:
                self.rows[-1][1][-1] += data
        else:
            self.body.append(data)


def html_text(h: str) -> _Text:
    p = _Text()
    p.feed(h)
    p.close()
    return p


_SYS = None


def scratch_system():
    """one System with a module `m` defining the link targets the generators use"""
    global _SYS
    if _SYS is None:
        from pydoctor import model
        system = model.System()
        system.options.docformat = "epytext"
        b = system.systemBuilder(system)
        b.addModuleString("def f(a, b=1, *args, **kw):\n    pass\nclass K:\n    def __init__(self, a, b=2):\n        pass\n    def meth(self):\n        pass\nx = 1\n", modname="m")
        b.buildModules()
        _SYS = system
    return _SYS


def impl_visible(text: str) -> str:
    """parse one epytext paragraph with the real parser, render it, return the visible text"""
    from pydoctor.epydoc.markup import epytext as E, ParseError
    from pydoctor.stanutils import flatten
    errs: List[Any] = []
    try:
        pd = E.parse_docstring(text, errs)
    except ParseError:
        return "error"
    if any(e.is_fatal() for e in errs):
        return "error"
    mod = scratch_system().allobjects["m"]
    try:
        stan = pd.to_stan(mod.docstring_linker)
        h = flatten(stan)
    except Exception as e:
        return "raises"
    return "ok " + enc("".join(html_text(h).out))


def impl_target(s: str) -> str:
    from pydoctor.epydoc.markup import epytext as E
    m = E._TARGET_RE.match(s)
    return "none" if not m else "some %s %s" % (enc(m.group(1)), enc(m.group(2)))


def impl_block(kind: str, lines: List[str], start: int, indent: int) -> str:
    from pydoctor.epydoc.markup import epytext as E
    toks: List[Any] = []
    errs: List[Any] = []
    if kind == "literal":
        n = E._tokenize_literal(list(lines), start, indent, toks, errs)
        return "%s %d" % (enc(toks[-1].contents), n)
    n = E._tokenize_doctest(list(lines), start, indent, toks, errs)
    return "%s %d %s" % (enc(toks[-1].contents), n, ",".join(str(e._linenum) for e in errs) or "-")


def show_pieces(pieces) -> str:
    from twisted.web.template import Tag
    out = []
    for p in pieces:
        if isinstance(p, str):
            out.append("raw:" + enc(p))
        elif isinstance(p, Tag):
            assert p.tagName == "span" and len(p.children) == 1 and isinstance(p.children[0], str), p
            out.append("%s:%s" % (p.attributes["class"], enc(p.children[0])))
        else:
            out.append("?:" + repr(p))
    return " ".join(out) or "-"


KINDS = ["PROMPT1", "PROMPT2", "KEYWORD", "BUILTIN", "COMMENT", "STRING", "DEFINE", "EOS"]


def match_list(s: str) -> Tuple[str, List[Tuple[int, int, str]]]:
    from pydoctor.epydoc import doctest as D
    ms = []
    for m in D.DOCTEST_RE.finditer(s):
        kind = next((k for k in KINDS[:-1] if m.group(k)), None)
        if kind is None:
            kind = "EOS" if m.group("EOS") is not None else "NONE"
        ms.append((m.start(), m.end(), kind))
    return (",".join("%d-%d-%s" % m for m in ms) or "-"), ms


def impl_codeblock(s: str) -> str:
    from pydoctor.epydoc import doctest as D
    try:
        return show_pieces(list(D.colorize_codeblock_body(s)))
    except AssertionError:
        return "AssertionError"


def example_list(s: str):
    from pydoctor.epydoc import doctest as D
    toks, exs = [], []
    for m in D.DOCTEST_EXAMPLE_RE.finditer(s):
        src, want = m.group("source", "want")
        assert m.start("want") == m.end("source") and m.end("want") == m.end() and m.start("source") == m.start()
        mt, _ = match_list(src)
        exc = bool(want and D.EXCEPT_RE.match(want))
        toks += [str(m.start()), str(m.end("source")), str(m.end()), "1" if exc else "0", mt]
        exs.append((m.start(), m.end("source"), m.end(), want))
    return " ".join(toks), exs


def impl_doctestbody(s: str) -> str:
    from pydoctor.epydoc import doctest as D
    try:
        return show_pieces(list(D.colorize_doctest_body(s)))
    except AssertionError:
        return "AssertionError"


# ------------------------------------------------------------------ generators for the kernel streams

ALPHA = "ab z  ILCUEMBSXQ{{{}}}}<>>().:_@lrvx19-,é λ\u00a0"
SYMS = ["alpha", "<-", "->", "^", "v", "<=", ">=", "Omega", "infinity", "le", "sum"]


def rand_text(rng, n: int, alpha: str = ALPHA) -> str:
    return "".join(rng.choice(alpha) for _ in range(n))


def gen_inline(rng, depth: int = 0, wellformed: bool = True) -> Tuple[str, bool]:
    """one epytext paragraph source; returns (source, has nested markup)"""
    parts: List[str] = []
    nested = False
    for _ in range(rng.randint(1, 5)):
        r = rng.random()
        if r < 0.35 or depth > 2:
            parts.append(rng.choice(["word", "a b", "x.y", "(see)", "two  spaces", "f()", "é", "1 < 2", "a>b", "q.", "Tag", "IO", "x_1", "-", "@"]))
        elif r < 0.6:
            inner, _ = gen_inline(rng, depth + 1, wellformed)
            parts.append(rng.choice("CMIB") + "{" + inner + "}")
            nested = nested or depth > 0 or "{" in inner
        elif r < 0.7:
            code = rng.choice(["lb", "rb", ".", "@", "{", "E", " ", "-"] if wellformed else ["lb", "rb", "xx", "", "I{x}", "."])
            parts.append("E{" + code + "}")
        elif r < 0.78:
            parts.append("S{" + (rng.choice(SYMS) if wellformed or rng.random() < 0.5 else rng.choice(["nosuch", "", "B{x}"])) + "}")
        elif r < 0.86:
            inner, _ = gen_inline(rng, depth + 1, wellformed)
            parts.append("{" + inner + "}")
            nested = True
        else:
            tag = rng.choice("LU")
            name_parts = []
            for _ in range(rng.randint(0, 2)):
                name_parts.append(rng.choice(["the text", "I{it}", "f", "a  b", "E{lb}", "{n}", "B{C{x}}", "é"]))
            name = " ".join(name_parts)
            tgt_pool = ["m.f", "m.K.meth", "f", "m.f()", "K", "http://x.org/a", "www.y.z", "me@x.org", "URI:m.f", "URL:http://q", " m . f "]
            if not wellformed:
                tgt_pool += ["9a", "a b!", "", "a<b", "f(", "x>"]
            tgt = rng.choice(tgt_pool)
            form = rng.random()
            if form < 0.6:
                body = name + rng.choice(["", " ", "  "]) + "<" + tgt + ">"
            elif form < 0.85:
                body = tgt.strip() if wellformed else rng.choice([tgt, name])
            else:
                body = name + "<" + tgt + ">" + rng.choice(["", "", "x", "E{.}"]) if not wellformed else "<" + tgt + ">"
            parts.append(tag + "{" + body + "}")
            nested = nested or "{" in body
    sep = rng.choice([" ", " ", ""]) if not wellformed else " "
    return sep.join(parts), nested


PY_SNIPPETS = [
    "x = 1", "print('a  ')", "def f(a, b=2):", "    return a + b", "class K(object):", "# a comment", "s = \"\"\"multi",
    "line\"\"\"", "for i in range(3):", "    print(i)  # doctest: +SKIP", "y = 'it''s'", "import os.path", "z = len([1, 2])",
    "lambda: None", "t = '''a", "... b'''", "assert x is not None", "obj.print = 3", "def  spaced (x):", "async def g(): pass",
    "raise ValueError('bad')", "s = \"a \\\" b\"", "",
]
WANT_LINES = ["1", "a  ", "[1, 2]", "Traceback (most recent call last):", "  ...", "ValueError: bad", "3 ", "<BLANKLINE>", "x\ty", "done\u00a0"]


def gen_doctest_text(rng) -> str:
    lines: List[str] = []
    for _ in range(rng.randint(1, 4)):
        if rng.random() < 0.25:
            lines.append(rng.choice(["Some text.", "", "  indented text", "more"]))
        ind = rng.choice(["", "", "  "])
        lines.append(ind + ">>> " + rng.choice(PY_SNIPPETS))
        for _ in range(rng.randint(0, 2)):
            lines.append(ind + "... " + rng.choice(PY_SNIPPETS))
        for _ in range(rng.randint(0, 3)):
            lines.append(ind + rng.choice(WANT_LINES))
        if rng.random() < 0.5:
            lines.append(rng.choice(["", " "]))
    s = "\n".join(lines)
    if rng.random() < 0.4:
        s += "\n"
    return s


def gen_lines(rng) -> Tuple[List[str], int, int]:
    """random line list for the block slicers: (lines, start, block_indent)"""
    n = rng.randint(1, 9)
    lines = []
    for _ in range(n):
        r = rng.random()
        if r < 0.25:
            lines.append(rng.choice(["", " ", "    ", "      "]))
        else:
            lines.append(" " * rng.choice([0, 1, 2, 4, 4, 6, 8]) + rng.choice(["x = 1", ">>> go()", "text here  ", "a", "- b", "\u00a0nb", "\ttab"]))
    start = rng.randrange(0, n + 1)
    return lines, start, rng.choice([0, 2, 4, 4, 6])


# ------------------------------------------------------------------ kernel streams

def stream_tables(ctx: Ctx) -> None:
    import sys
    spaces = [i for i in range(0x3100) if chr(i).isspace()]
    res = [i for i in range(0x3100) if re.fullmatch(r"\s", chr(i))]
    beyond = [i for i in range(0x3100, sys.maxunicode + 1) if chr(i).isspace() or re.fullmatch(r"\s", chr(i))]
    impl = ",".join(map(str, spaces))
    if spaces != res or beyond:
        impl = "python-tables-disagree:%r" % (beyond[:3],)
    ctx.compare("pyIsSpace-table", ["epytext spaces"], [impl], [{"table": "str.isspace == \\s"}])
    ctx.count("stream:tables")


def stream_target(ctx: Ctx) -> None:
    reqs, impls, pay = [], [], []
    alpha = "ab <<>> \n\tURIL:.x\u00a0"
    seen = set()
    fixed = ["a<b>", "a <b>", "<b>", "a<b>\n", "a<b>\n\n", "a\nb<c>", "a<URI:x>", "a<URI:>", "a<URL:x>y", "<a>\n<b>\n", "x<y>z<t>",
             "a<>", "a<b", "a b>", "a\u00a0<b>", "a \t<b\n>", "<a<b>", "a><b>", "a<b>>", ""]
    n = 4000 if ctx.quick else 60000
    for i in range(n + len(fixed)):
        s = fixed[i] if i < len(fixed) else rand_text(ctx.rng, ctx.rng.randint(0, 9), alpha)
        if s in seen:
            continue
        seen.add(s)
        reqs.append("epytext target " + enc(s))
        impls.append(impl_target(s))
        pay.append({"string": s})
    ctx.compare("_TARGET_RE~splitTarget", reqs, impls, pay)
    ctx.count("stream:target-re", len(reqs))


def stream_colorize(ctx: Ctx) -> None:
    reqs, impls, pay = [], [], []
    n_rand = 6000 if ctx.quick else 120000
    n_struct = 3000 if ctx.quick else 60000
    texts: List[Tuple[str, bool, str]] = []
    for _ in range(n_rand):
        texts.append((rand_text(ctx.rng, ctx.rng.randint(0, 14)), False, "random"))
    for _ in range(n_struct):
        wf = ctx.rng.random() < 0.6
        s, nested = gen_inline(ctx.rng, 0, wf)
        texts.append((s, nested, "wellformed" if wf else "malformed"))
    for s in ["a{b}", "A{b}", "xI{b}", "E{}", "E{lb}", "S{alpha}", "L{f}", "L{a b<m.f>}", "U{x<y>}{", "}", "{", "I{", "C{B{x}}y", "", "{}", "L{}", "L{I{x}}", "E{E{x}}"]:
        texts.append((s, "{" in s, "fixed"))
    for s, nested, kind in texts:
        rq = "epytext colorize %s %s" % (enc(s), enc(word_extra(s)))
        out = impl_colorize(s)
        reqs.append(rq)
        impls.append(out)
        pay.append({"text": s})
        ok = out.endswith("| -")
        ctx.case("colorize:" + s, nested and ok, {"stream": "colorize", "text": s, "impl": out} if nested and ok and len(s) > 25 and len(ctx.samples) < 2 else None)
        ctx.count("colorize:%s:%s" % (kind, "ok" if ok else "error"))
    ctx.compare("_colorize~Epytext.colorize", reqs, impls, pay)


def stream_visible(ctx: Ctx) -> None:
    """well-formed paragraphs through the real parser and renderer; the model answers visible text and strip"""
    reqs, impls, pay = [], [], []
    n = 1500 if ctx.quick else 30000
    outs = []
    for _ in range(n):
        s, nested = gen_inline(ctx.rng, 0, True)
        s = " ".join(s.split())          # a paragraph token: lines stripped and joined by single spaces
        if not s or re.match(r"(-|\d+\.|@\w+.*:|>>>)( |$)", s) or s.endswith("::") or "M{" in s:
            continue
        out = impl_visible(s)
        reqs.append("epytext visible %s %s" % (enc(s), enc(word_extra(s))))
        impls.append(out)
        pay.append({"text": s})
        outs.append((s, nested, out))
    # the model answers `ok <visible> <strip>`; the implementation only has the visible text
    if ctx.model_ok:
        model = ctx.driver.run_parallel(reqs)
        for (s, nested, out), mo in zip(outs, model):
            ctx.traces_validated += 1
            m = mo.split()
            if m[0] == "ok":
                if m[1] != m[2]:
                    ctx.disagree("visible==strip (model, theorem colorize_conserves)", {"text": s}, m[1], m[2])
                mo = "ok " + m[1]
            if mo != out:
                ctx.disagree("render(paragraph)~Epytext.visible", {"text": s}, mo, out)
            ctx.case("visible:" + s, nested and out.startswith("ok"), None)
            ctx.count("visible:" + out.split()[0])
            if out == "raises":
                ctx.fail("epytext:to_stan-raises", {"paragraph": s}, "rendering a paragraph the parser accepted raises")


def stream_blocks(ctx: Ctx) -> None:
    reqs, impls, pay = [], [], []
    n = 3000 if ctx.quick else 50000
    for _ in range(n):
        lines, start, ind = gen_lines(ctx.rng)
        for kind in ("literal", "doctest"):
            if kind == "doctest" and start >= len(lines):
                continue            # _tokenize_doctest is only called on an existing line
            reqs.append("epytext %s %d %d %s" % (kind, start, ind, " ".join(enc(l) for l in lines)))
            impls.append(impl_block(kind, lines, start, ind))
            pay.append({"kind": kind, "lines": lines, "start": start, "block_indent": ind})
            ctx.count("blocks:" + kind)
    ctx.compare("_tokenize_literal/_doctest~Epytext.tokenize*", reqs, impls, pay)


def stream_splice(ctx: Ctx) -> None:
    from pydoctor.epydoc import doctest as D
    reqs, impls, pay = [], [], []
    n = 1500 if ctx.quick else 25000
    for _ in range(n):
        # code blocks
        src = "\n".join(ctx.rng.choice(PY_SNIPPETS) for _ in range(ctx.rng.randint(1, 5)))
        mt, ms = match_list(src)
        prev = 0
        for (a, b, k) in ms:
            if not (prev <= a <= b) or k == "NONE":
                ctx.fail("contract:DOCTEST_RE-spans", {"source": src}, "finditer spans overlap or decrease")
            prev = b
            if k == "DEFINE":
                g = D.DEFINE_FUNC_RE.match(src[a:b])
                if not g or "".join(g.group("def", "space", "name")) != src[a:b]:
                    ctx.fail("contract:DEFINE_FUNC_RE-groups", {"source": src}, "groups do not concatenate to the match")
        out = impl_codeblock(src)
        reqs.append("epytext codeblock %s %s" % (enc(src), mt))
        impls.append(out)
        pay.append({"codeblock": src})
        ctx.count("splice:codeblock")
        if out != "AssertionError":
            txt = "".join(dec(p.split(":", 1)[1]) for p in out.split() if p != "-")
            if txt != src:
                ctx.fail("codeblock:text-changed", {"codeblock": src}, "colorize_codeblock_body pieces do not concatenate to the input")
        # doctest bodies
        s = gen_doctest_text(ctx.rng)
        toks, exs = example_list(s)
        out = impl_doctestbody(s)
        reqs.append(("epytext doctestbody %s %s" % (enc(s), toks)).rstrip())
        impls.append(out)
        pay.append({"doctest": s})
        ctx.count("splice:doctestbody")
    ctx.compare("colorize_codeblock_body/doctest_body~Doctest.*", reqs, impls, pay)


def stream_plaintext(ctx: Ctx) -> None:
    from pydoctor.epydoc.markup import plaintext
    from twisted.web.template import Tag
    reqs, impls, pay = [], [], []
    n = 300 if ctx.quick else 5000
    for _ in range(n):
        s = rand_text(ctx.rng, ctx.rng.randint(0, 30), ALPHA + "\n\n&\"'\t*`")
        stan = plaintext.parse_docstring(s, []).to_stan(None)
        assert isinstance(stan, Tag) and stan.tagName == "p"
        reqs.append("epytext plaintext " + enc(s))
        impls.append(" ".join(enc(c) for c in stan.children))
        pay.append({"text": s})
    ctx.compare("plaintext.to_stan~plaintextToStan", reqs, impls, pay)
    ctx.count("stream:plaintext", n)


def run(ctx: Ctx) -> None:
    stream_tables(ctx)
    stream_target(ctx)
    stream_colorize(ctx)
    stream_visible(ctx)
    stream_blocks(ctx)
    stream_splice(ctx)
    stream_plaintext(ctx)


def replay(ctx: Ctx, obj) -> int:
    print(obj)
    return 0
