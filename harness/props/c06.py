"""C06 — the result does not depend on the order in which modules are analysed."""
from __future__ import annotations

import contextlib
import io
import itertools
from typing import Any, Dict, List, Optional, Tuple

from pathlib import Path

from ..core import Ctx, REPO
from ..gen.project import Gen, Knobs, Unit

THEOREMS = ["Schedule.process_terminates_drains", "Schedule.state_order_independent", "Schedule.one_bad_file",
            "Schedule.exit_status_range", "Schedule.exit_status_three_iff", "Schedule.exit_status_two_iff",
            "Schedule.acyclic_sees_final", "Schedule.body_view_acyclic", "Schedule.body_view_order_independent",
            "Schedule.cyclic_sees_unfinished", "Schedule.submodule_before_package_counterexample",
            "Schedule.package_before_submodule_example",
            "PostProcess.kind_pass_spec", "PostProcess.kind_pass_order_independent", "PostProcess.early_stop_order_dependent"]
RULE = ("generated projects (cross-module bases, star imports, __all__ re-exports, import cycles, unparsable files; plain imports whose "
        "importer's statements depend on the target being analysed; a star import taken before / after the single re-export; a "
        "sub-module asked for before its package; a re-exported sub-package with relative imports; the hunter's inputs verbatim) analysed "
        "under every reachable processing order for small projects (package first, its modules in any order, roots in any "
        "order; sampled beyond 120 orders). (a) the real processModule/getProcessedModule call log of every order is "
        "compared with the Lean Schedule model, whose import lists are read off ONE reference run; (b) the canonical dump "
        "of the documented objects (names, kinds, docstrings, resolved bases, linearisations, re-export locations) is "
        "compared across orders (direct oracle); (c) real packages (pydoctor's test packages alone and as pairs of roots, "
        "standard-library packages, pydoctor itself in the thorough tier) are analysed under shuffled depth-first orders and their "
        "canonical dumps compared. Orders are the reachable ones: depth-first, package first, siblings and roots in any order. Non-trivial = project with an import edge between siblings and at least "
        "two distinct orders.")
ASSUMPTIONS = ["which modules a body asks for (getProcessedModule targets: from-imports, and since 824faae every prefix a, a.b, a.b.c of a plain "
               "`import a.b.c`) is a function of the source text alone; read from a reference run (the `sees` events of the importer, in order). "
               "Nothing is expanded by the harness: the parents-first loop of getProcessedModule (0ba6723) is transcribed in the model "
               "(`Mod.above` = the module's parent chain, outermost first, read off the module tree; `Schedule.processAbove`), its nested "
               "processModule calls show as start/finish events in both logs and make no `sees` event in either",
               "for projects with import cycles only the class hierarchy (bases, linearisations) is required to agree, as the property says; "
               "a request for a package ABOVE the importer (`from . import x`) is not an import cycle for this purpose: Python has run that "
               "package's __init__ before the module whatever is imported first; the packages above a requested module ARE edges (they are "
               "entered first) unless they are the importer or above it — the same graph as the model's `Ranked`, used by the "
               "acyclic-import oracle and by the documented-objects oracle alike",
               "the cause named in a signature (plain import / sub-module before its package) is established by re-running the two orders "
               "with the corresponding repair emulated in-process; the emulation only NAMES a difference the oracle has already found"]
PARTIAL = {"Schedule.order_independent(documented objects)": "the theorems cover the scheduler (drain, once, final state, "
           "independent of the order) and, for acyclic projects, that every module body obtains each imported module in its "
           "final state and therefore observes the same sequence under every order (body_view_order_independent); that the "
           "documented objects are a function of those observations (no other cross-module state: re-export moves, late "
           "base resolution) is decided by the direct oracle"}


class SchedRec:
    """records processModule / getProcessedModule of the real System"""

    def __init__(self) -> None:
        self.log: List[str] = []
        self.stack: List[Any] = []
        self.ids: Dict[int, int] = {}
        self.early_children: set = set()        # modules analysed before the __init__ of a package above them
        self.plain_unanalysed: set = set()      # (scope, target) of plain imports that met a module not analysed yet
        self.moved_at_start: Dict[str, frozenset] = {}   # module -> the objects re-exports had moved when it was entered

    def mid(self, mod) -> int:
        return self.ids[id(mod)]

    def __enter__(self):
        from pydoctor import model
        rec = self
        self._pm = model.System.processModule
        self._gp = model.System.getProcessedModule

        def processModule(system, mod):
            i = rec.ids.get(id(mod))
            par = mod.parent
            while isinstance(par, model.Module):
                if par.state is model.ProcessingState.UNPROCESSED:
                    # a module analysed BEFORE the __init__ of a package above it (never Python's order)
                    rec.early_children.add(origin(mod).split("@")[0])
                    break
                par = par.parent
            rec.moved_at_start[origin(mod).split("@")[0]] = frozenset(og for og, _dst in rec.moves)
            rec.log.append("start%s" % i)
            rec.stack.append(mod)
            try:
                return rec._pm(system, mod)
            finally:
                rec.stack.pop()
                if mod.state is model.ProcessingState.PROCESSED:
                    rec.log.append("finish%s" % i)
                else:
                    rec.log.append("parseError%s" % i)

        def getProcessedModule(system, modname):
            r = rec._gp(system, modname)
            if r is not None and rec.stack and id(r) in rec.ids:
                st = {"UNPROCESSED": "U", "PROCESSING": "G", "PROCESSED": "D"}[r.state.name]
                rec.log.append("sees%s>%s%s" % (rec.ids[id(rec.stack[-1])], rec.ids[id(r)], st))
            return r
        self._ao = model.System.addObject
        self._rp = model.Documentable.reparent
        self.module_moved = False
        self.module_displaced = False
        from pydoctor import astbuilder
        self._vi = astbuilder.ModuleVistor.visit_Import

        def visit_Import(visitor, node):
            # `import a.b`: does the statement meet a project module that has not been analysed yet?
            if isinstance(visitor.builder.current, model.CanContainImportsDocumentable):
                for al in node.names:
                    parts = al.name.split(".")
                    for k in range(1, len(parts) + 1):
                        m = visitor.system.allobjects.get(".".join(parts[:k]))
                        if isinstance(m, model.Module) and m.state is model.ProcessingState.UNPROCESSED:
                            rec.plain_unanalysed.add((origin(visitor.builder.current).split("@")[0], al.name))
            return rec._vi(visitor, node)
        astbuilder.ModuleVistor.visit_Import = visit_Import

        self.moves: List[Tuple[str, str]] = []

        def reparent(obj, new_parent, new_name):
            if isinstance(obj, model.Module) or isinstance(obj.system.allobjects.get(new_parent.fullName() + "." + new_name), model.Module):
                # (also an object that takes over the full name of a module, `from .X import X` in a package: the
                # module is superseded and `pkg.X` stops denoting it — C07 hunter finding 2)
                rec.module_moved = True
                if not isinstance(obj, model.Module):
                    rec.module_displaced = True
            rec.moves.append((origin(obj), new_parent.fullName()))
            return rec._rp(obj, new_parent, new_name)
        model.Documentable.reparent = reparent

        def addObject(system, obj):
            if not isinstance(obj, model.Module) and isinstance(system.allobjects.get(obj.fullName()), model.Module):
                # a class / function / variable defined under the full name of a module (`class app` in the package
                # `app` that has a module app/app.py): from here on `app.app` stops denoting the module, so which
                # module a body asks for is no longer a function of its text (the model's assumption) — such
                # projects are left to the oracle, like the ones where a module is moved
                rec.module_moved = True
            if not hasattr(obj, "_verif_orig"):
                par = obj.parent
                obj._verif_orig = obj.name if par is None else getattr(par, "_verif_orig", par.fullName()) + "." + obj.name
            return rec._ao(system, obj)
        model.System.processModule = processModule
        model.System.getProcessedModule = getProcessedModule
        model.System.addObject = addObject
        return self

    def __exit__(self, *a):
        from pydoctor import model
        model.System.processModule = self._pm
        model.System.getProcessedModule = self._gp
        model.System.addObject = self._ao
        model.Documentable.reparent = self._rp
        from pydoctor import astbuilder
        astbuilder.ModuleVistor.visit_Import = self._vi


def build(units: List[Unit], order: Optional[List[int]], rec: Optional[SchedRec] = None):
    from pydoctor import model
    s = model.System()
    b = s.systemBuilder(s)
    for u in units:
        b.addModuleString(u.source, u.name, parent_name=u.parent, is_package=u.is_package)
    mods = list(s.unprocessed_modules)
    if rec is not None:
        for i, m in enumerate(mods):
            rec.ids[id(m)] = i
    if order is not None:
        s.unprocessed_modules[:] = [mods[i] for i in order]
    out = io.StringIO()
    with contextlib.redirect_stdout(out):
        b.buildModules()
    return s, mods, out.getvalue()


def valid_orders(units: List[Unit], rng, limit: int) -> List[List[int]]:
    """each package before its own modules; otherwise free (roots in any order)"""
    n = len(units)
    idx = {u.qname: i for i, u in enumerate(units)}
    parent = [idx.get(u.parent) if u.parent else None for u in units]

    children: Dict[Optional[int], List[int]] = {}
    for i in range(n):
        children.setdefault(parent[i], []).append(i)

    def size(i):
        return 1 + sum(size(c) for c in children.get(i, []))

    def ok(perm):
        # the builder adds a package, then everything below it, before the next sibling: a reachable order is a
        # depth-first order of the module tree (package first, its subtree contiguous)
        pos = {m: k for k, m in enumerate(perm)}
        if not all(parent[i] is None or pos[parent[i]] < pos[i] for i in range(n)):
            return False
        for i in range(n):
            sz = size(i)
            if sz > 1:
                sub = set()
                todo = [i]
                while todo:
                    x = todo.pop()
                    sub.add(x)
                    todo += children.get(x, [])
                if set(perm[pos[i]:pos[i] + sz]) != sub:
                    return False
        return True

    def dfs_shuffle():
        out: List[int] = []

        def go(k):
            out.append(k)
            cs = list(children.get(k, []))
            rng.shuffle(cs)
            for c in cs:
                go(c)
        roots = list(children.get(None, []))
        rng.shuffle(roots)
        for r in roots:
            go(r)
        return out
    if n <= 6:
        perms = [list(p) for p in itertools.permutations(range(n)) if ok(p)]
    else:
        perms = []
        tries = 0
        while len(perms) < limit * 2 and tries < limit * 40:
            tries += 1
            p = dfs_shuffle()
            if p not in perms:
                perms.append(p)
        ident = list(range(n))
        if ident not in perms:
            perms.insert(0, ident)
    if len(perms) > limit:
        first = list(range(n))
        rest = [p for p in perms if p != first]
        perms = [first] + rng.sample(rest, limit - 1)
    return perms


def origin(o) -> str:
    """definition site of an object: qualified name at creation + line (stable under re-export moves)"""
    return "%s@%s" % (getattr(o, "_verif_orig", o.fullName()), getattr(o, "linenumber", 0))


def real_corpus(quick: bool) -> List[Tuple[str, List[Path]]]:
    """real packages: pydoctor's own test packages (alone and in pairs of roots), a few standard-library packages,
    and (thorough) pydoctor itself"""
    import sysconfig
    tp = REPO / "pydoctor" / "test" / "testpackages"
    out: List[Tuple[str, List[Path]]] = []
    dirs = [d for d in sorted(tp.iterdir()) if d.is_dir() and not d.name.startswith("c_module") and (d / "__init__.py").exists()]
    for d in dirs:
        out.append(("testpackage:" + d.name, [d]))
    for a, b in (("allgames", "basic"), ("cyclic_imports", "cyclic_imports_base_classes"), ("reparented_module", "reparenting_follows_aliases")):
        if (tp / a).is_dir() and (tp / b).is_dir():
            out.append(("testpackages:%s+%s" % (a, b), [tp / a, tp / b]))
    std = Path(sysconfig.get_paths()["stdlib"])
    for n in (["json", "logging", "wsgiref"] if quick else ["json", "logging", "wsgiref", "email", "unittest", "xml", "importlib", "concurrent", "urllib", "http"]):
        if (std / n).is_dir():
            out.append(("stdlib:" + n, [std / n]))
    if not quick:
        out.append(("stdlib:json+logging+html", [std / "json", std / "logging", std / "html"]))
        out.append(("pydoctor", [REPO / "pydoctor"]))
    return out


def build_real(paths: List[Path], rng, shuffle: bool, names: Optional[List[str]] = None):
    """the real builder on real directories; the processing order is a depth-first order with shuffled siblings/roots
    (or the order given by `names`, module full names)"""
    from pydoctor import model
    s = model.System()
    s.options.verbosity = -9
    b = s.systemBuilder(s)
    out = io.StringIO()
    with contextlib.redirect_stdout(out):
        for p in paths:
            b.addModule(p)
        mods = list(s.unprocessed_modules)
        order = list(range(len(mods)))
        if shuffle:
            idx = {id(m): i for i, m in enumerate(mods)}
            children: Dict[Optional[int], List[int]] = {}
            for i, m in enumerate(mods):
                children.setdefault(idx.get(id(m.parent)) if m.parent is not None else None, []).append(i)
            order = []

            def go(k):
                order.append(k)
                cs = list(children.get(k, []))
                rng.shuffle(cs)
                for c in cs:
                    go(c)
            roots = list(children.get(None, []))
            rng.shuffle(roots)
            for r in roots:
                go(r)
            s.unprocessed_modules[:] = [mods[i] for i in order]
        if names is not None:
            byname = {m.fullName(): i for i, m in enumerate(mods)}
            order = [byname[n] for n in names]
            s.unprocessed_modules[:] = [mods[i] for i in order]
        onames = [m.fullName() for m in (mods[i] for i in order)]
        b.buildModules()
    return s, onames


def import_cycle_real(system) -> bool:
    """does the real package have an import cycle? read off the sources with ast (module-level and nested imports)"""
    import ast as _ast
    from pydoctor import model
    mods = {m.fullName(): m for m in system.allobjects.values() if isinstance(m, model.Module)}
    edges: Dict[str, set] = {}
    for q, m in mods.items():
        if m.source_path is None or not str(m.source_path).endswith(".py"):
            continue
        try:
            tree = _ast.parse(Path(m.source_path).read_bytes())
        except Exception:
            continue
        es = edges.setdefault(q, set())
        pkg = q if isinstance(m, model.Package) else q.rsplit(".", 1)[0] if "." in q else ""
        for node in _ast.walk(tree):
            if isinstance(node, _ast.ImportFrom):
                base = node.module or ""
                if node.level:
                    parts = pkg.split(".") if pkg else []
                    parts = parts[:len(parts) - (node.level - 1)] if node.level > 1 else parts
                    base = ".".join(parts + ([node.module] if node.module else []))
                if base in mods and not (q + ".").startswith(base + "."):
                    # (a request for the module itself or a package above it is no cycle: Python has run that
                    # __init__ before this module whatever was imported first)
                    es.add(base)
                for a in node.names:
                    if base + "." + a.name in mods:
                        es.add(base + "." + a.name)
    color: Dict[str, int] = {}

    def dfs(u):
        color[u] = 1
        for v in edges.get(u, ()):
            if color.get(v) == 1 or (color.get(v) is None and dfs(v)):
                return True
        color[u] = 2
        return False
    import sys
    sys.setrecursionlimit(max(sys.getrecursionlimit(), 5000))
    return any(color.get(u) is None and dfs(u) for u in list(edges))


def canon(system, hierarchy_only: bool) -> Dict[str, Any]:
    from pydoctor import model
    res: Dict[str, Any] = {}
    name = origin if hierarchy_only else (lambda x: x.fullName())
    for k, o in system.allobjects.items():
        e: Dict[str, Any] = {}
        if hierarchy_only:
            k = origin(o)
        if isinstance(o, model.Class):
            e["bases"] = [name(b) if b is not None else None for b in o.baseobjects]
            try:
                # for cyclic projects only the documented hierarchy has to agree: unresolved (string) bases are left out
                e["mro"] = [name(c) if isinstance(c, model.Documentable) else str(c) for c in o.mro(not hierarchy_only)]
            except Exception as ex:
                e["mro"] = "ERR:" + type(ex).__name__
        if not hierarchy_only:
            e["cls"] = type(o).__name__
            e["kind"] = o.kind.name if o.kind else None
            e["doc"] = o.docstring
            e["parent"] = o.parent.fullName() if o.parent else None
            if isinstance(o, model.Inheritable):
                e["docsources"] = [x.fullName() for x in o.docsources()]
            if isinstance(o, model.Class):
                try:
                    e["mro_resolved"] = [c.fullName() for c in o.mro(True) if isinstance(c, model.Documentable)]
                except Exception:
                    e["mro_resolved"] = None
        if e or not hierarchy_only:
            res[k] = e
    return res


def has_cycle(units: List[Unit], imports: Dict[int, List[int]]) -> bool:
    color: Dict[int, int] = {}

    def dfs(u):
        color[u] = 1
        for v in imports.get(u, []):
            if color.get(v) == 1:
                return True
            if color.get(v) is None and dfs(v):
                return True
        color[u] = 2
        return False
    return any(color.get(u) is None and dfs(u) for u in range(len(units)))


def inheritance_cycle(system) -> bool:
    from pydoctor import model
    color = {}

    def bases_of(c):
        # resolved bases, and — when the hierarchy is cyclic pydoctor gives up resolving some of them — the classes
        # registered under the names the base expressions expand to
        out = [b for b in c.baseobjects if b is not None]
        for n in list(getattr(c, "_initialbases", []) or []) + list(c.bases):
            b = system.allobjects.get(n)
            if isinstance(b, model.Class) and all(b is not x for x in out):
                out.append(b)
        return out

    def dfs(c):
        color[id(c)] = 1
        for b in bases_of(c):
            if b is None:
                continue
            if color.get(id(b)) == 1 or (color.get(id(b)) is None and dfs(b)):
                return True
        color[id(c)] = 2
        return False
    return any(color.get(id(c)) is None and dfs(c) for c in system.allobjects.values() if isinstance(c, model.Class))


def star_in_cycle(units: List[Unit], imports: Dict[int, List[int]]) -> bool:
    """is there a `from m import *` whose target lies on an import cycle through the importer?
    (Python's own result then depends on which module is imported first: outside the property)"""
    import re
    idx = {u.qname: i for i, u in enumerate(units)}

    def reach(a, b):
        seen, todo = set(), [a]
        while todo:
            x = todo.pop()
            for y in imports.get(x, []):
                if y == b:
                    return True
                if y not in seen:
                    seen.add(y)
                    todo.append(y)
        return False
    for i, u in enumerate(units):
        for m in re.finditer(r"^from (\S+) import \*", u.source, re.M):
            t = idx.get(m.group(1))
            if t is not None and (t == i or reach(t, i)):
                return True
    return False


def reexport_in_cycle(units: List[Unit], imports: Dict[int, List[int]]) -> bool:
    """is there a module that lists in its `__all__` a name it takes with `from m import name` from a module `m` that lies
    on an import cycle through the importer?  Python executes that statement only if `m` has bound the name already,
    i.e. the program is importable from one entry point and raises ImportError from the other (pydoctor moves the
    object in one order and finds nothing to move in the other): like a star import inside a cycle, outside the property"""
    import re
    idx = {u.qname: i for i, u in enumerate(units)}

    def reach(a, b):
        seen, todo = set(), [a]
        while todo:
            x = todo.pop()
            for y in imports.get(x, []):
                if y == b:
                    return True
                if y not in seen:
                    seen.add(y)
                    todo.append(y)
        return False
    for i, u in enumerate(units):
        ma = re.search(r"^__all__\s*(?::[^=]*)?=\s*(\[.*?\])", u.source, re.M | re.S)
        if not ma:
            continue
        exported = set(re.findall(r"['\"]([^'\"]+)['\"]", ma.group(1)))
        pkg = u.qname if u.is_package else (u.parent or "")
        for m in re.finditer(r"^from (\.*)([\w.]*) import ([^\n(]+)", u.source, re.M):
            dots, name, what = m.groups()
            if dots:
                parts = pkg.split(".") if pkg else []
                parts = parts[:len(parts) - (len(dots) - 1)] if len(dots) > 1 else parts
                name = ".".join(parts + ([name] if name else []))
            t = idx.get(name)
            if t is None or not (t == i or reach(t, i)):
                continue
            for item in what.split(","):
                bits = item.split()
                if bits and (bits[-1] in exported):
                    return True
    return False


def moved_origins(system) -> set:
    return {origin(o) for o in system.allobjects.values()
            if getattr(o, "_verif_orig", None) is not None and o._verif_orig != o.fullName() and " " not in o.name}


def diff_sig(a: Dict[str, Any], b: Dict[str, Any], moved: set = frozenset(), displaced: bool = False) -> Tuple[str, str]:
    """shape of the FIRST difference (the fallback of `classify`);
    `displaced`: a re-export moved an object onto the full name of a module (`from .X import X` in a package)"""
    ka, kb = set(a), set(b)
    if ka != kb:
        d = sorted(ka ^ kb)
        both = {**a, **b}
        # (1) every extra object is an ATTRIBUTE of a class one of whose (documented) ancestors has a member of that
        # name: `meth = deco(Base.meth)` in a class body is a wrapped inherited method when the base is known while
        # the body is visited, a new attribute when it is not (known finding: base imported from the defining module
        # of a class that a sibling re-exports)
        def shadows_inherited(k):
            e = both[k]
            par = e.get("parent")
            if e.get("cls") not in ("Attribute", "ZopeInterfaceAttribute") or par not in both:
                return False
            nm = k[len(par) + 1:]
            for x in (a, b):
                for anc in ((x.get(par) or {}).get("mro_resolved") or [])[1:]:
                    if anc + "." + nm in x:
                        return True
            return False
        if all(shadows_inherited(k) for k in d):
            return "attribute-wrapping-inherited-method", f"documented under one order only: {d[:4]}"
        # (2) zope.interface: `I = SomeInterfaceClass('I')` documented as an interface class (the variable superseded:
        # `I 0`) under one order and as a plain variable under the other
        if all(k.endswith(" 0") and k[:-2] in ka and k[:-2] in kb and {a[k[:-2]].get("cls"), b[k[:-2]].get("cls")} == {"Class", "Attribute"} for k in d):
            return "zope-kind-of-moved-interface", f"documented under one order only: {d[:4]}"
        return "objects-differ", f"documented under one order only: {d[:4]}"
    for k in a:
        if a[k] != b[k]:
            for f in ("bases", "mro", "kind", "doc", "parent", "cls", "docsources"):
                if a[k].get(f) != b[k].get(f):
                    if f == "bases" and len(a[k][f]) == len(b[k][f]):
                        # a base that is unresolved in one order and a moved (re-exported) object in the other
                        pairs = [(x, y) for x, y in zip(a[k][f], b[k][f]) if x != y]
                        if pairs and all((x is None) != (y is None) and ((x or y) in moved) for x, y in pairs):
                            if displaced:
                                # C07 hunter finding 2: the base was moved onto the full name of its own defining
                                # module (`from .X import X`); the old name `pkg.X.X` finds nothing afterwards
                                return "base-moved-onto-the-name-of-its-module", f"{k}: bases {a[k][f]!r} vs {b[k][f]!r}"
                            return "moved-base-unresolved", f"{k}: bases {a[k][f]!r} vs {b[k][f]!r}"
                    if f == "mro" and a[k].get("bases") == b[k].get("bases") and a[k].get("mro_resolved") == b[k].get("mro_resolved") \
                            and a[k].get("mro_resolved") is not None:
                        # same documented classes in the same order: only the NAME shown for a base that is not
                        # documented differs
                        return "unresolved-base-name-differs", f"{k}: {f} {a[k].get(f)!r} vs {b[k].get(f)!r}"
                    if f in ("kind", "cls") and {a[k].get("kind"), b[k].get("kind")} in ({"INTERFACE", "CLASS"}, {"SCHEMA_FIELD", "CLASS_VARIABLE"},
                                                                                              {"SCHEMA_FIELD", "INSTANCE_VARIABLE"}, {"ATTRIBUTE", "CLASS_VARIABLE"}):
                        return "zope-kind-of-moved-interface", f"{k}: {f} {a[k].get(f)!r} vs {b[k].get(f)!r}"
                    return f + "-differs", f"{k}: {f} {a[k].get(f)!r} vs {b[k].get(f)!r}"
    return "?", "?"


@contextlib.contextmanager
def emulate(plain_import: bool = False, parents_first: bool = False):
    """in-process emulation of two repairs that are NOT in the tree, used only to name the cause of a difference the
    oracle has already found (a difference that disappears under the emulation has that cause):
    plain_import  — `import a.b` analyses a, a.b first (what `from a.b import x` does today);
    parents_first — getProcessedModule analyses the not yet analysed packages above a module first, outermost first"""
    from pydoctor import model, astbuilder
    gp = model.System.getProcessedModule
    vi = astbuilder.ModuleVistor.visit_Import
    U = model.ProcessingState.UNPROCESSED

    def getProcessedModule(system, modname):
        mod = system.allobjects.get(modname)
        if mod is None:
            try:
                mod = system.find_object(modname)
            except LookupError:
                mod = None
        if isinstance(mod, model.Module) and mod.state is U:
            chain = []
            par = mod.parent
            while isinstance(par, model.Module):
                chain.append(par)
                par = par.parent
            for par in reversed(chain):
                if par.state is U:
                    system.processModule(par)
        return gp(system, modname)

    def visit_Import(visitor, node):
        if isinstance(visitor.builder.current, model.CanContainImportsDocumentable):
            for al in node.names:
                parts = al.name.split(".")
                for k in range(1, len(parts) + 1):
                    visitor.system.getProcessedModule(".".join(parts[:k]))
        return vi(visitor, node)
    if parents_first:
        model.System.getProcessedModule = getProcessedModule
    if plain_import:
        astbuilder.ModuleVistor.visit_Import = visit_Import
    try:
        yield
    finally:
        model.System.getProcessedModule = gp
        astbuilder.ModuleVistor.visit_Import = vi


def agree_under(builder, o1, o2, hierarchy_only: bool, **emu) -> bool:
    """do the two orders give the same canonical dump when the named repair is emulated?"""
    dumps = []
    for od in (o1, o2):
        try:
            with SchedRec() as rec, emulate(**emu):
                s = builder(od, rec)
            dumps.append(canon(s, hierarchy_only))
        except Exception:
            return False
    return dumps[0] == dumps[1]


def diff_items(a: Dict[str, Any], b: Dict[str, Any]) -> List[Tuple[str, str, Any, Any]]:
    """EVERY difference between two canonical dumps: (object, field, value under a, value under b); field `present`
    for an object documented under one order only"""
    out: List[Tuple[str, str, Any, Any]] = []
    for k in sorted(set(a) | set(b)):
        if k not in a or k not in b:
            out.append((k, "present", k in a, k in b))
            continue
        for f in sorted(set(a[k]) | set(b[k])):
            if a[k].get(f) != b[k].get(f):
                out.append((k, f, a[k].get(f), b[k].get(f)))
    return out


ZOPE_KIND_PAIRS = ({"INTERFACE", "CLASS"}, {"SCHEMA_FIELD", "CLASS_VARIABLE"}, {"SCHEMA_FIELD", "INSTANCE_VARIABLE"}, {"ATTRIBUTE", "CLASS_VARIABLE"})


def item_shapes(a: Dict[str, Any], b: Dict[str, Any], src: Dict[str, str]) -> List[Tuple[Tuple[str, str, Any, Any], str]]:
    """what KIND of difference each item is — the effects a look-up at visit time that misses its target is known
    to have (anything else is `other`):
    wrap      an extra ATTRIBUTE of a class one of whose documented ancestors has a member of that name
              (`meth = deco(Base.meth)`, `self.meth = …`: a new attribute only when the base is not known)
    zope      INTERFACE / CLASS, SCHEMA_FIELD / variable, `I = SomeInterfaceClass('I')` class / variable
    docassign a docstring that is, under one order, the literal some module assigns with `….__doc__ = '…'`
    typealias VARIABLE / TYPE_ALIAS (`X: mod.TypeAlias = …`)"""
    import re
    both = {**a, **b}
    assigned = set()
    for text in src.values():
        for m in re.finditer(r"^\s*[\w.]+\.__doc__\s*=\s*(['\"])(.*?)\1\s*$", text, re.M):
            assigned.add(m.group(2))

    def shadows_inherited(k):
        e = both[k]
        par = e.get("parent")
        if e.get("cls") not in ("Attribute", "ZopeInterfaceAttribute") or par not in both:
            return False
        nm = k[len(par) + 1:]
        for x in (a, b):
            for anc in ((x.get(par) or {}).get("mro_resolved") or [])[1:]:
                if anc + "." + nm in x:
                    return True
        return False

    def dyn_interface(k):
        return k in a and k in b and {a[k].get("cls"), b[k].get("cls")} == {"Class", "Attribute"} and (k + " 0" in a or k + " 0" in b)
    out = []
    for it in diff_items(a, b):
        k, f, x, y = it
        shape = "other"
        if f == "present":
            if k.endswith(" 0") and dyn_interface(k[:-2]):
                shape = "zope"
            elif shadows_inherited(k):
                shape = "wrap"
        elif dyn_interface(k):
            shape = "zope"
        elif f == "kind" and {x, y} in ZOPE_KIND_PAIRS:
            shape = "zope"
        elif f == "kind" and {x, y} == {"VARIABLE", "TYPE_ALIAS"}:
            shape = "typealias"
        elif f == "doc" and (x in assigned or y in assigned):
            shape = "docassign"
        out.append((it, shape))
    return out


def stale_star_base(a: Dict[str, Any], b: Dict[str, Any], moved: set, src: Dict[str, str]) -> bool:
    """every difference is a base class that is a moved (re-exported) object under one order and unresolved under the
    other, where the unresolved NAME leads through a module that took the object with a star import"""
    import re
    star_mods = {q for q, text in src.items() if re.search(r"^from \S+ import \*", text, re.M)}
    items = diff_items(a, b)
    if not items or not star_mods:
        return False
    for k, f, x, y in items:
        if f not in ("bases", "mro", "mro_resolved"):
            return False
        if f == "bases":
            if not isinstance(x, list) or not isinstance(y, list) or len(x) != len(y):
                return False
            for p, q_ in zip(x, y):
                if p != q_ and ((p is None) == (q_ is None) or (p or q_) not in moved):
                    return False
            for dump, bases, other in ((a, x, y), (b, y, x)):
                if any(p is None and q_ is not None for p, q_ in zip(bases, other)):
                    names = [n for n in (dump[k].get("mro") or []) if isinstance(n, str) and n not in dump]
                    if not any(n.rsplit(".", 1)[0] in star_mods for n in names):
                        return False
    return True


def classify(a: Dict[str, Any], b: Dict[str, Any], moved: set, src: Dict[str, str], tag: str, reexp: bool,
             ev_a, ev_b, counterfactual, displaced: bool = False) -> Tuple[str, str]:
    """full signature of an order dependence: the cause where it can be named (recorded event that differs between
    the two orders + the difference disappears when the corresponding repair is emulated + every single difference
    has a shape that cause is known to produce), the shape of the first difference otherwise.  `ev_*` =
    (plain_unanalysed, early_children) of the two runs; `counterfactual(**emu)` re-runs the two orders."""
    shapes = item_shapes(a, b, src) if tag != "cyclic" else []
    kinds = {sh for _it, sh in shapes}
    first = "%s: %s %r vs %r" % shapes[0][0] if shapes else ""
    if ev_a[0] != ev_b[0] and shapes and kinds <= {"wrap", "zope", "docassign", "typealias"} and counterfactual(plain_import=True):
        return "order-dependent:plain-import:target-not-analysed", first
    if ev_a[1] != ev_b[1]:
        its = diff_items(a, b)
        # what a re-export that is done under one order and finds nothing under the other changes: where objects are
        # documented, what the bases are called / resolve to — and, when the moved object takes over the name of its
        # module (`from .X import X`), which KIND of object sits under that name (every field of it differs then)
        other_kind = {k for k, f, _x, _y in its if f == "cls"}
        if all(f in ("present", "bases", "mro", "mro_resolved", "parent", "docsources") or k in other_kind for k, f, _x, _y in its) \
                and counterfactual(parents_first=True):
            return "order-dependent:submodule-analysed-before-its-package", "%s: %s %r vs %r" % its[0]
    def visit_time_direction() -> bool:
        # the open zope finding is a VISIT-TIME look-up that misses a base a re-export has moved already: the class is the
        # plain CLASS under the order in which MORE had been moved when its module was entered.  An INTERFACE / CLASS
        # difference in the other direction (or with the same moves before the module) has another cause
        right = seen = False
        for (k, f, x, y), sh in shapes:
            if sh == "zope" and f == "kind" and {x, y} == {"INTERFACE", "CLASS"}:
                mod = max((q for q in src if (k + ".").startswith(q + ".")), key=len, default=None)
                if mod is None:
                    return False
                ma, mb = ev_a[2].get(mod, frozenset()), ev_b[2].get(mod, frozenset())
                lesser, greater = (ma, mb) if x == "CLASS" else (mb, ma)
                if lesser < greater:
                    return False        # the plain CLASS where LESS had been moved: not a visit-time miss
                right = right or greater < lesser       # (equal: a subclass that follows its base's kind)
                seen = True
        return right or not seen
    if reexp and shapes and kinds <= {"wrap", "zope", "docassign"} and all(sh != "docassign" or it[0] in moved for it, sh in shapes) \
            and visit_time_direction():
        sig = "attribute-wrapping-inherited-method" if "wrap" in kinds else "zope-kind-of-moved-interface" if "zope" in kinds \
            else "docstring-assignment-to-moved-object"
        return "order-dependent:reexport:" + sig, first
    if tag != "cyclic" and stale_star_base(a, b, moved, src):
        return "order-dependent:reexport:stale-star-import-of-moved-base", first
    sig, what = diff_sig(a, b, moved, displaced)
    if sig == "base-moved-onto-the-name-of-its-module":
        tag = "reexport"
    if sig in ("attribute-wrapping-inherited-method", "zope-kind-of-moved-interface"):
        # the open findings of that name are the cases above, where EVERY difference has the shape (and the direction of
        # a visit-time look-up); here something else differs too, or the direction is the other one
        other = [it for it, sh in shapes if sh == "other"] or [it for it, sh in shapes if sh == "zope" and it[1] == "kind"]
        sig, what = "objects-differ" if other and other[0][1] == "present" else (other[0][1] + "-differs" if other else "kind-differs"), \
            ("%s: %s %r vs %r" % other[0] if other else what)
    if sig == "moved-base-unresolved":
        tag, sig = "reexport", "bases-differs"
    return "order-dependent:%s:%s" % (tag, sig), what


def submodule_scenario(rng) -> List[Unit]:
    """a package that publishes a sub-module of ANOTHER package (perhaps under another name); the sub-module
    resolves its bases through relative or absolute imports; roots / siblings in any order"""
    rel = rng.random() < 0.6
    alias = rng.choice(["ui", "widgets", "w2"])
    roots = rng.random() < 0.5
    core, api = ("corelib", "api") if roots else ("top.corelib", "top.api")
    if rel:
        base_imp = rng.choice(["from .base import Widget", "from . import base", "from %s.base import Widget" % core,
                               "import %s.base as base" % core])
    else:
        base_imp = rng.choice(["from %s.base import Widget" % core, "import %s.base as base" % core])
    bexpr = "Widget" if "import Widget" in base_imp else "base.Widget"
    widgets = [base_imp, "class Button(%s):" % bexpr, "    pass", "class Label(%s):" % bexpr, "    pass"]
    imp = "from %s import widgets%s" % (core, "" if alias == "widgets" else " as " + alias)
    apisrc = [imp, "__all__ = [%r]" % alias]
    if rng.random() < 0.3:
        apisrc.insert(1, "class Panel(%s.Button):\n    pass" % alias)
    units: List[Unit] = []
    if not roots:
        units.append(Unit("top", True, "x = 1\n", None))
    par = None if roots else "top"
    pk = [Unit(core, True, "y = 1\n", par),
          Unit(core + ".base", False, "class Widget:\n    def draw(self): pass\n", core),
          Unit(core + ".widgets", False, "\n".join(widgets) + "\n", core)]
    ap = [Unit(api, True, "\n".join(apisrc) + "\n", par)]
    if rng.random() < 0.5:
        ap.append(Unit(api + ".extra", False, "from %s import %s\nclass X(%s.Label):\n    pass\n" % (api, alias, alias), api))
    units += (pk + ap) if rng.random() < 0.5 else (ap + pk)
    return units


EXTERNAL_BASES = ["Exception", "OSError", "ValueError", "object", "dict", "KeyError"]


def hierarchy_scenario(rng) -> List[Unit]:
    """class hierarchies spread over modules that reach one another through PLAIN imports (`import m`, `import p.m as a`:
    these do not make pydoctor analyse the target first, so a subclass can be registered before its base), mixed with
    from-imports; external bases (exception kinds), diamonds, class bodies that bind a name equal to the module a base
    comes from, and attributes that are instance variables at the top of a chain and class variables below"""
    Q = "'" * 3
    inpkg = rng.random() < 0.5
    n = rng.choice([2, 3, 3, 4])
    names = rng.sample(["alpha", "beta", "errors", "gamma", "zeta", "core"], n)
    q = (lambda m: "hp." + m) if inpkg else (lambda m: m)
    classes: List[Tuple[int, str, bool]] = []       # (module index, class name, has ivar `title`)
    units: List[Unit] = []
    cn = 0
    attr = "title"
    # seeded C06-r6-2: nested classes `Inner` reached THROUGH a class (`class X(K.Inner)`) whose linearisation may be
    # incomplete when the module is analysed in the middle of another one
    has_inner: Dict[str, bool] = {}
    # (its own random stream, derived from what has been drawn so far: the main stream - and with it every project the
    # earlier rounds were measured on - stays what it was)
    import random as _random
    rng2 = _random.Random("inner:%s:%s" % (",".join(names), inpkg))
    with_inner = rng2.random() < 0.5
    for i, m in enumerate(names):
        lines: List[str] = [Q + "module %s" % m + Q]
        imported: Dict[int, str] = {}                # module index -> expression prefix usable for its classes
        body: List[str] = []
        for _ in range(rng.choice([1, 1, 2])):
            cn += 1
            cname = "K%d" % cn
            bases: List[str] = []
            shadow: List[str] = []
            prev = [c for c in classes if c[0] < i]
            same = [c for c in classes if c[0] == i]
            k = rng.choice([0, 1, 1, 1, 2]) if prev else 0
            chosen = rng.sample(prev, min(k, len(prev)))
            # keep the linearisation consistent: never list a class after one of its own subclasses
            chosen.sort(key=lambda c: -classes.index(c))
            for (mi, bn, _iv) in chosen:
                if mi not in imported:
                    form = rng.choice(["import", "import", "import_as", "from"])
                    tq = q(names[mi])
                    if form == "import":
                        lines.append("import " + tq)
                        imported[mi] = tq
                    elif form == "import_as":
                        lines.append("import %s as %s_" % (tq, names[mi]))
                        imported[mi] = names[mi] + "_"
                    else:
                        imported[mi] = ""
                if imported[mi] == "":
                    if ("from %s import %s" % (q(names[mi]), bn)) not in lines:
                        lines.append("from %s import %s" % (q(names[mi]), bn))
                    bases.append(bn)
                else:
                    bases.append(imported[mi] + "." + bn)
                    if rng.random() < 0.4:
                        shadow.append(imported[mi].split(".")[0])
            if same and not chosen and rng.random() < 0.4:
                bases.append(rng.choice(same)[1])
            if rng.random() < (0.6 if not bases else 0.15):
                bases.append(rng.choice(EXTERNAL_BASES))
            body.append("class %s%s:" % (cname, "(%s)" % ", ".join(bases) if bases else ""))
            if rng.random() < 0.6:
                body.append("    " + Q + "doc of %s" % cname + Q)
            iv = False
            r = rng.random()
            if r < 0.35:
                body += ["    def __init__(self):", "        self.%s = None" % attr, "        " + Q + "the %s" % attr + Q]
                iv = True
            elif r < 0.8:
                body.append("    %s = %r" % (attr, cname))
            for sh in shadow:
                body.append("    %s = []" % sh)
            if rng.random() < 0.5:
                body += ["    def describe(self):", ("        " + Q + "describe %s" % cname + Q) if rng.random() < 0.5 else "        pass"]
            own_inner = with_inner and rng2.random() < 0.5
            if own_inner:
                body += ["    class Inner:", "        " + Q + "Inner of %s" % cname + Q]
            if body[-1].startswith("class "):
                body.append("    pass")
            has_inner[cname] = own_inner or any(has_inner.get(bn, False) for (_mi, bn, _iv) in chosen)
            if has_inner[cname] and rng2.random() < 0.6:
                body += ["class X%d(%s.Inner):" % (cn, cname), "    " + Q + "through %s" % cname + Q]
            classes.append((i, cname, iv))
        units.append(Unit(q(m), False, "\n".join(lines + body) + "\n", "hp" if inpkg else None))
    if rng.random() < 0.5 and len(units) > 1:
        # since 824faae a plain import analyses its target, so a subclass is registered before its base only through an
        # import cycle: the usual one is a back-import under `if TYPE_CHECKING:` (never executed by Python, visited by
        # pydoctor) at the top of the module that holds the base — the later module is then analysed in the middle
        # of the earlier one when that comes first (the property promises the class hierarchy there)
        users = sorted({i for (i, _c, _iv) in classes if i > 0})
        if users:
            j = rng.choice(users)
            k = rng.randrange(0, j)
            tgt = next(u for u in units if u.qname == q(names[k]))
            lines = tgt.source.split("\n")
            guard = ["from typing import TYPE_CHECKING", "if TYPE_CHECKING:", "    " + rng.choice(["import %s", "from %s import *", "import %s as _later"]) % q(names[j])]
            units[units.index(tgt)] = Unit(tgt.qname, False, "\n".join(lines[:1] + guard + lines[1:]), tgt.parent)
    rng.shuffle(units)
    if inpkg:
        units.insert(0, Unit("hp", True, Q + "package" + Q + "\n", None))
    return units


def alias_scenario(rng) -> List[Unit]:
    """a package that publishes classes of its sub-modules by ASSIGNMENT after a plain import
    (`import pk.impl` / `Thing = pk.impl.Thing`, or `from pk import impl` / `Thing = impl.Thing`), consumers that
    derive from the published name; sibling names chosen so that the consumer sorts before and after the definer"""
    pk = rng.choice(["pk", "lib"])
    impl = rng.choice(["impl", "zimpl", "_impl"])
    cons = rng.choice(["aaa", "use", "zzz"])
    form = rng.choice(["plain", "plain", "from", "as"])
    # `foreign`: the published class lives in a ROOT module (not below the publishing package) that imports the consumer
    # back under `if TYPE_CHECKING:` — taken up first, that module makes the package bind `Thing` to a class that does
    # not exist yet, and the consumer look it up at that moment
    foreign = rng.random() < 0.5
    implq = rng.choice(["aimpl", "zimpl"]) if foreign else "%s.%s" % (pk, impl)
    if foreign:
        init = ["import %s" % implq, "Thing = %s.Thing" % implq] if form != "as" else ["import %s as _m" % implq, "Thing = _m.Thing"]
    elif form == "plain":
        init = ["import %s.%s" % (pk, impl), "Thing = %s.%s.Thing" % (pk, impl)]
    elif form == "from":
        init = ["from %s import %s" % (pk, impl), "Thing = %s.Thing" % impl]
    else:
        init = ["import %s.%s as _m" % (pk, impl), "Thing = _m.Thing"]
    if rng.random() < 0.5:
        init.append("Other = Thing")
    base = rng.choice(["Thing", "Thing", "Other"]) if "Other = Thing" in init else "Thing"
    implsrc = ["class Root(%s):" % rng.choice(["Exception", "object", "dict"]), "    def hook(self):", "        'hook doc'",
               "class Thing(Root):", "    'thing doc'", "    level = 1"]
    cimp = rng.choice(["from %s import %s" % (pk, base), "import %s" % pk, "from %s import %s as T" % (pk, base)])
    bexpr = base if cimp.startswith("from") and " as " not in cimp else ("T" if " as T" in cimp else "%s.%s" % (pk, base))
    conssrc = [cimp, "class Special(%s):" % bexpr, "    def hook(self):", "        pass", "    level = 2"]
    inside = rng.random() < 0.5
    consq = "%s.%s" % (pk, cons) if inside else rng.choice(["app", "zapp"])
    if foreign or rng.random() < 0.4:
        # a back-import of the consumer under `if TYPE_CHECKING:` in the implementation module: the consumer can then
        # be analysed while the package has not bound the published name yet (import cycle: hierarchy only)
        implsrc = ["from typing import TYPE_CHECKING", "if TYPE_CHECKING:", "    import %s" % consq] + implsrc
    units = [Unit(pk, True, "\n".join(init) + "\n", None),
             Unit("%s.%s" % (pk, impl), False, "\n".join(implsrc) + "\n", pk)]
    if foreign:
        units = rng.choice([[units[0], Unit(implq, False, "\n".join(implsrc) + "\n", None)], [Unit(implq, False, "\n".join(implsrc) + "\n", None), units[0]]])
    if inside:
        units.append(Unit(consq, False, "\n".join(conssrc) + "\n", pk))
    else:
        top = Unit(consq, False, "\n".join(conssrc) + "\n", None)
        units = ([top] + units) if rng.random() < 0.5 else (units + [top])
    return units


def wrap_scenario(rng) -> List[Unit]:
    """a class re-exported by a SIBLING module (`api`: from-import + __all__) while a third module derives from it
    through the defining module's name; the subclass body holds statements whose meaning depends on the base being
    KNOWN while the body is visited: `meth = deco(Base.meth)` (a wrapped inherited method, not a new attribute),
    and, in the zope flavour, `class ISub(IBase)` (interface or plain class), a schema field made from a moved field
    class, an interface made by calling a moved InterfaceClass subclass"""
    pk = rng.choice(["wp", "lib"])
    impl = rng.choice(["_impl", "impl", "zimpl"])
    api = rng.choice(["api", "aapi", "zapi"])
    user = rng.choice(["user", "auser", "zuser"])
    zope = rng.random() < 0.4
    src_from = rng.choice(["definer", "definer", "reexporter"])
    if zope:
        implsrc = ["from zope.interface import Interface", "from zope.interface.interface import InterfaceClass", "from zope import schema",
                   "class IBase(Interface):", "    def meth(a):", "        'meth doc'",
                   "class MyIC(InterfaceClass):", "    pass", "class MyField(schema.Field):", "    pass"]
        names = ["IBase", "MyIC", "MyField"]
        moved = rng.sample(names, rng.randint(1, 3))
        usersrc = ["from .%s import %s" % (impl if src_from == "definer" else api, ", ".join(names)),
                   "class ISub(IBase):", "    f = MyField()", "IDyn = MyIC('IDyn')"]
    else:
        chain = rng.random() < 0.5
        if chain:
            # an instance variable overridden by class variables in the re-exported class AND in the user's subclass
            implsrc = ["class Root:", "    def __init__(self):", "        self.sides = 0", "        'number of sides'",
                       "class X(Root):", "    def meth(self):", "        'meth doc'", "    attr = 1", "    sides = 3", "def deco(f):", "    return f"]
        else:
            implsrc = ["class X:", "    def meth(self):", "        'meth doc'", "    attr = 1", "def deco(f):", "    return f"]
        if rng.random() < 0.5:
            # an exception hierarchy across the re-export: the move re-registers X at the END of System.allobjects, so
            # that the user's subclass can come before its base in every pass over the objects
            implsrc = [ln.replace("class Root:", "class Root(Exception):").replace("class X:", "class X(ValueError):") for ln in implsrc]
        moved = ["X"]
        form = rng.choice(["from", "from", "module"])
        if form == "from":
            usersrc = ["from .%s import X" % (impl if src_from == "definer" else api), "from .%s import deco" % impl]
            bx = "X"
        else:
            usersrc = ["from . import %s as _m" % (impl if src_from == "definer" else api), "from .%s import deco" % impl]
            bx = "_m.X"
        r = rng.random()
        if r < 0.75:
            usersrc += ["class Y(%s):" % bx, "    meth = deco(%s.meth)" % bx, "    attr = deco(%s.attr)" % bx, "    other = deco(len)"]
        if r > 0.5:
            # (hunter, noticed) the docstring assigned through the name the object was imported under
            usersrc.append("%s.__doc__ = 'documented by the user module'" % bx)
        if chain:
            usersrc += ["class Square(%s):" % bx, "    sides = 4"]
    apisrc = ["from .%s import %s" % (impl, ", ".join(moved)), "__all__ = %r" % moved]
    units = [Unit(pk, True, "", None), Unit("%s.%s" % (pk, impl), False, "\n".join(implsrc) + "\n", pk),
             Unit("%s.%s" % (pk, api), False, "\n".join(apisrc) + "\n", pk),
             Unit("%s.%s" % (pk, user), False, "\n".join(usersrc) + "\n", pk)]
    tail = units[1:]
    rng.shuffle(tail)
    return [units[0]] + tail


def plain_body_scenario(rng) -> List[Unit]:
    """hunter finding 1: a module reached through a PLAIN import (`import m`, `import p.m`, `import p.m as a` — which
    does not make pydoctor analyse `m` first) and an importer whose statements mean different things depending on
    whether `m` has been analysed: `meth = deco(m.B.meth)` in a subclass body, `self.meth2 = …` in its __init__,
    `m.helper.__doc__ = …`, `m.B.__doc__ = …`, `LIMIT: m.Final = 3` / `Num: m.TypeAlias = …` (typing names reached
    through the module), and the zope flavour (`class ISub(m.IBase)`, `f = m.MyField()`, `IDyn = m.MyIC('IDyn')`).
    No cycle, no re-export; roots or modules of one package, the importer sorting before or after the imported module"""
    Q = "'" * 3
    inpkg = rng.random() < 0.5
    base = rng.choice(["base", "mbase", "zbase"])
    user = rng.choice(["user", "a_user", "zuser"])
    q = (lambda m: "top." + m) if inpkg else (lambda m: m)
    form = rng.choice(["import", "import", "import_as"] + (["from_as"] if inpkg else []))
    if form == "import":
        imp, pref = "import " + q(base), q(base)
    elif form == "from_as":
        # `from <package> import <sub-module> as <alias>`: the sub-module is analysed on demand under its REAL name
        imp, pref = "from top import %s as _b" % base, "_b"
    else:
        imp, pref = "import %s as _b" % q(base), "_b"
    zope = rng.random() < 0.3
    if zope:
        basesrc = ["from zope.interface import Interface", "from zope.interface.interface import InterfaceClass", "from zope import schema",
                   "class IBase(Interface):", "    def meth(a):", "        'meth doc'",
                   "class MyIC(InterfaceClass):", "    pass", "class MyField(schema.Field):", "    pass"]
        feats = rng.sample(["isub", "field", "idyn"], rng.randint(1, 3))
        usersrc = [imp]
        if "isub" in feats or "field" in feats:
            usersrc.append("class ISub(%s):" % (pref + ".IBase" if "isub" in feats else "object"))
            usersrc.append("    f = %s.MyField()" % pref if "field" in feats else "    pass")
        if "idyn" in feats:
            usersrc.append("IDyn = %s.MyIC('IDyn')" % pref)
        others = ["from %s import IBase" % q(base), "class IOther(IBase):", "    pass"]
    else:
        basesrc = ["from typing import Final, TypeAlias", "class B:", "    " + Q + "doc of B" + Q, "    def meth(self):", "        'a method'",
                   "    def meth2(self):", "        pass", "    attr = 1", "def helper():", "    pass"]
        feats = rng.sample(["wrap", "ivar", "docfn", "doccls", "final", "alias"], rng.randint(1, 4))
        usersrc = [imp, "def deco(f):", "    return f"]
        if "wrap" in feats or "ivar" in feats:
            usersrc.append("class Y(%s.B):" % pref)
            if "wrap" in feats:
                usersrc += ["    meth = deco(%s.B.meth)" % pref, "    other = deco(len)"]
            if "ivar" in feats:
                usersrc += ["    def __init__(self):", "        self.meth2 = None", "        " + Q + "set on the instance" + Q]
        if "docfn" in feats:
            usersrc.append("%s.helper.__doc__ = 'documented by the importer'" % pref)
        if "doccls" in feats:
            usersrc.append("%s.B.__doc__ = 'class documented by the importer'" % pref)
        if "final" in feats:
            usersrc.append("LIMIT: %s.Final = 3" % pref)
        if "alias" in feats:
            usersrc.append("Num: %s.TypeAlias = 'int'" % pref)
        others = ["from %s import B" % q(base), "class Z(B):", "    pass"]
    par = "top" if inpkg else None
    units = [Unit(q(base), False, "\n".join(basesrc) + "\n", par), Unit(q(user), False, "\n".join(usersrc) + "\n", par)]
    if rng.random() < 0.4:
        units.append(Unit(q(rng.choice(["aother", "other", "zzother"])), False, "\n".join(others) + "\n", par))
    rng.shuffle(units)
    if inpkg:
        units.insert(0, Unit("top", True, "", None))
    return units


def star_snapshot_scenario(rng) -> List[Unit]:
    """hunter finding 2: `impl` defines C; ONE module re-exports it (`from impl import C; __all__ = ['C']`); `compat`
    takes it with a star import (which records where the name leads AT THAT MOMENT); a client derives from
    `compat.C`.  The re-exporter sorts before or after `compat`."""
    inpkg = rng.random() < 0.5
    impl = rng.choice(["impl", "_impl", "zimpl"])
    pub = rng.choice(["api", "public", "zpub"])
    compat = rng.choice(["compat", "bcompat"])
    client = rng.choice(["client", "aclient", "zclient"])
    q = (lambda m: "top." + m) if inpkg else (lambda m: m)
    rel = inpkg and rng.random() < 0.5
    ref = (lambda m: "." + m) if rel else q
    implsrc = ["class C:", "    'doc of C'", "    def meth(self):", "        pass", "class D(C):", "    pass"]
    names = rng.choice([["C"], ["C"], ["C", "D"]])
    pubsrc = ["from %s import %s" % (ref(impl), ", ".join(names)), "__all__ = %r" % names]
    compatsrc = ["from %s import *" % ref(impl)]
    if rng.random() < 0.3:
        compatsrc.append("def shim():\n    pass")
    if not inpkg or rng.random() < 0.6:
        clientsrc = ["from %s import C" % ref(compat), "class Sub(C):", "    pass"]
    else:
        # (a from-import of the module: a plain `import compat` would not analyse it — that is finding 1)
        clientsrc = ["from %s import %s" % ("." if rel else "top", compat), "class Sub(%s.C):" % compat, "    pass"]
    par = "top" if inpkg else None
    units = [Unit(q(impl), False, "\n".join(implsrc) + "\n", par), Unit(q(pub), False, "\n".join(pubsrc) + "\n", par),
             Unit(q(compat), False, "\n".join(compatsrc) + "\n", par), Unit(q(client), False, "\n".join(clientsrc) + "\n", par)]
    rng.shuffle(units)
    if inpkg:
        units.insert(0, Unit("top", True, "", None))
    return units


def early_submodule_scenario(rng) -> List[Unit]:
    """hunter finding 3: a sub-module is asked for (`from pkg.core import Base`) by a module that is analysed BEFORE the
    package, so that pydoctor analyses pkg/core.py before pkg/__init__.py (Python never does); core's `from . import
    util` then pulls pkg/__init__.py in while core is half visited, and the package's re-export / star import of
    core's classes finds nothing.  Two layouts: a second root, or a sibling module of a sub-package"""
    if rng.random() < 0.5:
        pkg = rng.choice(["pkg", "lib"])
        app = rng.choice(["app", "aapp", "zapp"])
        init = ["from .core import Base", "__all__ = ['Base', 'Derived']", "class Derived(Base):", "    pass"] if rng.random() < 0.6 else \
               ["from .core import *", "class Derived(Base):", "    pass"]
        core = [rng.choice(["from . import util", "from %s import util" % pkg, "from .util import helper"]), "class Base:", "    'doc of Base'"]
        pk = [Unit(pkg, True, "\n".join(init) + "\n", None), Unit(pkg + ".core", False, "\n".join(core) + "\n", pkg),
              Unit(pkg + ".util", False, "def helper():\n    pass\n", pkg)]
        appu = Unit(app, False, "from %s.core import Base\nclass App(Base):\n    pass\n" % pkg, None)
        return ([appu] + pk) if rng.random() < 0.5 else (pk + [appu])
    app = rng.choice(["app", "zapp"])
    init = ["from .base import *", "class Derived(Base):", "    pass"] if rng.random() < 0.6 else \
           ["from .base import Base", "__all__ = ['Base', 'Derived']", "class Derived(Base):", "    pass"]
    base = [rng.choice(["from . import util", "from .util import helper"]), "class Base:", "    'doc of Base'"]
    core = [Unit("top.core", True, "\n".join(init) + "\n", "top"), Unit("top.core.base", False, "\n".join(base) + "\n", "top.core"),
            Unit("top.core.util", False, "def helper():\n    pass\n", "top.core")]
    appu = Unit("top." + app, False, "from .core.base import Base\nclass App(Base):\n    pass\n", "top")
    return [Unit("top", True, "", None)] + (([appu] + core) if rng.random() < 0.5 else (core + [appu]))


def subpackage_reexport_scenario(rng) -> List[Unit]:
    """hunter finding 4 (repaired by 2ad6fa5): a package publishes a SUB-PACKAGE of another package through __all__;
    the sub-package's modules use relative imports that leave the sub-package (`from ..helpers import H`), which
    must be read where the module is written, not where it is moved to; re-exporter root before / after"""
    roots = rng.random() < 0.5
    api = rng.choice(["api", "xapi", "aapi"])
    if roots:
        impl, apiq, par = "impl", api, None
        imp = "from impl import sub"
    else:
        impl, apiq, par = "top.impl", "top." + api, "top"
        imp = rng.choice(["from ..impl import sub", "from top.impl import sub"])
    alias = rng.choice(["sub", "sub", "kit"])
    if alias != "sub":
        imp += " as " + alias
    leaf = [rng.choice(["from ..helpers import H", "from .. import helpers\nH = helpers.H", "from %s.helpers import H" % impl]), "class L(H):", "    pass"]
    ip = [Unit(impl, True, "", par), Unit(impl + ".helpers", False, "class H:\n    def hook(self):\n        'hook doc'\n", impl),
          Unit(impl + ".sub", True, rng.choice(["", "from .leaf import L\n"]), impl), Unit(impl + ".sub.leaf", False, "\n".join(leaf) + "\n", impl + ".sub")]
    if rng.random() < 0.4:
        ip.append(Unit(impl + ".sub.more", False, "from . import leaf\nfrom ..helpers import H as HH\nclass M(leaf.L, HH):\n    pass\n", impl + ".sub"))
    ap = [Unit(apiq, True, imp + "\n__all__ = [%r]\n" % alias, par)]
    units = [] if roots else [Unit("top", True, "", None)]
    return units + ((ip + ap) if rng.random() < 0.5 else (ap + ip))


def iface_chain_scenario(rng) -> List[Unit]:
    """zope.interface: a CHAIN of interfaces over several modules whose bases are only resolved late — the first level
    reaches `Interface`'s child through a module that merely re-imports it (no visit-time resolution: aliases are not
    followed recursively), the next level imports the middle interface from its DEFINING module while exactly one other
    module re-exports it through __all__ (the move re-inserts it at the end of System.allobjects); 2–3 levels; two roots
    or the modules of one package, the re-exporter sorting before or after the module of the derived interface.  No cycle.
    Anything that decides INTERFACE / CLASS in one pass over the objects depends on the order here."""
    two_roots = rng.random() < 0.5
    a = "acme"
    ext = "acme_ext" if two_roots else a
    api = rng.choice(["api", "aapi", "zapi"])
    cache = rng.choice(["cache", "acache", "zcache"])
    late1 = rng.random() < 0.7
    units = [Unit(a, True, "", None),
             Unit(a + "._ifaces", False, "from zope.interface import Interface\nclass IResource(Interface):\n    def open():\n        'open it'\n", a),
             Unit(a + ".compat", False, "from %s._ifaces import IResource\n" % a, a),
             Unit(a + ".storage", False, "from %s.%s import IResource\nclass IStore(IResource):\n    def put(key, value):\n        'store'\n"
                  % (a, "compat" if late1 else "_ifaces"), a),
             Unit(a + "." + api, False, "from %s.storage import IStore\n__all__ = ['IStore']\n" % a, a)]
    cachesrc = ["from %s.storage import IStore" % a, "class ICache(IStore):", "    def evict(key):", "        'forget'"]
    third = rng.random() < 0.5
    if third and rng.random() < 0.5:
        cachesrc += ["class ILru(ICache):", "    pass"]
        third = False
    tail = [Unit(ext + "." + cache, False, "\n".join(cachesrc) + "\n", ext)]
    if third:
        tail.append(Unit(ext + "." + rng.choice(["alru", "zlru"]), False, "from %s.%s import ICache\nclass ILru(ICache):\n    pass\n" % (ext, cache), ext))
    if rng.random() < 0.4:
        tail.append(Unit(ext + ".impl", False, "from zope.interface import implementer\nfrom %s.%s import ICache\n@implementer(ICache)\nclass Cache:\n    pass\n" % (ext, cache), ext))
    if two_roots:
        extu = [Unit(ext, True, "", None)] + tail
        return (units + extu) if rng.random() < 0.5 else (extu + units)
    inner = units[1:] + tail
    rng.shuffle(inner)
    return [units[0]] + inner


def write_tree(root: Path, units: List[Unit]) -> None:
    for u in units:
        rel = Path(*u.qname.split("."))
        f = (root / rel / "__init__.py") if u.is_package else (root / rel).with_suffix(".py")
        f.parent.mkdir(parents=True, exist_ok=True)
        f.write_text(u.source)


def cmdline_stream(ctx: Ctx) -> None:
    """the order of the PATHS ON THE COMMAND LINE: generated projects written to a temporary directory and analysed
    through `Options.from_args` + `driver.get_system` (what `pydoctor <path> <path> ...` does before it renders), with
    the roots — and, half of the time, paths that OVERLAP them: a sub-package directory or a module file inside a root,
    which pydoctor then documents a second time as a root of its own — given in every order; canonical dumps compared"""
    import tempfile
    from pydoctor.driver import get_system
    from pydoctor.options import Options
    def overlap_tree(rng) -> List[Unit]:
        # a package with a sub-package and a second root, no re-export: made for overlapping paths
        sub = rng.choice(["tools", "atools", "zz"])
        return [Unit("acme", True, "'''acme'''\nfrom acme.core import Base\n", None), Unit("acme.core", False, "class Base:\n    'doc'\n", "acme"),
                Unit("acme." + sub, True, "'''sub-package'''\n", "acme"),
                Unit("acme.%s.fmt" % sub, False, "from acme.core import Base\nclass Fmt(Base):\n    pass\n", "acme." + sub),
                Unit(rng.choice(["other", "another"]), False, "import acme.core\nclass O(acme.core.Base):\n    pass\n", None)]
    fams = [submodule_scenario, early_submodule_scenario, subpackage_reexport_scenario, plain_body_scenario, hierarchy_scenario,
            overlap_tree, overlap_tree, overlap_tree]
    for _ in range(8 if ctx.quick else 60):
        units = ctx.rng.choice(fams)(ctx.rng)
        qs = {u.qname for u in units}
        roots = [u for u in units if u.parent is None]
        inner = [u for u in units if u.parent is not None and u.name not in {r.name for r in roots}]
        extra = ctx.rng.sample(inner, min(len(inner), ctx.rng.choice([0, 1, 1, 2])))
        if len(roots) + len(extra) < 2:
            extra = inner[:1]
        if extra and any("__all__" in u.source for u in units):
            # a file given twice is analysed under two names: a re-exporter among them doubles, and the object it moves
            # has TWO re-exporters — outside the property ("re-exported by a single module")
            extra = []
            ctx.count("command-line:overlap-dropped:re-exporter-would-be-doubled")
        if len(roots) + len(extra) < 2:
            continue
        with tempfile.TemporaryDirectory(prefix="verif-c06-") as tmp:
            root = Path(tmp)
            write_tree(root, units)

            def path_of(u):
                rel = root / Path(*u.qname.split("."))
                return rel if u.is_package else rel.with_suffix(".py")
            paths = [path_of(u) for u in roots + extra]
            perms = list(itertools.permutations(range(len(paths))))
            if len(perms) > 6:
                perms = [perms[0]] + ctx.rng.sample(perms[1:], 5)
            ctx.count("command-line:projects")
            ctx.count("command-line:overlapping-paths" if extra else "command-line:disjoint-paths")
            ref = None
            for pm in perms:
                args = ["--quiet", "--quiet", "--project-name=x"] + [str(paths[k]) for k in pm]
                rel = [str(paths[k].relative_to(root)) for k in pm]
                try:
                    with contextlib.redirect_stdout(io.StringIO()), contextlib.redirect_stderr(io.StringIO()):
                        sysm = get_system(Options.from_args(args))
                except BaseException as e:   # noqa: BLE001  (SystemExit included: a run that refuses its arguments)
                    dump: Any = {"<outcome>": type(e).__name__}
                else:
                    dump = canon(sysm, hierarchy_only=False)
                ctx.case(repr((sorted((u.qname, u.source) for u in units), rel)), True, None)
                ctx.count("command-line:orders")
                if ref is None:
                    ref = (rel, dump)
                elif dump != ref[1]:
                    if set(dump) != set(ref[1]):
                        what = "documented under one order only: %s" % sorted(set(dump) ^ set(ref[1]))[:4]
                        sig = "objects-differ"
                    else:
                        sig, what = diff_sig(ref[1], dump)
                    ctx.fail("order-dependent:command-line:" + sig, {"units": {u.qname: u.source for u in units}, "paths": rel, "reference_paths": ref[0]},
                             f"pydoctor {' '.join(ref[0])} vs pydoctor {' '.join(rel)}: {what}")
                    break


def hunt_corpus() -> List[List[Unit]]:
    """the inputs of hunt/C06/1..4 (and the `noticed` docstring-assignment case), both layouts each, and of the round-2
    finding that 824faae repaired on the way; the orders are enumerated like for every other project"""
    def mk(*mods: Tuple[str, str]) -> List[Unit]:
        qs = [q.rstrip("/") for q, _ in mods]          # a trailing `/` marks a package without modules
        return [Unit(q.rstrip("/"), q.endswith("/") or any(o.startswith(q + ".") for o in qs), text, q.rpartition(".")[0] or None) for q, text in mods]
    base = "class B:\n    def meth(self):\n        'a method'\ndef helper():\n    pass\n"
    user = "import %s\ndef deco(f):\n    return f\nclass Y(%s.B):\n    meth = deco(%s.B.meth)\n%s.helper.__doc__ = 'documented by user'\n"
    return [
        mk(("base", base), ("user", user % (("base",) * 4))),
        mk(("top", ""), ("top.base", base), ("top.a_user", user.replace("import %s\n", "from top import base as %s\n", 1) % (("_b",) * 4))),
        mk(("top", ""), ("top.base", base), ("top.a_user", user % (("top.base",) * 4))),
        mk(("impl", "class C:\n    'doc'\n"), ("public", "from impl import C\n__all__ = ['C']\n"), ("compat", "from impl import *\n"),
           ("client", "from compat import C\nclass Sub(C):\n    pass\n")),
        mk(("pkg", "from .core import Base\n__all__ = ['Base', 'Derived']\nclass Derived(Base):\n    pass\n"),
           ("pkg.core", "from . import util\nclass Base:\n    pass\n"), ("pkg.util", "def helper():\n    pass\n"),
           ("app", "from pkg.core import Base\nclass App(Base):\n    pass\n")),
        mk(("top", ""), ("top.app", "from .core.base import Base\nclass App(Base):\n    pass\n"),
           ("top.core", "from .base import *\nclass Derived(Base):\n    pass\n"),
           ("top.core.base", "from . import util\nclass Base:\n    pass\n"), ("top.core.util", "def helper():\n    pass\n")),
        mk(("api/", "from impl import sub\n__all__ = ['sub']\n"), ("impl", ""), ("impl.helpers", "class H:\n    pass\n"), ("impl.sub", ""),
           ("impl.sub.leaf", "from ..helpers import H\nclass L(H):\n    pass\n")),
        mk(("lib", ""), ("lib._impl", "class X:\n    def meth(self):\n        'meth doc'\n"), ("lib.api", "from ._impl import X\n__all__ = ['X']\n"),
           ("lib.user", "from ._impl import X\nX.__doc__ = 'documented by the user module'\n")),
        # (round 2, fixed by 824faae as a side effect) the NAME kept for an undocumented base reached through a package attribute
        mk(("lib", "import lib.zimpl as _m\nThing = _m.Thing\n"), ("lib.zimpl", "def broken(:\n    pass\n"),
           ("zapp", "import lib\nclass Special(lib.Thing):\n    pass\n")),
        mk(("lib", "from ext import Thing\n"), ("app", "import lib\nclass Special(lib.Thing):\n    pass\n")),
        # a class published by assignment from a ROOT module that imports the consumer back under TYPE_CHECKING: taken up
        # first, that module makes the package bind `Thing` before the class exists, and the consumer looks it up then
        # (seeded round 5) a chain of interfaces with late-resolved bases, the middle one re-exported by one module
        mk(("acme", ""), ("acme._ifaces", "from zope.interface import Interface\nclass IResource(Interface):\n    def open():\n        'open it'\n"),
           ("acme.compat", "from acme._ifaces import IResource\n"),
           ("acme.storage", "from acme.compat import IResource\nclass IStore(IResource):\n    def put(key, value):\n        'store'\n"),
           ("acme.api", "from acme.storage import IStore\n__all__ = ['IStore']\n"), ("acme_ext", ""),
           ("acme_ext.cache", "from acme.storage import IStore\nclass ICache(IStore):\n    def evict(key):\n        'forget'\n")),
        # (seeded C06-r6-2) a base looked up THROUGH a class (`class C(B.Inner)`) inside an import cycle: B's first base
        # comes from the cyclic partner and is unresolved when p is analysed in the middle of q
        mk(("p", "from q import Mixin\nclass A:\n    'a'\n    class Inner:\n        'inner of A'\nclass B(Mixin, A):\n    'b'\nclass C(B.Inner):\n    'c'\n"),
           ("q", "import p\nclass Mixin:\n    'mixin'\n    class Inner:\n        'inner of Mixin'\n")),
        mk(("pk/", "import aimpl\nThing = aimpl.Thing\n"),
           ("aimpl", "from typing import TYPE_CHECKING\nif TYPE_CHECKING:\n    import app\nclass Root:\n    pass\nclass Thing(Root):\n    pass\n"),
           ("app", "from pk import Thing\nclass Special(Thing):\n    pass\n")),
    ]


def run(ctx: Ctx) -> None:
    from .c07 import gen_project as reexport_project
    nproj = 200 if ctx.quick else 2500
    limit = 24 if ctx.quick else 120
    reqs, impls, pay = [], [], []
    pending: List[Tuple[int, str, Dict[str, Any], str]] = []    # order-dependence reports, filed once the project is done
    corpus = hunt_corpus()
    for i in range(-len(corpus), nproj):
        if i < 0:
            # the hunter's inputs, verbatim: seeing the open findings does not depend on the seed
            units = corpus[i]
            ctx.count("projects:hunter-corpus")
        elif i % 32 in (24, 14):
            units = plain_body_scenario(ctx.rng)
            ctx.count("projects:plain-import-body-scenario")
        elif i % 32 == 20:
            units = star_snapshot_scenario(ctx.rng)
            ctx.count("projects:star-snapshot-scenario")
        elif i % 32 == 30:
            units = early_submodule_scenario(ctx.rng)
            ctx.count("projects:submodule-before-package-scenario")
        elif i % 32 == 22:
            units = subpackage_reexport_scenario(ctx.rng)
            ctx.count("projects:subpackage-reexport-scenario")
        elif i % 32 == 31:
            units = iface_chain_scenario(ctx.rng)
            ctx.count("projects:interface-chain-scenario")
        elif i % 4 == 3:
            # the re-export scenarios of C07 (single re-exporter, consumers of definer / re-exporter)
            units, _meta = reexport_project(ctx.rng)
            ctx.count("projects:reexport-scenario")
        elif i % 8 == 5:
            units = submodule_scenario(ctx.rng)
            ctx.count("projects:submodule-reexport-scenario")
        elif i % 8 in (1, 6):
            units = hierarchy_scenario(ctx.rng)
            ctx.count("projects:plain-import-hierarchy-scenario")
        elif i % 16 == 2:
            units = alias_scenario(ctx.rng)
            ctx.count("projects:assignment-alias-scenario")
        elif i % 16 in (10, 12):
            units = wrap_scenario(ctx.rng)
            ctx.count("projects:base-known-at-visit-scenario")
        else:
            g = Gen(ctx.rng, Knobs(max_modules=5 if ctx.quick else 7, reexport=0.3, star=0.25, single_reexporter=True))
            units = g.project()
            ctx.count("projects:random")
        if i >= 0 and ctx.rng.random() < 0.25 and len(units) > 1:
            j = ctx.rng.randrange(1, len(units))
            units[j] = Unit(units[j].qname, units[j].is_package, "def broken(:\n    pass\n", units[j].parent)
        src = {u.qname: u.source for u in units}
        # reference run: read the import lists off the recorded calls
        rec0 = SchedRec()
        with rec0:
            try:
                s0, mods0, _ = build(units, None, rec0)
            except Exception as e:
                ctx.fail("analysis-crash:" + type(e).__name__, {"units": src, "order": None}, f"{type(e).__name__}: {e}")
                continue
        imports: Dict[int, List[int]] = {k: [] for k in range(len(units))}
        for ev in rec0.log:
            if ev.startswith("sees"):
                a, b = ev[4:-1].split(">")
                imports[int(a)].append(int(b))
        parses = ["parseError%d" % k not in rec0.log for k in range(len(units))]
        # the packages above each module, outermost first (`mod.parent` chain): getProcessedModule processes the
        # UNPROCESSED ones before the module it is asked for (0ba6723) — transcribed in the model (`Mod.above`)
        qidx = {u.qname: k for k, u in enumerate(units)}
        above: Dict[int, List[int]] = {}
        for k, u in enumerate(units):
            chain, par = [], u.parent
            while par is not None and par in qidx:
                chain.append(qidx[par])
                par = units[qidx[par]].parent
            above[k] = chain[::-1]
        modtoks = " ".join("%s:%s:%s" % ("p" if parses[k] else "x", ",".join(map(str, imports[k])) or "-",
                                         ",".join(map(str, above[k])) or "-") for k in range(len(units)))
        cyc = has_cycle(units, imports)
        # the import graph (the model's `Ranked`): an edge to every module a body asks for AND to every package above
        # such a module (entered first, implicitly) — except requests that concern the importer itself or a package
        # above the importer (`from . import util` asks for the package first; every sibling has that package above
        # it): Python has always run those __init__s before the module, whatever is imported first, so they are no
        # import cycle and nothing about the result depends on the entry point there
        own = {k: set(above[k]) | {k} for k in range(len(units))}
        py_imports = {k: [] for k in range(len(units))}
        for k, v in imports.items():
            for t in v:
                if t in own[k]:
                    continue
                for e in above[t] + [t]:
                    if e not in own[k] and e not in py_imports[k]:
                        py_imports[k].append(e)
        pycyc = has_cycle(units, py_imports)
        if cyc and not pycyc:
            ctx.count("projects:cycle-only-through-own-package(full comparison)")
        if pycyc and not cyc:
            ctx.count("projects:cycle-only-through-implicit-package-request")
        ords = valid_orders(units, ctx.rng, limit)
        ref = None
        inh_cyc = False
        dests: Dict[str, set] = {}
        reexp = any("__all__" in u.source and "import" in u.source for u in units)
        for od in ords:
            rec = SchedRec()
            with rec:
                try:
                    s, mods, out = build(units, od, rec)
                except Exception as e:
                    ctx.fail("analysis-crash:" + type(e).__name__, {"units": src, "order": od}, f"{type(e).__name__}: {e}")
                    continue
            for og, dst in rec.moves:
                dests.setdefault(og, set()).add(dst)
            nontriv = any(imports[k] for k in imports) and len(ords) > 1
            ctx.case(repr((sorted(src.items()), od)), nontriv,
                     {"modules": list(src), "order": od, "log": rec.log[:30]} if nontriv and len(ctx.samples) < 2 else None)
            ctx.count("orders")
            ctx.count("cyclic" if cyc else "acyclic")
            if rec.module_moved or rec0.module_moved:
                # a moved module changes which module a dotted name denotes: the import lists read off the
                # reference run do not apply to this order (the model's assumption), so only the oracle speaks
                ctx.count("model-skipped:module-moved")
            else:
                reqs.append("schedule run %s %s" % (",".join(map(str, od)), modtoks))
                states = "".join({"UNPROCESSED": "U", "PROCESSING": "G", "PROCESSED": "D"}[m.state.name] for m in mods)
                impls.append("ok " + " ".join(rec.log) + " | " + states + " | " + (",".join(str(rec.ids[id(m)]) for m in s.unprocessed_modules) or "-"))
                pay.append({"units": src, "order": od})
            # direct oracle (acyclic projects): every import obtained its target in the state that module ends in
            if not pycyc and (rec.module_moved or rec0.module_moved):
                # a re-exported MODULE / package: pydoctor analyses the modules below it before the move (2ad6fa5), modules
                # Python's import graph does not reach from the re-exporter at all; which state THEIR imports see is not
                # something the (Python) import graph decides, so the state check does not apply (the comparison of the
                # documented output across orders below still does)
                ctx.count("oracle-skipped:final-state-imports:module-moved")
            elif not pycyc:
                for ev in rec.log:
                    if ev.startswith("sees"):
                        src_, tgt = map(int, ev[4:-1].split(">"))
                        if tgt in own[src_]:
                            continue        # a request for the importer's own package: returned as it is, by design
                        want = "D" if parses[tgt] else "G"
                        if ev[-1] != want:
                            ctx.fail("acyclic-import-saw-unfinished-module", {"units": src, "order": od},
                                     f"{ev}: module {units[tgt].qname} was obtained in state {ev[-1]}, it ends in {want}")
                            break
                ctx.count("acyclic-orders-checked-for-final-state-imports")
            # direct oracle: scheduler facts
            if s.unprocessed_modules:
                ctx.fail("not-drained", {"units": src, "order": od}, "unprocessed_modules not empty after process()")
            for k, m in enumerate(mods):
                if rec.log.count("start%d" % k) != 1:
                    ctx.fail("module-not-processed-once", {"units": src, "order": od}, f"{m.fullName()} entered {rec.log.count('start%d' % k)} times")
            # direct oracle: documented objects independent of the order
            if pycyc and star_in_cycle(units, py_imports):
                ctx.count("oracle-skipped:star-import-inside-cycle")
                continue
            if pycyc and reexport_in_cycle(units, py_imports):
                ctx.count("oracle-skipped:re-export-inside-cycle")
                continue
            if inh_cyc or inheritance_cycle(s):
                # class D(K) ... class K(D): not a Python program (NameError on import); what pydoctor makes of it
                # depends on which class it meets first.  The cycle may be visible under SOME orders only (under the
                # others one of its bases stays unresolved), so one order showing it takes the project out.
                if not inh_cyc:
                    inh_cyc = True
                    pending = [pf for pf in pending if pf[0] != i]
                ctx.count("oracle-skipped:cyclic-inheritance")
                continue
            c = canon(s, hierarchy_only=pycyc)
            mv = moved_origins(s) if pycyc else {o.fullName() for o in s.allobjects.values()
                                                 if getattr(o, "_verif_orig", o.fullName()) != o.fullName() and " " not in o.name}
            ev = (rec.plain_unanalysed, rec.early_children, rec.moved_at_start)
            if ref is None:
                ref = (od, c, mv, ev)
            elif c != ref[1]:
                tag = "cyclic" if pycyc else ("reexport" if reexp else "plain")
                full, what = classify(ref[1], c, mv | ref[2], src, tag, reexp, ref[3], ev,
                                      lambda **emu: agree_under(lambda o, r: build(units, o, r)[0], ref[0], od, pycyc, **emu),
                                      displaced=rec.module_displaced or rec0.module_displaced)
                pending.append((i, full, {"units": src, "order": od, "reference_order": ref[0]}, f"orders {ref[0]} and {od}: {what}"))
        if any(len(v) > 1 for v in dests.values()) and any(pf[0] == i for pf in pending):
            # some object was moved to two different modules (over all orders): it has more than one re-exporter
            # (possibly through a chain of re-exports), which the property leaves out
            pending = [pf for pf in pending if pf[0] != i]
            ctx.count("oracle-skipped:object-with-several-reexporters")
    for _i, sig, inp, what in pending:
        ctx.fail(sig, inp, what)
    cmdline_stream(ctx)
    # real packages under reachable orders (direct oracle only: the Lean model's import lists come from generated projects)
    norders = 4 if ctx.quick else 12
    for label, paths in real_corpus(ctx.quick):
        if label == "pydoctor":
            norders_here = 3
        else:
            norders_here = norders
        from pydoctor import model
        try:
            with SchedRec() as rec0r:
                s0, names0 = build_real(paths, ctx.rng, False)
            ev0 = (rec0r.plain_unanalysed, rec0r.early_children, rec0r.moved_at_start)
        except Exception as e:
            ctx.fail("real-package-crash:" + type(e).__name__, {"package": label, "order": None}, f"{label}: {type(e).__name__}: {e}")
            continue
        cyc = import_cycle_real(s0)
        if inheritance_cycle(s0):
            ctx.count("real:oracle-skipped:cyclic-inheritance")
            continue
        ref = canon(s0, hierarchy_only=cyc)
        ctx.count("real-packages")
        ctx.count("real-packages:cyclic" if cyc else "real-packages:acyclic")
        seen = {tuple(names0)}
        for k in range(norders_here):
            try:
                with SchedRec() as rec:
                    s, names = build_real(paths, ctx.rng, True)
            except Exception as e:
                ctx.fail("real-package-crash:" + type(e).__name__, {"package": label, "order": names0}, f"{label}: {type(e).__name__}: {e}")
                break
            if tuple(names) in seen:
                continue
            seen.add(tuple(names))
            ctx.case(repr((label, names)), True, {"package": label, "order": names[:12]} if len(ctx.samples) < 3 else None)
            ctx.count("real-orders")
            if inheritance_cycle(s):
                ctx.count("real:oracle-skipped:cyclic-inheritance")
                break
            c = canon(s, hierarchy_only=cyc)
            if c != ref:
                srcs = {}
                for m in s.allobjects.values():
                    if isinstance(m, model.Module) and m.source_path is not None and str(m.source_path).endswith(".py"):
                        try:
                            srcs[m.fullName()] = Path(m.source_path).read_text(errors="replace")
                        except OSError:
                            pass
                mvd = (moved_origins(s) | moved_origins(s0)) if cyc else \
                    {o.fullName() for sy in (s, s0) for o in sy.allobjects.values()
                     if getattr(o, "_verif_orig", o.fullName()) != o.fullName() and " " not in o.name}
                full, what = classify(ref, c, mvd, srcs, "cyclic" if cyc else "real:" + label, True, ev0, (rec.plain_unanalysed, rec.early_children, rec.moved_at_start),
                                      lambda **emu: agree_under(lambda o, r: build_real(paths, ctx.rng, False, o)[0], names0, names, cyc, **emu))
                if full.startswith("order-dependent:cyclic:"):
                    full = "order-dependent:real:%s:%s" % (label, full[len("order-dependent:"):])
                ctx.fail(full, {"package": label, "paths": [str(p) for p in paths], "order": names, "reference_order": names0},
                         f"{label}: default order vs {names[:8]}...: {what}")
                break
    if ctx.model_ok and reqs:
        outs = ctx.driver.run_parallel(reqs)
        for rq, mo, io_, p in zip(reqs, outs, impls, pay):
            ctx.traces_validated += 1
            mo2 = " ".join(t for t in mo.split(" ") if not t.startswith("visit"))
            if mo2 != io_:
                ctx.disagree("scheduler-log", p, mo2[:1500], io_[:1500])


def replay(ctx: Ctx, obj) -> int:
    inp = obj.get("input") or obj.get("request") or {}
    print(obj.get("signature"), "-", obj.get("what"))
    for q, s in (inp.get("units") or {}).items():
        print("#", q)
        print(s)
    print("order:", inp.get("order"), "reference:", inp.get("reference_order"))
    return 0
