"""C11 — every internal link leads to a page and anchor that exist."""
from __future__ import annotations

from typing import Any, Dict, List

from ..core import Ctx, dec
from .. import outputcrawl as oc

THEOREMS = ["Output.url_resolves_iff", "Output.url_resolves_iff_visible", "Output.own_page_exists",
            "Output.member_anchor_exists", "Output.links_resolve", "Output.links_resolve_counterexample_field_old",
            "Output.inhierarchy_resolves", "Output.letter_links_resolve",
            "Output.letter_of_visible", "Output.shorten_resolves", "Output.ctx_ok", "Output.shown_page",
            "Output.visible_reachable", "Output.superseded_invisible", "Output.superseded_not_reachable",
            "Output.inside_superseded_not_reachable", "Output.mem_reached_iff", "Output.mem_pages_iff", "Output.origin",
            "Output.mem_emits", "Output.pageFile_inj", "Output.pageFile_written", "Output.listed_of_depth",
            "Output.stored_of_no_visBase", "Output.rootStep_keep", "Output.findRootClasses_visible",
            "Output.links_resolve_counterexample_superseded_old", "Output.links_resolve_counterexample_hidden_old",
            "Output.links_resolve_counterexample_context_old", "Output.links_resolve_counterexample_value_old",
            "Output.index_page_counterexample_old", "Output.inhierarchy_counterexample_old",
            "Output.inhierarchy_counterexample_collision_old"]
RULE = ("hand-written scenario projects for every situation the quantifier names (inheritance, inherited docstrings, "
        "re-exports, duplicates 'C 0', hidden and private objects, nested classes, several roots) plus random projects "
        "of harness.gen.project.Gen with planted L{...} cross-references (in the description and in @see/@note/@author/@since fields; "
        "families base method with such fields / override without docstring), 8 % of the projects in reStructuredText with "
        "internal references in the summary sentences, each under a random list of --privacy rules "
        "(exact names and patterns, three levels, any order), a theme of {classic, readthedocs, base}, "
        "--sidebar-expand-depth 1..5, --sidebar-toc-depth, --no-sidebar; the REAL pydoctor.driver.main is run, the output "
        "directory crawled (every href/src, every id / a[name], all-documents.html, lunr indexes, objects.inv) and each "
        "a.internal-link attributed to a producer row by DOM context. Direct oracle: every relative reference resolves "
        "to a written file (+ anchor); every documented (visible, reached through contents) module/package/class has its "
        "page at obj.url and every documented function/attribute its anchor on the parent's page. Correspondence: per "
        "producer row the set of (page, href) / listing entries, the written files, the member / class-index / letter anchors and the "
        "letter links of nameIndex.html vs the Lean Output model on the same object table. The inputs of all past findings "
        "(known_findings.json, C11 and C12) and one scenario per seeded change run first on every run. Non-trivial = the project has an inherited member, an override or a superseded "
        "duplicate.")
ASSUMPTIONS = [
    "name resolution (which object an L{...}, an annotation, a base expression names), the MRO and the displayed-docstring "
    "source are read from the real System and handed to the model as relations (C04/C07/C05 cover them)",
    "urllib.parse.quote is injective and produces no '#': the model compares (file, fragment) pairs, the front end and the "
    "crawl agree on percent-decoding",
    "the model assumes that no module is called like a summary page (index, moduleIndex, classIndex, nameIndex, undoccedSummary, "
    "all-documents); projects with such roots are generated as oracle-only cases (open finding summary-page-overwritten)",
    "not modelled: compact module list (> 50 submodules), letter anchors of nameIndex.html, docstring tables of contents, "
    "zope.interface rows, extra_info other than the constructor note (the crawl oracle still sees them); --html-subject runs "
    "write a partial output by design and are judged by C12 only",
    "a project with no visible object at all aborts in lunr (ZeroDivisionError) before writing: such runs are counted "
    "(run-crash) and skipped - no output exists (proposed repair: fixes/C01-empty-search-corpus.diff)",
]
PARTIAL = {
    "Output.url_resolves_iff": "full, with the one shared address spelled out: index.html of a hidden single root is the project's "
                               "IndexPage (a09aa28); Output.links_resolve is full for all 30 producer rows",
    "Output.inhierarchy_resolves": "full under hierWf (evaluated by the driver on every real System: every visible class is registered, "
                                   "has no blank in its names, bases/baseobjects have the same length, a visible resolved base is a class "
                                   "that lists it among its subclasses, the chain of first visible bases ends); not covered: a root module "
                                   "named like a summary page (oracle-only cases, open finding summary-page-name-taken-by-root-module)",
}
EXPLANATION = ("Output model = url/page_object/isVisible/taglink/_writeDocsFor + every link producer with its guard, following the "
               "fixed code (cb98646 superseded duplicates are invisible, aaed9bd taglink guard, 1da744b docstring link context, "
               "97be2c0 class-index dict, 07382d3 parentMod of moved members, 4b6324b root rows, f972163 linker page after reparent, a09aa28 IndexPage when no root is visible, 5201211 root alias, 0ff33e4 late-formatted fields). `links_resolve` is proved at full strength for "
               "every producer row (30; row fieldXref = links in late-formatted @see/@note/@author/@since fields, under switch_context(obj) "
               "since 0ff33e4); the pre-fix behaviour is kept as `...Old` definitions with `_old` counterexamples.")


def nontrivial(res) -> bool:
    t = res["truth"]
    if any(t.superseded(o) for o in t.objs):
        return True
    m = res.get("model") or {}
    return bool((m.get("basetable") or "").strip() or (m.get("overrides") or "").strip())


# one defect whatever the producer: the page file is named with the percent-ENCODED spelling of a non-ASCII name
PERCENT = "dead-link:page-file-name-percent-encoded"


def percent_encoded_on_disk(res, ref: str) -> bool:
    f = ref.split("#")[0].split("?")[0]
    return bool(f) and f != oc.unquote(f) and f in res["crawl"]["files"]


def overwritten_summary_page(res, target_fn: str) -> bool:
    """the file a link leads to is a summary page (or index.html) whose name is also the page name of a root module:
    two writers share one file name"""
    t: oc.Truth = res["truth"]
    stem = target_fn[:-5] if target_fn.endswith(".html") else target_fn
    if stem not in oc.SUMMARY_PAGES and stem != "index":
        return False
    return any(o["parent"] is None and o["full"] == stem for o in t.objs)


def overwritten_cause(res) -> str:
    """single root: the alias symlink replaced the summary page (fixed by 5201211); several roots: the module's own
    page has the summary page's file name"""
    roots = [o for o in res["truth"].objs if o["parent"] is None]
    return "summary-page-overwritten" if len(roots) == 1 else "summary-page-name-taken-by-root-module"


def _docstrings(units: Dict[str, str]):
    import ast
    import inspect
    for src in units.values():
        try:
            tree = ast.parse(src)
        except SyntaxError:
            continue
        for node in ast.walk(tree):
            if isinstance(node, (ast.Module, ast.ClassDef, ast.FunctionDef, ast.AsyncFunctionDef)):
                d = ast.get_docstring(node, clean=False)
                if d:
                    yield inspect.cleandoc(d)


def rst_target_kind(res, frag: str) -> str:
    """what carries the id a dead '#rst-<id>' reference asks for, according to docutils itself (standard reader, with
    its DocTitle transform) on the docstrings of the case: 'promoted-document-title' (the ids of a lone top-level section
    end up on the document node), 'code-example' (a label before a doctest / literal / code block), else ''"""
    from docutils import nodes
    from docutils.core import publish_doctree
    ident = frag[len("rst-"):] if frag.startswith("rst-") else frag
    for doc in _docstrings(res["case"].get("units") or {}):
        if "_" not in doc and "=" not in doc:
            continue
        try:
            tree = publish_doctree(doc, settings_overrides={"report_level": 5, "halt_level": 5, "warning_stream": False})
        except Exception:
            continue
        if ident in tree.get("ids", ()):
            return "promoted-document-title"
        for node in tree.traverse(nodes.Element):
            if ident in node.get("ids", ()) and isinstance(node, (nodes.doctest_block, nodes.literal_block)):
                return "code-example"
    return ""


def classify(res, fn: str, prod: str, href: str, label, why: str) -> str:
    t: oc.Truth = res["truth"]
    name = oc.PRODUCER_NAMES.get(prod, prod)
    target_fn = oc.unquote(href.split("#")[0]) or fn
    if overwritten_summary_page(res, target_fn):
        return "dead-link:%s:%s" % (name, overwritten_cause(res))
    if prod == "alldocs":
        name = "all-documents"
    if prod == "inhierarchy":
        frag = oc.unquote(href.partition("#")[2])
        o = t.by_full.get(frag)
        seen, todo, sup = set(), [o] if o else [], False
        while todo:
            c = todo.pop()
            if c is None or c["id"] in seen:
                continue
            seen.add(c["id"])
            if " " in c["full"]:
                sup = True
            todo += [t.objs[b] for b in c.get("bases", []) if b is not None]
        return "dead-link:view-in-hierarchy:" + ("superseded-base" if sup else "unlisted-class")
    if why == "no-file" and href.split("#")[0].split("?")[0] in res["crawl"]["files"]:
        # the file exists under the percent-ENCODED name the href spells out; a browser (and this crawl) asks for the decoded one
        return PERCENT
    target = oc.link_target(t, fn, href, label)
    cause = t.cause(target)
    if cause == "documented-target":
        own = oc.canon_url(target["url"]).partition("#")[0] if target.get("url") else None
        here = oc.canon_file(fn)
        cause = "shortened-for-another-page" if (href.startswith("#") and own != here) else why
        if cause == "shortened-for-another-page" and prod in ("xref", "xref-header") and any(
                o.get("fieldtype") and o.get("url") and oc.canon_url(o["url"]).partition("#")[0] == here for o in t.objs):
            # the page shows a variable whose type comes from an @type field: the field body is shared with the docstring
            # it was written in, and ParsedDocstring.to_stan caches the rendering made for that docstring's page
            return "dead-link:annotation:field-type-rendered-for-another-page"
    return "dead-link:%s:%s" % (name, cause)


def oracle(ctx: Ctx, res) -> None:
    t: oc.Truth = res["truth"]
    cr = res["crawl"]
    payload = res["case"]
    if payload["opts"].get("subject"):
        # --html-subject writes the pages of the named objects only (no summary pages, no index): a deliberately partial
        # output, the property speaks about complete runs. C12 judges these runs.
        ctx.count("subject-run-not-judged")
        return
    attributed = set()
    for fn, prod, href, label, why in oc.dead_links(res):
        attributed.add((fn, href))
        ctx.fail(classify(res, fn, prod, href, label, why), payload,
                 "%s: %s link %r (%s) leads nowhere: %s" % (fn, prod, href, label, why))
    # references outside the attributed producers: templates, css, scripts, letter links, anything else
    for fn, pg in cr["pages"].items():
        for attr, v in pg["refs"]:
            if not oc.is_relative(v) or (fn, v) in attributed:
                continue
            ctx.count("refs-followed")
            ok, why = oc.resolve_ref(cr, fn, v)
            if not ok:
                sig = "dead-link:template:" + why
                roots = [o for o in t.objs if o["parent"] is None]
                if overwritten_summary_page(res, oc.unquote(v.split("#")[0]) or fn):
                    sig = "dead-link:template:" + overwritten_cause(res)
                elif v.split("#")[0] == "index.html" and why == "no-file" and len(roots) == 1 and not roots[0]["visible"]:
                    # with a single root, index.html is the root's page: a hidden root leaves none
                    sig = "dead-link:template:index-missing-single-root-hidden"
                elif v.startswith("#rst-toc-entry-"):
                    # a title's back-reference to its entry in the table of contents
                    sig = "dead-link:docstring-heading:toc-entry-not-on-page"
                elif v.startswith("#") and ("rst-" + oc.unquote(v[1:])) in pg["anchors"]:
                    # markup written by docutils itself: pydoctor prefixes ids with 'rst-', this href was not
                    sig = "dead-link:rst-docstring:unprefixed-fragment"
                elif v.startswith("#rst-") and "ctx:sidebar" in pg.get("rstrefs", {}).get(v, ()) and pg.get("plain_fallback"):
                    # the docstring could not be rendered and is shown as plain text (no headings); the sidebar's table
                    # of contents is built from the docutils tree all the same
                    sig = "dead-link:docstring-toc:docstring-shown-as-plain-text"
                elif v.startswith("#rst-") and not v.startswith("#rst-rst-") and rst_target_kind(res, oc.unquote(v[1:])) == "promoted-document-title":
                    sig = "dead-link:rst-docstring:promoted-document-title"
                elif v.startswith("#rst-") and not v.startswith("#rst-rst-") and rst_target_kind(res, oc.unquote(v[1:])) == "code-example":
                    sig = "dead-link:rst-docstring:label-before-code-example"
                elif v.startswith("#rst-") and not v.startswith("#rst-rst-") \
                        and set(pg.get("rstrefs", {}).get(v, ())) >= {"rst-reference", "rst-internal", "ctx:summary"} \
                        and not {"ctx:sidebar", "ctx:body", "rst-footnote-reference", "rst-citation-reference", "rst-toc-backref"} & set(pg["rstrefs"][v]) \
                        and any(v[1:] in p2["anchors"] for f2, p2 in cr["pages"].items() if f2 != fn and p2.get("object_page")):
                    # a `name_` reference of the first sentence, deep-copied into the summary by SummaryExtractor; its
                    # `.. _name:` target is further down the docstring and stays on the object's own page
                    sig = "dead-link:rst-docstring:summary-internal-reference"
                elif v.startswith("#rst-"):
                    # a reference kept in a copied summary (or elsewhere) whose docutils target was left behind
                    sig = "dead-link:rst-docstring:target-not-on-page"
                ctx.fail(sig, payload, "%s: %s=%r leads nowhere (%s)" % (fn, attr, v, why))
    # search documents: every lunr ref has its document, whose url leads somewhere
    docs = {}
    pg = cr["pages"].get("all-documents.html")
    for kind, ref, marked, extra in (pg["entries"] if pg else []):
        if kind == "alldocs":
            docs[extra.partition("\t")[0]] = ref
    for ref in cr["search"].get("searchindex.json", []):
        if ref not in docs:
            ctx.fail("dead-link:search-index:no-document", payload, "lunr ref %r has no entry in all-documents.html" % ref)
            continue
        ok, why = oc.resolve_ref(cr, "all-documents.html", docs[ref])
        if not ok:
            o = t.by_full.get(ref)
            ctx.fail(PERCENT if percent_encoded_on_disk(res, docs[ref]) else "dead-link:search-index:" + t.cause(o), payload, "search result %r -> %r leads nowhere (%s)" % (ref, docs[ref], why))
    # every documented object is where links expect it
    for o in t.objs:
        if not t.documented(o) or o["url"] is None:
            continue
        ok, why = oc.resolve_ref(cr, "index.html", o["url"])
        if not ok:
            kind = "page" if o["kind"] in "PMC" else "anchor"
            ctx.fail(PERCENT if percent_encoded_on_disk(res, o["url"]) else "missing-%s:%s" % (kind, why), payload, "%s (%s) is documented but %r does not exist" % (o["full"], o["kind"], o["url"]))
    nroots = len([o for o in t.objs if o["parent"] is None])
    for name in oc.SUMMARY_PAGES + (["index"] if nroots > 1 else []):
        if name + ".html" not in cr["files"]:
            ctx.fail("missing-summary-page:" + name, payload, name + ".html was not written")
        elif cr["pages"].get(name + ".html", {}).get("object_page"):
            # the file is there but it is the page of a module of that name: the summary page was overwritten
            ctx.fail("summary-page-replaced:%s" % ("several-roots" if nroots > 1 else "single-root"), payload,
                     "%s.html is the page of the root module %r, not the summary page" % (name, name))


def run(ctx: Ctx) -> None:
    total = 600 if ctx.quick else 4500
    rule_lists = 1 if ctx.quick else 2
    batch = 350
    done = 0
    first = True
    while done < total:
        n = min(batch, total - done)
        extra = oc.real_package_cases(ctx.rng) if first else ()
        good = oc.crawl_and_compare(ctx, n, rule_lists, extra_cases=extra, scenarios=first)
        first = False
        done += n
        _account(ctx, good)
        del good


def _account(ctx: Ctx, good) -> None:
    for res in good:
        t = res["truth"]
        nt = nontrivial(res)
        canon = repr((sorted(res["case"]["units"].items()), res["case"].get("path"), res["case"]["privacy"], sorted(res["case"]["opts"].items())))
        ctx.count("case-kind:" + ("corpus" if res["case"]["name"].startswith("corpus:") else "real" if res["case"].get("path")
                                  else "random" if res["case"]["name"].startswith("gen") else "scenario"))
        ctx.case(canon, nt, {"name": res["case"]["name"], "privacy": res["case"]["privacy"], "opts": res["case"]["opts"],
                             "modules": sorted(res["case"]["units"])} if nt else None)
        ctx.count("theme:" + res["case"]["opts"].get("theme", "classic"))
        ctx.count("objects", len(t.objs))
        ctx.count("pages", len(res["crawl"]["pages"]))
        ctx.count("links", sum(len(p["links"]) for p in res["crawl"]["pages"].values()))
        ctx.count("superseded-objects", sum(1 for o in t.objs if t.superseded(o)))
        ctx.count("hidden-objects", sum(1 for o in t.objs if t.hidden(o)))
        oracle(ctx, res)


def replay(ctx: Ctx, obj) -> int:
    print(obj.get("signature"), "-", obj.get("what"))
    res, secs = oc.replay_case(ctx, obj)
    if res is None:
        return 0
    sub = Ctx("C11", "quick", 0)
    oracle(sub, res)
    for f in sub.failures:
        print("ORACLE:", f["signature"], "x%d" % f["count"], "-", f["what"])
    if secs is not None:
        print("model: dead =", secs.get("dead", ""))
    return 0
