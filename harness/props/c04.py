"""C04 — a name resolves to what Python would bind it to, or not at all."""
from __future__ import annotations

import ast
import json
import subprocess
import sys
from typing import Any, Dict, List, Optional, Tuple

from ..core import Ctx, Infra, enc, subprocess_env, VERIF
from ..gen.bindings import BindGen
from ..gen.project import Unit, build_system
from .. import namesdump as nd

THEOREMS = ["Names.resolve_direct_import", "Names.resolve_module_alias", "Names.resolve_registered",
            "Names.relative_level_c04", "Names.expand_total"]
RULE = ("generated acyclic multi-package projects (globally unique definition names, one binding per name per scope; plain, "
        "aliased, from, relative, star imports, package re-imports, imports in class bodies, nested classes). CPython imports "
        "the project in a subprocess and reports, for every name bound in every module and class namespace and its attribute "
        "extensions, the identity of the bound object; pydoctor's resolveName is judged against that (direct oracle) and its "
        "expandName/resolveName answers are compared with the Lean Names model on the dumped state. Non-trivial = a dotted "
        "name, or a first component bound by an import.")
ASSUMPTIONS = ["identity of classes/functions = their unique `ID:` docstring; of variables = their unique integer value; of modules = __name__",
               "names contain no '.' (paths = dotted strings)"]
PARTIAL = {"Names.resolve_sound": "soundness against CPython is decided by the direct differential oracle on every generated "
                                  "name; the Lean theorems cover the two completeness clauses (direct import, module alias), "
                                  "totality and the relative-level rule"}


def files_of(units: List[Unit]) -> Dict[str, str]:
    res = {}
    for u in units:
        parts = u.qname.split(".")
        rel = "/".join(parts) + ("/__init__.py" if u.is_package else ".py")
        res[rel] = u.source
    return res


def run_cpython(projects: List[Dict[str, Any]]) -> List[Dict[str, Any]]:
    p = subprocess.run([sys.executable, str(VERIF / "harness" / "impl" / "pyrun.py")], input=json.dumps(projects),
                       stdout=subprocess.PIPE, stderr=subprocess.PIPE, text=True, env=subprocess_env(), timeout=900)
    if p.returncode != 0:
        raise Infra("CPython runner failed: " + p.stderr[-400:])
    return json.loads(p.stdout)


def pd_ident(o) -> List[Any]:
    from pydoctor import model
    if o is None:
        return ["none"]
    if isinstance(o, model.Module):
        return ["module", o.fullName()]
    if isinstance(o, (model.Class, model.Function)):
        d = o.docstring
        return ["def", d] if isinstance(d, str) and d.startswith("ID:") else ["other", o.fullName()]
    if isinstance(o, model.Attribute):
        v = getattr(o, "value", None)
        if isinstance(v, ast.Constant) and isinstance(v.value, (int, str)) and not isinstance(v.value, bool):
            return ["value", v.value]
        return ["other", o.fullName()]
    return ["other", repr(o)]


def run(ctx: Ctx) -> None:
    nproj = 150 if ctx.quick else 4000
    gens, projects = [], []
    for _ in range(nproj):
        g = BindGen(ctx.rng)
        units = g.project()
        gens.append((g, units))
        projects.append({"files": files_of(units), "modules": [u.qname for u in units]})
    pyres: List[Dict[str, Any]] = []
    B = 100
    for i in range(0, len(projects), B):
        pyres += run_cpython(projects[i:i + B])
    reqs, impls, pay = [], [], []
    for (g, units), py in zip(gens, pyres):
        src = {u.qname: u.source for u in units}
        if py["error"]:
            # the generator promised an importable project: not a verdict on pydoctor
            ctx.count("generator:not-importable:" + py["error"].split(" ")[0])
            ctx.extra.setdefault("not_importable_examples", [])
            if len(ctx.extra["not_importable_examples"]) < 3:
                ctx.extra["not_importable_examples"].append({"error": py["error"], "units": src})
            continue
        ctx.count("projects")
        from .c07 import Clock
        try:
            with Clock() as clk:
                system = build_system(units)
        except Exception as e:
            ctx.fail("analysis-crash:" + type(e).__name__, {"units": src}, f"{type(e).__name__}: {e}")
            continue
        toks, ids, objs = nd.state_tokens(system)
        queries, answers = [], []
        by_doc = {o.docstring: o for o in system.allobjects.values() if isinstance(o.docstring, str) and o.docstring.startswith("ID:")}
        for scope, names in py["scopes"].items():
            so = system.allobjects.get(scope)
            if so is None:
                # a class that a re-export moved elsewhere: find it by its identity, not by its definition-site name
                so = by_doc.get("ID:" + scope.rsplit(".", 1)[-1])
            if so is None:
                ctx.fail("scope-missing", {"units": src}, f"pydoctor has no object {scope}")
                continue
            for dotted, pyid in names.items():
                first = dotted.split(".")[0]
                form = g.scope_forms.get((scope, first), "?")
                try:
                    r = so.resolveName(dotted)
                except Exception as e:
                    ctx.fail("resolve-crash:" + type(e).__name__, {"units": src, "scope": scope, "name": dotted}, str(e))
                    continue
                pid = pd_ident(r)
                depth = dotted.count(".")
                nontriv = depth > 0 or form not in ("def", "class", "assign")
                ctx.case(scope + ":" + dotted + ":" + json.dumps(src, sort_keys=True)[:0] + str(id(units)), nontriv,
                         {"scope": scope, "name": dotted, "form": form, "python": pyid, "pydoctor": pid} if nontriv and len(ctx.samples) < 4 else None)
                ctx.count("form:" + form)
                ctx.count("depth:%d" % depth)
                if r is not None:
                    ctx.count("resolved")
                    if pyid[0] in ("def", "module", "value") and pid != pyid:
                        ctx.fail("unsound:%s:depth%d" % (form, min(depth, 2)),
                                 {"units": src, "scope": scope, "name": dotted},
                                 f"in {scope}, {dotted!r} resolves to {pid} but Python binds {pyid}")
                else:
                    ctx.count("unresolved:" + form)
                    # completeness clauses of the property
                    if depth == 0 and form in ("from_definer", "from_definer_relative") and pyid[0] == "def":
                        # the object may have been moved away from its defining module by a re-export (known finding)
                        target = next((o for o in system.allobjects.values() if o.docstring == pyid[1]), None)
                        moved = target is not None and id(target) in clk.moves
                        ctx.fail("incomplete:direct-import" + (":moved-object" if moved else ""), {"units": src, "scope": scope, "name": dotted},
                                 f"in {scope}, {dotted!r} (imported from its defining module) does not resolve")
                    if depth == 1 and form == "import_as" and pyid[0] in ("def", "value") and defined_in_aliased(g, scope, dotted, system):
                        target = next((o for o in system.allobjects.values() if pyid[0] == "def" and o.docstring == pyid[1]), None)
                        moved = target is not None and id(target) in clk.moves
                        ctx.fail("incomplete:module-alias" + (":moved-object" if moved else ""), {"units": src, "scope": scope, "name": dotted},
                                 f"in {scope}, {dotted!r} (through a module alias) does not resolve")
                if len(queries) < 400:
                    queries.append("E|%d|%s" % (ids[id(so)], enc(dotted)))
                    answers.append(nd.real_expand(so, dotted))
                    queries.append("R|%d|%s" % (ids[id(so)], enc(dotted)))
                    answers.append(nd.real_resolve(so, dotted, ids))
        if not nd.has_dotted_names(objs):
            reqs.append("names q " + " ".join(toks) + " ? " + " ".join(queries))
            impls.append("ok " + " ".join(answers))
            pay.append({"units": src})
    ctx.compare("names-queries", reqs, impls, pay)


def defined_in_aliased(g: BindGen, scope: str, dotted: str, system) -> bool:
    """is `al.x` a name that the aliased module itself defines (def/class/assign)?"""
    al, x = dotted.split(".")
    so = system.allobjects.get(scope)
    target = so._localNameToFullName_map.get(al) if hasattr(so, "_localNameToFullName_map") else None
    if not target:
        return False
    return g.scope_forms.get((target, x)) in ("def", "class", "assign")


def replay(ctx: Ctx, obj) -> int:
    inp = obj.get("input") or {}
    print(obj.get("signature"), "-", obj.get("what"))
    for q, s in (inp.get("units") or {}).items():
        print("#", q)
        print(s)
    print("scope:", inp.get("scope"), "name:", inp.get("name"))
    return 0
