"""C04 — a name resolves to what Python would bind it to, or not at all."""
from __future__ import annotations

import ast
import json
import subprocess
import sys
from typing import Any, Dict, List, Optional, Tuple

from ..core import Ctx, Infra, enc, dec, subprocess_env, VERIF
from ..gen.bindings import BindGen, abstract_project, Unsupported
from ..gen.project import Unit, build_system
from .. import namesdump as nd

THEOREMS = ["Names.resolve_direct_import", "Names.resolve_module_alias", "Names.resolve_registered",
            "Names.relative_level_c04", "Names.expand_total",
            # the code that BUILDS the alias maps (PdModel/Imports.lean) against CPython's import machinery (PdModel/PyImp.lean)
            "Imports.resolve_sound_partial", "Imports.resolve_from_definer", "Imports.resolve_via_module_alias",
            "Imports.resolve_sound_unbound_counterexample", "Imports.resolve_order_independent", "Imports.wf_run_clean",
            "Imports.resolve_sound_bases_counterexample", "Imports.resolve_sound_nobases",
            # inherited members (layer PdProps/C04Inh.lean: expand_soundI, class_bind_same, mro_member_class, pyDenotes_jI):
            # soundness without pyOwn for the sub-class classImportsUnique
            "Imports.resolve_sound_inherited", "Imports.resolve_order_independent_inherited",
            # re-exports (layers PdProps/C04ReexpA..G): soundness with MOVED objects, order independence, clean run
            "Imports.resolve_sound_reexport", "Imports.resolve_order_independent_reexport", "Imports.wfr_run_clean",
            "Imports.resolve_sound_reexport_of", "Imports.resolve_sound_reexport_partial_order_counterexample",
            # find_object's bare-name fall-back (fixed in /repo 996ac8b): historical counterexample over findObjectOld, and the
            # same project now inside WFr and order independent
            "Imports.find_object_bare_name_counterexample", "Imports.hidden_cycle_order_independent",
            # a submodule re-exported through a star import is processed before it is moved (/repo ec6815d): historical step
            # handleReExportOld, and the witness order independent now
            "Imports.star_module_reexport_counterexample", "Imports.star_module_order_independent",
            "Imports.reexport_sound_bounded", "Imports.ResolveSoundReexport.order_independent",
            # lemmas of PdProps/C04.lean they rest on (the layers below are PdProps/C04Base.lean and C04Clean.lean)
            "Imports.alias_of_stmt", "Imports.def_registered", "Imports.walk_path"]
RULE = ("generated acyclic multi-package projects (globally unique definition names, one binding per name per scope; plain, "
        "aliased, from, relative, star imports, package re-imports, imports in class bodies, nested classes, subclasses). CPython "
        "imports the project in a subprocess and reports, for every name bound in every module and class namespace and its "
        "attribute extensions (own and inherited), the identity of the bound object; pydoctor's resolveName is judged against that "
        "(direct oracle) and its expandName/resolveName answers are compared with the Lean Names model on the dumped state. The "
        "ABSTRACT project (a syntactic translation of the sources) is also run through the Lean model of the alias-map BUILDING code "
        "(`imports build`: registry, contents, alias maps and resolutions vs the real System) and through the Lean model of CPython's "
        "import machinery (`pyimp run`: namespaces and dotted names vs the interpreter); `imports wf` evaluates the theorems' "
        "hypothesis WF on every project; projects of the re-export shape (ShapeGen: definers, re-exporters with __all__, "
        "consumers of the old and the new names, subclasses of moved classes) are judged by the real pydoctor against the real "
        "CPython under several processing orders and searched for a counterexample to the relocated soundness statement on the "
        "two models (`imports rsound`); the shapes of the hunter round (run_hunter_shapes: re-import chains of module aliases, classes re-exported "
        "twice, alias assignments inside nested classes that shadow a module name, re-exported packages whose sub-modules use relative "
        "imports, aliases of inherited members taken while a base is unresolved) are generated with random variation and judged by the "
        "direct oracle under two processing orders. Non-trivial = a dotted name, or a first component bound by an import.")
ASSUMPTIONS = ["identity of classes/functions = their unique `ID:` docstring; of variables = their unique integer value; of modules = __name__",
               "names contain no '.' (paths = dotted strings)",
               "the source -> abstract-project translator (harness/gen/bindings.abstract_project, Python's own `ast`) is trusted: it "
               "decides which abstract project a source tree is; both models are compared with reality through it"]
PARTIAL = {"Imports.resolve_sound": "soundness is a theorem (Imports.resolve_sound_partial: for every WF project, every processing "
                                    "order of pydoctor, every import order of Python, every module/class scope and every dotted name "
                                    "that both sides bind, the same object) under WF = the property's quantifier (acyclic by a "
                                    "topological index, imports inside the project, names of modules and definitions globally unique, "
                                    "each name bound once per scope - a star import counted as binding every public name of its target "
                                    "and its __all__ -, root module names reserved, no definition name containing a space, base "
                                    "expressions are names) PLUS (1) the restriction noReexport (no __all__ re-export moves) - OR, with moves, WFr: the "
                                    "statement then is `a = finalLoc b` (Python's definition-site identity relocated to where the "
                                    "re-export documents the object) and it is PROVED (Imports.resolve_sound_reexport, with "
                                    "resolve_order_independent_reexport and wfr_run_clean: no hypothesis on the run, `reparent` raises "
                                    "nothing) for every processing order that covers every module "
                                    "(resolve_sound_reexport_partial_order_counterexample: without coverage it is false). WFr = WF with "
                                    "noReexport replaced by the decidable reexportShape of C07's property (one __all__ per module and no "
                                    "star import next to it; the re-exporter imports the object directly from the plain module that defines "
                                    "it - a top-level class/function the definer does not list itself; at most one re-exporter per object; "
                                    "new names not of the form `name i`; no import in class bodies) plus pkgFromOk (the implicit submodule "
                                    "lookup of `from <package> import n` is an import edge of lower rank, or `n` is bound in the package by "
                                    "nothing that could be a module), modNamesOk and aboveOk (every package above an import target, other than the importer, "
                                    "has a rank below the importer's: since /repo 0ba6723 getProcessedModule analyses the packages above a module first). The kernel-checked search (reexport_sound_bounded) and the "
                                    "streams reexport-sound-search / ShapeGen real-vs-CPython stay as the statement-level tie; "
                                    "and (2) EITHER for names whose class steps stay in the classes' own namespaces (PyImp.pyOwn; "
                                    "Imports.resolve_sound_partial) OR - INHERITED members included, no pyOwn - for the decidable "
                                    "sub-class classImportsUnique of WF (Imports.resolve_sound_inherited: a name bound by an import inside "
                                    "a class body is not the name of a definition made inside a class body, and imports that bind the "
                                    "same name in other class bodies bind it to the same thing; base classes written in any way, multiple "
                                    "inheritance, imports in class bodies allowed). Left: inherited names in projects where two classes "
                                    "bind the same name to different things, one of them by an import (there the ORDER of the MRO decides: needs soundness of base-class resolution + C05 "
                                    "pd_eq_cpython); the statement was false there before /repo d230b6e "
                                    "(Imports.resolve_sound_bases_counterexample, historical, over the old lookup expandLoopOld; finding "
                                    "unsound:inherited-attribute:base-import-skipped, fixed); such names are judged by the oracle and by "
                                    "the two correspondence streams. The clean-run side "
                                    "condition is discharged (Imports.wf_run_clean). Outside WF the direct differential oracle decides. Alias ASSIGNMENTS (`Y = X`, "
                                    "`Y = D.X`: astbuilder._handleAliasing) are NOT part of the abstract syntax of the two Lean models: what they bind is "
                                    "judged by the direct oracle only (findings unsound:nested-class:enclosing-class-scope, "
                                    "unsound:alias-through-class:provisional-mro, both fixed). The completeness clause is proved for ONE import step "
                                    "(resolve_from_definer, resolve_via_module_alias); through longer alias chains it is false on the current tree (open "
                                    "findings incomplete:module-alias:reimport-chain, incomplete:direct-import:moved-twice).",
           "Imports.resolve_sound_unbound": "without 'Python binds the name' the implication is false (star import of a package's "
                                            "not-yet-imported submodule: Imports.resolve_sound_unbound_counterexample) - outside the "
                                            "property's quantifier, an observation"}


def files_of(units: List[Unit]) -> Dict[str, str]:
    res = {}
    for u in units:
        parts = u.qname.split(".")
        rel = "/".join(parts) + ("/__init__.py" if u.is_package else ".py")
        res[rel] = u.source
    return res


def run_cpython(projects: List[Dict[str, Any]]) -> List[Dict[str, Any]]:
    p = subprocess.run([sys.executable, str(VERIF / "harness" / "impl" / "pyrun.py")], input=json.dumps(projects),
                       stdout=subprocess.PIPE, stderr=subprocess.PIPE, text=True, env=subprocess_env(), timeout=900)
    if p.returncode != 0:
        raise Infra("CPython runner failed: " + p.stderr[-400:])
    return json.loads(p.stdout)


def pd_ident(o) -> List[Any]:
    from pydoctor import model
    if o is None:
        return ["none"]
    if isinstance(o, model.Module):
        return ["module", o.fullName()]
    if isinstance(o, (model.Class, model.Function)):
        d = o.docstring
        return ["def", d] if isinstance(d, str) and d.startswith("ID:") else ["other", o.fullName()]
    if isinstance(o, model.Attribute):
        v = getattr(o, "value", None)
        if isinstance(v, ast.Constant) and isinstance(v.value, (int, str)) and not isinstance(v.value, bool):
            return ["value", v.value]
        return ["other", o.fullName()]
    return ["other", repr(o)]


# --------------------------------------------------------------------------------------------
# `imports build` / `pyimp run`: the abstract project (harness/gen/bindings.abstract_project, a syntactic
# translation of the generated sources) is given to the Lean models of the BUILDING code (PdModel/Imports.lean)
# and of CPython's import machinery (PdModel/PyImp.lean); their final states and answers are compared with the
# real pydoctor System and with what the interpreter reports.

def build_real(units: List[Unit], order: Optional[List[int]] = None):
    """the real System from the units (creation order = unit order); returns (system, module objects in
    unit order, number of handleDuplicate calls)"""
    from pydoctor import model
    s = model.System()
    b = s.systemBuilder(s)
    mods = []
    calls = [0]
    orig = model.System.handleDuplicate

    def counting(self, obj):
        calls[0] += 1
        return orig(self, obj)
    model.System.handleDuplicate = counting
    try:
        for u in units:
            b.addModuleString(u.source, u.name, parent_name=u.parent, is_package=u.is_package)
            mods.append(s.allobjects[u.qname])
        if order is not None:
            s.unprocessed_modules[:] = [mods[i] for i in order]
        b.buildModules()
    finally:
        model.System.handleDuplicate = orig
    return s, mods, calls[0]


def pd_dump(system) -> str:
    lines = []
    for k, o in system.allobjects.items():
        cont = ",".join(sorted(enc(n) for n in o.contents))
        al = ",".join(sorted("%s=%s" % (enc(a), enc(t)) for a, t in getattr(o, "_localNameToFullName_map", {}).items()))
        lines.append("%s;%s;%s;%s" % (enc(k), nd.cls_letter(o), cont, al))
    return " ".join(sorted(lines))


def split_scope(scope: str, modnames: List[str]) -> Tuple[int, List[str]]:
    best = max((q for q in modnames if scope == q or scope.startswith(q + ".")), key=len)
    rest = scope[len(best) + 1:]
    return modnames.index(best), (rest.split(".") if rest else [])


def real_walk(mods, m: int, chain: List[str]):
    o = mods[m]
    for c in chain:
        o = o.contents.get(c)
        if o is None:
            return None
    return o


def pd_answer(so, dotted: str) -> str:
    from pydoctor import model
    if so is None:
        return "NoScope"
    try:
        so.expandName(dotted)
    except Exception:
        return "Crash"
    try:
        r = so.resolveName(dotted)
    except Exception:
        return "Crash"
    if r is None:
        return "None"
    return ("m:" if isinstance(r, model.Module) else "d:") + enc(r.fullName())


def py_site(sid: str, info) -> str:
    """CPython's site identity (pyrun.site_ident) in the model's spelling"""
    if sid.startswith("v:"):
        site = info["values"].get(int(sid[2:]))
        return "d:" + enc(site) if site is not None else "?" + sid
    if sid[:2] in ("m:", "d:"):
        return sid[:2] + enc(sid[2:])
    return "?" + sid


def pd_site(o, info) -> Optional[str]:
    """definition-site identity of a pydoctor object (independent of where a re-export moved it)"""
    pid = pd_ident(o)
    if pid[0] == "module":
        return "m:" + enc(pid[1])
    if pid[0] == "def":
        site = info["defs"].get(pid[1][3:])
        return "d:" + enc(site) if site else None
    if pid[0] == "value" and isinstance(pid[1], int):
        site = info["values"].get(pid[1])
        return "d:" + enc(site) if site else None
    return None


def compare_lines(ctx: Ctx, stream: str, reqs: List[str], impls: List[Optional[str]], pay: List[Any]) -> None:
    """like ctx.compare; an implementation entry None = the real run raised: the model must say bad=true"""
    if not ctx.model_ok or not reqs:
        return
    outs = ctx.driver.run_parallel(list(reqs))
    for rq, mo, io, p in zip(reqs, outs, impls, pay):
        ctx.traces_validated += 1
        if io is None:
            if not mo.startswith("ok bad=true"):
                ctx.disagree(stream, p, mo, "the real run raised")
        elif mo != io:
            ctx.disagree(stream, p, mo, io)


def add_pyimp(ctx: Ctx, p_reqs, p_impl, p_pay, toks, info, modnames, src, py, import_order) -> None:
    order = "O|" + (",".join(map(str, import_order)) or "-")
    if py.get("error"):
        p_reqs.append("pyimp run " + " ".join(toks) + " " + order + " ?")
        p_impl.append("ok err=true")
        p_pay.append({"units": src, "python_error": py["error"], "import_order": import_order})
    elif "sites" in py:
        lines, queries, answers = [], [], []
        for scope, names in py["sites"].items():
            own = sorted("%s=%s" % (enc(k), py_site(v, info)) for k, v in names.items() if "." not in k)
            lines.append(enc(scope) + ";" + ",".join(own))
            m, chain = split_scope(scope, modnames)
            for dotted, v in names.items():
                if "." in dotted and len(queries) < 600:
                    queries.append("R|%d|%s|%s" % (m, enc(".".join(chain)) if chain else "-", enc(dotted)))
                    # `+`: reached through own attributes only (what the vars()-based walk of pyrun reports): PyImp.pyOwn
                    own = dotted in (py.get("scopes") or {}).get(scope, {})
                    answers.append(py_site(v, info) + ("+" if own else "-"))
                    ctx.count("pyimp:query-depth:%d" % dotted.count("."))
                    ctx.count("pyimp:own" if own else "pyimp:inherited")
        p_reqs.append("pyimp run " + " ".join(toks) + " " + order + " ? " + " ".join(queries))
        p_impl.append("ok err=false | " + " ".join(sorted(lines)) + " | " + " ".join(answers))
        p_pay.append({"units": src, "import_order": import_order})


def run_abstract(ctx: Ctx, gens, pyres) -> None:
    b_reqs, b_impl, b_pay = [], [], []
    p_reqs, p_impl, p_pay = [], [], []
    w_reqs, w_info = [], []
    o_reqs, o_impl, o_pay = [], [], []
    for (g, units), py in zip(gens, pyres):
        src = {u.qname: u.source for u in units}
        try:
            toks, info = abstract_project(units)
        except Unsupported as e:
            ctx.count("abstract:unsupported:" + str(e))
            continue
        ctx.count("abstract:projects")
        for k, v in info["forms"].items():
            ctx.count("abstract:form:" + k, v)
        modnames = info["mods"]
        order = "O|" + (",".join(str(i) for i in range(len(units))) or "-")
        # ---- (b) pyimp run: PyImp model vs CPython
        add_pyimp(ctx, p_reqs, p_impl, p_pay, toks, info, modnames, src, py, list(range(len(units))))
        # ---- (a) imports build: Imports model vs the real System
        try:
            system, mods, dupcalls = build_real(units)
        except Exception as e:
            b_reqs.append("imports build " + " ".join(toks) + " " + order + " ?")
            b_impl.append(None)
            b_pay.append({"units": src, "raised": "%s: %s" % (type(e).__name__, e)})
            continue
        queries, answers = [], []
        seen = set()

        def ask(m, chain, dotted):
            key = (m, tuple(chain), dotted)
            if key in seen or len(queries) >= 500 or not dotted or any(not p for p in dotted.split(".")):
                return
            seen.add(key)
            queries.append("R|%d|%s|%s" % (m, enc(".".join(chain)) if chain else "-", enc(dotted)))
            answers.append(pd_answer(real_walk(mods, m, chain), dotted))
        if not py.get("error"):
            for scope, names in (py.get("sites") or py.get("scopes") or {}).items():
                m, chain = split_scope(scope, modnames)
                for dotted in names:
                    ask(m, chain, dotted)
        # names only pydoctor binds (alias maps of every scope reachable from the modules) and one extension
        stack = [(i, [], mods[i]) for i in range(len(mods))]
        while stack:
            m, chain, o = stack.pop()
            for a in list(getattr(o, "_localNameToFullName_map", {})):
                ask(m, chain, a)
            for n, c in o.contents.items():
                ask(m, chain, n)
                if nd.cls_letter(c) == "C":
                    stack.append((m, chain + [n], c))
        b_reqs.append("imports build " + " ".join(toks) + " " + order + " ? " + " ".join(queries))
        b_impl.append("ok bad=%s | %s | %s" % ("true" if dupcalls else "false", pd_dump(system), " ".join(answers)))
        b_pay.append({"units": src})
        ctx.count("imports:queries", len(queries))
        # other processing orders of the same project (the theorems quantify over every order)
        for _ in range(2 if len(units) > 1 else 0):
            perm = list(range(len(units)))
            ctx.rng.shuffle(perm)
            try:
                sys2, mods2, dup2 = build_real(units, perm)
            except Exception as e:
                o_reqs.append("imports build " + " ".join(toks) + " O|" + ",".join(map(str, perm)) + " ?")
                o_impl.append(None)
                o_pay.append({"units": src, "order": perm, "raised": "%s: %s" % (type(e).__name__, e)})
                continue
            qs, ans = [], []
            for q in queries[:60]:
                _, m_, chain_, dotted_ = q.split("|")
                chain2 = dec(chain_).split(".") if chain_ != "-" else []
                qs.append(q)
                ans.append(pd_answer(real_walk(mods2, int(m_), chain2), dec(dotted_)))
            o_reqs.append("imports build " + " ".join(toks) + " O|" + ",".join(map(str, perm)) + " ? " + " ".join(qs))
            o_impl.append("ok bad=%s | %s | %s" % ("true" if dup2 else "false", pd_dump(sys2), " ".join(ans)))
            o_pay.append({"units": src, "order": perm})
            ctx.count("imports:orders")
        w_reqs.append("imports wf " + " ".join(toks) + " O|" + ",".join(str(g.rank[u.qname]) for u in units))
        w_info.append((src, not dupcalls, py.get("error")))
    compare_lines(ctx, "imports-build", b_reqs, b_impl, b_pay)
    compare_lines(ctx, "pyimp-run", p_reqs, p_impl, p_pay)
    compare_lines(ctx, "imports-build-orders", o_reqs, o_impl, o_pay)
    # the hypothesis of the theorems on every generated project; a WF project must have had a clean analysis and an
    # importable Python run (the two side conditions of Imports.resolve_sound_partial)
    if ctx.model_ok and w_reqs:
        outs = ctx.driver.run_parallel(w_reqs)
        for out, (src, clean, pyerr) in zip(outs, w_info):
            ctx.traces_validated += 1
            flags = dict(t.split("=") for t in out.split()[1:]) if out.startswith("ok ") else {}
            if not flags:
                ctx.disagree("imports-wf", {"units": src}, out, "ok wf=...")
                continue
            ctx.count("wf:" + ("yes" if flags["wf"] == "1" else "no"))
            for k, v in flags.items():
                if k not in ("wf", "classimports") and v == "0":
                    ctx.count("wf:fails:" + k)
            if flags["wf"] == "1":
                # the extra hypothesis of Imports.resolve_sound_inherited (not a component of WF)
                ctx.count("wf:classImportsUnique:" + ("yes" if flags.get("classimports") == "1" else "no"))
            if flags["wf"] == "1" and (not clean or pyerr):
                ctx.disagree("wf-clean", {"units": src}, "WF", "analysis not clean" if not clean else "python: " + str(pyerr))


def run(ctx: Ctx) -> None:
    nproj = 150 if ctx.quick else 4000
    gens, projects = [], []
    for _ in range(nproj):
        g = BindGen(ctx.rng)
        units = g.project()
        gens.append((g, units))
        projects.append({"files": files_of(units), "modules": [u.qname for u in units], "sites": True})
    pyres: List[Dict[str, Any]] = []
    B = 100
    for i in range(0, len(projects), B):
        pyres += run_cpython(projects[i:i + B])
    reqs, impls, pay = [], [], []
    for (g, units), py in zip(gens, pyres):
        src = {u.qname: u.source for u in units}
        if py["error"]:
            # the generator promised an importable project: not a verdict on pydoctor
            ctx.count("generator:not-importable:" + py["error"].split(" ")[0])
            ctx.extra.setdefault("not_importable_examples", [])
            if len(ctx.extra["not_importable_examples"]) < 3:
                ctx.extra["not_importable_examples"].append({"error": py["error"], "units": src})
            continue
        ctx.count("projects")
        from .c07 import Clock
        try:
            with Clock() as clk:
                system = build_system(units)
        except Exception as e:
            ctx.fail("analysis-crash:" + type(e).__name__, {"units": src}, f"{type(e).__name__}: {e}")
            continue
        toks, ids, objs = nd.state_tokens(system)
        queries, answers = [], []
        by_doc = {o.docstring: o for o in system.allobjects.values() if isinstance(o.docstring, str) and o.docstring.startswith("ID:")}
        for scope, names in py["scopes"].items():
            so = system.allobjects.get(scope)
            if so is None:
                # a class that a re-export moved elsewhere: find it by its identity, not by its definition-site name
                so = by_doc.get("ID:" + scope.rsplit(".", 1)[-1])
            if so is None:
                ctx.fail("scope-missing", {"units": src}, f"pydoctor has no object {scope}")
                continue
            for dotted, pyid in names.items():
                first = dotted.split(".")[0]
                form = g.scope_forms.get((scope, first), "?")
                try:
                    r = so.resolveName(dotted)
                except Exception as e:
                    ctx.fail("resolve-crash:" + type(e).__name__, {"units": src, "scope": scope, "name": dotted}, str(e))
                    continue
                pid = pd_ident(r)
                depth = dotted.count(".")
                nontriv = depth > 0 or form not in ("def", "class", "assign")
                ctx.case(scope + ":" + dotted + ":" + json.dumps(src, sort_keys=True)[:0] + str(id(units)), nontriv,
                         {"scope": scope, "name": dotted, "form": form, "python": pyid, "pydoctor": pid} if nontriv and len(ctx.samples) < 4 else None)
                ctx.count("form:" + form)
                ctx.count("depth:%d" % depth)
                if r is not None:
                    ctx.count("resolved")
                    if pyid[0] in ("def", "module", "value") and pid != pyid:
                        ctx.fail("unsound:%s:depth%d" % (form, min(depth, 2)),
                                 {"units": src, "scope": scope, "name": dotted},
                                 f"in {scope}, {dotted!r} resolves to {pid} but Python binds {pyid}")
                else:
                    ctx.count("unresolved:" + form)
                    # completeness clauses of the property
                    if depth == 0 and form in ("from_definer", "from_definer_relative") and pyid[0] == "def":
                        # the object may have been moved away from its defining module by a re-export (known finding)
                        target = next((o for o in system.allobjects.values() if o.docstring == pyid[1]), None)
                        moved = target is not None and id(target) in clk.moves
                        ctx.fail("incomplete:direct-import" + (":moved-object" if moved else ""), {"units": src, "scope": scope, "name": dotted},
                                 f"in {scope}, {dotted!r} (imported from its defining module) does not resolve")
                    if depth == 1 and form == "import_as" and pyid[0] in ("def", "value") and defined_in_aliased(g, scope, dotted, system):
                        target = next((o for o in system.allobjects.values() if pyid[0] == "def" and o.docstring == pyid[1]), None)
                        moved = target is not None and id(target) in clk.moves
                        ctx.fail("incomplete:module-alias" + (":moved-object" if moved else ""), {"units": src, "scope": scope, "name": dotted},
                                 f"in {scope}, {dotted!r} (through a module alias) does not resolve")
                if len(queries) < 400:
                    queries.append("E|%d|%s" % (ids[id(so)], enc(dotted)))
                    answers.append(nd.real_expand(so, dotted))
                    queries.append("R|%d|%s" % (ids[id(so)], enc(dotted)))
                    answers.append(nd.real_resolve(so, dotted, ids))
        # attributes a class inherits (reported by CPython along the MRO, not in the class's own namespace)
        try:
            _, info = abstract_project(units)
        except Unsupported:
            info = None
        for scope, names in ((py.get("sites") or {}).items() if info else ()):
            so = system.allobjects.get(scope) or by_doc.get("ID:" + scope.rsplit(".", 1)[-1])
            own = py["scopes"].get(scope, {})
            if so is None:
                continue
            for dotted, sid in names.items():
                if dotted in own:
                    continue
                ctx.count("inherited-attribute-names")
                try:
                    r = so.resolveName(dotted)
                except Exception as e:
                    ctx.fail("resolve-crash:" + type(e).__name__, {"units": src, "scope": scope, "name": dotted}, str(e))
                    continue
                if r is None:
                    ctx.count("inherited-attribute-names:unresolved")
                    continue
                ps, cs = pd_site(r, info), py_site(sid, info)
                if ps is not None and not cs.startswith("?") and ps != cs:
                    ctx.fail("unsound:inherited-attribute:enclosing-scope-first", {"units": src, "scope": scope, "name": dotted},
                             f"in {scope}, {dotted!r} resolves to {r.fullName()} but Python's attribute lookup gives {sid}")
        if not nd.has_dotted_names(objs):
            reqs.append("names q " + " ".join(toks) + " ? " + " ".join(queries))
            impls.append("ok " + " ".join(answers))
            pay.append({"units": src})
    ctx.compare("names-queries", reqs, impls, pay)
    run_abstract(ctx, gens, pyres)
    # the same projects imported by CPython in the REVERSE module order (the theorems hold for every import order)
    nrev = 50 if ctx.quick else 600
    sub = [(gu, pr) for gu, pr in zip(gens[:nrev], projects[:nrev])]
    rev_projects = [dict(pr, modules=list(reversed(pr["modules"]))) for _, pr in sub]
    rev_res: List[Dict[str, Any]] = []
    for i in range(0, len(rev_projects), B):
        rev_res += run_cpython(rev_projects[i:i + B])
    p_reqs, p_impl, p_pay = [], [], []
    for ((g, units), _), py in zip(sub, rev_res):
        try:
            toks, info = abstract_project(units)
        except Unsupported:
            continue
        n = len(units)
        add_pyimp(ctx, p_reqs, p_impl, p_pay, toks, info, info["mods"], {u.qname: u.source for u in units}, py,
                  list(range(n - 1, -1, -1)))
        ctx.count("pyimp:reverse-order")
    compare_lines(ctx, "pyimp-run-reversed", p_reqs, p_impl, p_pay)
    run_reexports(ctx)
    run_reexport_sound(ctx)
    replay_hidden_cycle_witness(ctx)
    replay_early_mro_witness(ctx)
    replay_unresolved_base_witness(ctx)
    replay_star_module_witness(ctx)
    replay_class_member_reexport_witness(ctx)
    run_hunter_shapes(ctx)
    replay_witnesses(ctx)


def run_reexports(ctx: Ctx) -> None:
    """the re-export scenarios of C07 (definer, one re-exporter, consumers; plain / renamed / star / repeated imports)
    under every reachable processing order: the Lean model of the BUILDING code, `_handleReExport` and `reparent` included,
    against the real System (registry, contents, alias maps, resolutions of the old and the new names)"""
    from .c07 import gen_project, orders
    reqs, impls, pay = [], [], []
    for _ in range(25 if ctx.quick else 400):
        units, meta = gen_project(ctx.rng)
        src = {u.qname: u.source for u in units}
        try:
            toks, info = abstract_project(units, pd_only=True)
        except Unsupported as e:
            ctx.count("reexport:unsupported:" + str(e))
            continue
        ctx.count("reexport:scenarios")
        ctx.count("reexport:import:" + meta["import"])
        names = ["X", "Y", "XD", "XR", "Other", "X.m", "XD.m", "XR.Inner", "Y.Inner.im"] + \
            [c["alias"] for c in meta["consumers"] if c["alias"]] + ["pkg._b.X", "pkg.X", "pkg.api.X", "pkg.Y", "pkg._b.X.m"]
        for order in orders(units, ctx.rng, 4 if ctx.quick else 8):
            try:
                system, mods, dup = build_real(units, order)
            except Exception as e:
                reqs.append("imports build " + " ".join(toks) + " O|" + ",".join(map(str, order)) + " ?")
                impls.append(None)
                pay.append({"units": src, "order": order, "raised": "%s: %s" % (type(e).__name__, e)})
                continue
            qs, ans = [], []
            for m in range(len(units)):
                for dotted in names:
                    qs.append("R|%d|-|%s" % (m, enc(dotted)))
                    ans.append(pd_answer(mods[m], dotted))
            reqs.append("imports build " + " ".join(toks) + " O|" + ",".join(map(str, order)) + " ? " + " ".join(qs))
            impls.append("ok bad=%s | %s | %s" % ("true" if dup else "false", pd_dump(system), " ".join(ans)))
            pay.append({"units": src, "order": order})
            ctx.count("reexport:orders")
    compare_lines(ctx, "imports-build-reexports", reqs, impls, pay)


class ShapeGen:
    """projects of the re-export shape of C07's property (Imports.reexportShape): plain-module definers, re-exporters
    (a package `__init__` / a sibling module) that import classes and functions DIRECTLY from the module that defines
    them and list them in `__all__` (renamed or not), at most one re-exporter per object, no import in a class body;
    consumers that import the old name, the new name, through module aliases, by star imports, and subclass moved
    classes.  Acyclic; definition names globally unique; every name bound once per scope."""

    def __init__(self, rng) -> None:
        self.rng = rng
        self.n = 0

    def fresh(self, p: str) -> str:
        self.n += 1
        return "%s%d" % (p, self.n)

    def cls(self, ind: str, base: Optional[str], depth: int = 0) -> Tuple[str, List[str]]:
        rng = self.rng
        c = self.fresh("C")
        out = [ind + "class %s%s:" % (c, "(%s)" % base if base else ""), ind + "    '''ID:%s'''" % c]
        for _ in range(rng.randint(0, 2)):
            m = self.fresh("M")
            out += [ind + "    def %s(self):" % m, ind + "        '''ID:%s'''" % m]
        if rng.random() < 0.4:
            v = self.fresh("V")
            out.append(ind + "    %s = %d" % (v, 1000000 + self.n))
        if depth < 1 and rng.random() < 0.35:
            out += self.cls(ind + "    ", None, depth + 1)[1]
        return c, out

    def project(self) -> Tuple[List[Unit], List[int]]:
        rng = self.rng
        # layout (a package comes before its modules); the generation order below is the topological one
        definers = ["pk._a", "pk._b"][: rng.randint(1, 2)] + (["d1"] if rng.random() < 0.5 else [])
        reexps = ["pk"] + (["pk.api"] if rng.random() < 0.5 else [])
        consumers = ["c1"] + (["c2"] if rng.random() < 0.6 else []) + (["pk.use"] if rng.random() < 0.6 else [])
        lines: Dict[str, List[str]] = {q: ["'''module %s'''" % q] for q in definers + reexps + consumers}
        bound: Dict[str, Dict[str, str]] = {q: {} for q in lines}          # name -> "cls" / "fn" / "var" / "imp"
        has_all: Dict[str, Optional[List[str]]] = {q: None for q in lines}
        taken: set = set()                                                  # (definer, name) already re-exported
        done: List[str] = []

        def rel(frm: str, to: str) -> Optional[str]:
            """`to` written relatively from module `frm` (both inside pk), else None"""
            if not (frm.startswith("pk") and to.startswith("pk.")):
                return None
            return "." + to[len("pk."):] if frm != "pk" or True else None

        def modref(frm: str, to: str) -> str:
            if rng.random() < 0.4:
                r = rel(frm, to)
                if r is not None and frm != to:
                    return r
            return to

        for q in definers:
            base_src = [d for d in done if d in definers]
            if base_src and rng.random() < 0.5:
                d = rng.choice(base_src)
                cs = [n for n, k in bound[d].items() if k == "cls"]
                if cs:
                    b = rng.choice(cs)
                    lines[q].append("from %s import %s" % (modref(q, d), b))
                    bound[q][b] = "imp"
            for _ in range(rng.randint(1, 3)):
                bases = [n for n, k in bound[q].items() if k in ("cls", "imp")]
                c, out = self.cls("", rng.choice(bases) if bases and rng.random() < 0.4 else None)
                lines[q] += out
                bound[q][c] = "cls"
            for _ in range(rng.randint(0, 2)):
                f = self.fresh("F")
                lines[q] += ["def %s(a=1):" % f, "    '''ID:%s'''" % f]
                bound[q][f] = "fn"
            if rng.random() < 0.4:
                v = self.fresh("V")
                lines[q].append("%s = %d" % (v, 1000000 + self.n))
                bound[q][v] = "var"
            done.append(q)
        for q in reexps:
            exported: List[str] = []
            for _ in range(rng.randint(1, 3)):
                d = rng.choice(definers)
                cands = [n for n, k in bound[d].items() if k in ("cls", "fn") and (d, n) not in taken]
                if not cands:
                    continue
                n = rng.choice(cands)
                al = n if rng.random() < 0.65 else self.fresh("R")
                if al in bound[q]:
                    continue
                lines[q].append("from %s import %s%s" % (modref(q, d), n, "" if al == n else " as " + al))
                bound[q][al] = "imp"
                if rng.random() < 0.8:
                    taken.add((d, n))
                    exported.append(al)
            if rng.random() < 0.4:
                c, out = self.cls("", None)
                lines[q] += out
                bound[q][c] = "cls"
                if rng.random() < 0.5:
                    exported.append(c)
            if exported or rng.random() < 0.5:
                rng.shuffle(exported)
                lines[q].append("__all__ = %r" % exported)
                has_all[q] = list(exported)
            done.append(q)
        for q in consumers:
            srcs = definers + reexps
            if rng.random() < 0.35:
                t = rng.choice(srcs)
                names = has_all[t] if has_all[t] is not None else [n for n in bound[t] if not n.startswith("_")]
                if names and not any(n in bound[q] for n in names):
                    lines[q].append("from %s import *" % modref(q, t))
                    for n in names:
                        bound[q][n] = "imp"
            for _ in range(rng.randint(1, 4)):
                t = rng.choice(srcs)
                form = rng.choice(["from", "from", "from_as", "import_as", "import"])
                if form in ("from", "from_as"):
                    cands = [n for n in bound[t]]
                    if not cands:
                        continue
                    n = rng.choice(cands)
                    al = n if form == "from" else self.fresh("al")
                    if al in bound[q]:
                        continue
                    lines[q].append("from %s import %s%s" % (modref(q, t), n, "" if al == n else " as " + al))
                    bound[q][al] = "cls" if bound[t][n] == "cls" or (bound[t][n] == "imp" and n.startswith("C")) else "imp"
                elif form == "import_as":
                    al = self.fresh("mm")
                    lines[q].append("import %s as %s" % (t, al))
                    bound[q][al] = "mod"
                else:
                    top = t.split(".")[0]
                    if top not in bound[q]:
                        lines[q].append("import %s" % t)
                        bound[q][top] = "mod"
            bases = [n for n, k in bound[q].items() if k == "cls"]
            if bases and rng.random() < 0.6:
                c, out = self.cls("", rng.choice(bases))
                lines[q] += out
                bound[q][c] = "cls"
            done.append(q)
        layout = [q for q in ["pk", "pk._a", "pk._b", "pk.api", "pk.use", "d1", "c1", "c2"] if q in lines]
        units = [Unit(q, q == "pk", "\n".join(lines[q]) + "\n", "pk" if q.startswith("pk.") else None) for q in layout]
        return units, [layout.index(q) for q in done]


def package_cycle(units: List[Unit]) -> bool:
    """is the import graph cyclic once the packages ABOVE an imported module are counted as imported too (Python initialises
    them first; since /repo 0ba6723 pydoctor analyses them first as well)? Such a project is importable only in some import
    orders: outside the property's quantifier (acyclic projects)."""
    names = {u.qname: u for u in units}
    edges: Dict[str, set] = {u.qname: set() for u in units}

    def add(src: str, target: str) -> None:
        parts = target.split(".")
        for i in range(1, len(parts) + 1):
            t = ".".join(parts[:i])
            if t in names and t != src:
                edges[src].add(t)

    for u in units:
        try:
            tree = ast.parse(u.source)
        except SyntaxError:
            continue
        pkg = u.qname if u.is_package else u.qname.rpartition(".")[0]
        for node in ast.walk(tree):
            if isinstance(node, ast.Import):
                for al in node.names:
                    add(u.qname, al.name)
            elif isinstance(node, ast.ImportFrom):
                base = node.module or ""
                if node.level:
                    up = pkg.split(".") if pkg else []
                    up = up[:len(up) - (node.level - 1)] if node.level - 1 <= len(up) else []
                    base = ".".join(up + ([node.module] if node.module else []))
                if base:
                    add(u.qname, base)
                    for al in node.names:
                        if base + "." + al.name in names:
                            add(u.qname, base + "." + al.name)
    state: Dict[str, int] = {}

    def dfs(v: str) -> bool:
        state[v] = 1
        for w in edges[v]:
            if state.get(w) == 1 or (w not in state and dfs(w)):
                return True
        state[v] = 2
        return False
    return any(v not in state and dfs(v) for v in edges)


def run_reexport_sound(ctx: Ctx) -> None:
    """item 3 (`noReexport` is not lifted as a theorem): the STATEMENT `pydoctor resolves a name to a, Python binds it to b
    => a = finalLoc b` (identity by definition site, relocated to the re-exporter) and its order independence, searched for a
    counterexample on projects of the re-export shape (ShapeGen, the C07 scenarios, BindGen with re-exports)
    (1) at the level of the two Lean models (`imports rsound`: every dotted name of <= 3 components over the identifiers of the
        project, every scope, every given processing order; a violation on a project that satisfies the decidable
        hypothesis WFr = WF with noReexport replaced by reexportShape is a disagreement), and
    (2) on the real pydoctor and the real CPython for the ShapeGen projects: every name CPython binds, under several
        processing orders, identity by `ID:` docstring (location-independent); the registry / alias-map dump of every run
        is compared with the model (`imports build`)."""
    from .c07 import gen_project, orders
    import re
    reqs, pay = [], []
    # --- ShapeGen: models + real systems
    shape = []
    for _ in range(30 if ctx.quick else 200):
        units, topo = ShapeGen(ctx.rng).project()
        shape.append((units, topo))
    pyres = run_cpython([{"files": files_of(u), "modules": [x.qname for x in u], "sites": True} for u, _ in shape])
    b_reqs, b_impl, b_pay = [], [], []
    for (units, topo), py in zip(shape, pyres):
        src = {u.qname: u.source for u in units}
        if py["error"]:
            ctx.count("rsound:shape:not-importable")
            ctx.extra.setdefault("not_importable_examples", [])
            if len(ctx.extra["not_importable_examples"]) < 3:
                ctx.extra["not_importable_examples"].append({"error": py["error"], "units": src})
            continue
        try:
            toks, info = abstract_project(units)
        except Unsupported as e:
            ctx.count("rsound:shape:unsupported:" + str(e))
            continue
        n = len(units)
        ords = [topo, list(reversed(topo)), list(range(n))]
        for _k in range(1 if ctx.quick else 3):
            o = list(range(n))
            ctx.rng.shuffle(o)
            ords.append(o)
        reqs.append("imports rsound " + " ".join(toks) + " O|- ? " + " ".join(",".join(map(str, o)) for o in ords))
        pay.append({"units": src, "orders": ords, "gen": "shape"})
        answers = []
        for order in ords:
            try:
                system, mods, dup = build_real(units, order)
            except Exception as e:
                ctx.fail("analysis-crash:" + type(e).__name__, {"units": src, "order": order}, f"{type(e).__name__}: {e}")
                continue
            by_doc = {o.docstring: o for o in system.allobjects.values()
                      if isinstance(o.docstring, str) and o.docstring.startswith("ID:")}
            ans, qs, qa = [], [], []
            modnames = [u.qname for u in units]
            # every name CPython binds (own namespaces and, through `__mro__`, inherited attributes), identity by
            # definition site - independent of where a re-export moved the documentation
            for scope, names in sorted((py.get("sites") or {}).items()):
                m_, chain = split_scope(scope, modnames)
                so = real_walk(mods, m_, chain) or by_doc.get("ID:" + scope.rsplit(".", 1)[-1])
                if so is None:
                    ctx.fail("scope-missing", {"units": src, "order": order}, f"pydoctor has no object {scope}")
                    continue
                for dotted, sid in sorted(names.items()):
                    try:
                        r = so.resolveName(dotted)
                    except Exception as e:
                        ctx.fail("resolve-crash:" + type(e).__name__, {"units": src, "scope": scope, "name": dotted}, str(e))
                        continue
                    ps, cs = (pd_site(r, info) if r is not None else None), py_site(sid, info)
                    ans.append((scope, dotted, ps))
                    ctx.count("rsound:shape:real-names")
                    if dotted not in py["scopes"].get(scope, {}):
                        ctx.count("rsound:shape:real-names:inherited")
                    if r is not None and ps is not None and not cs.startswith("?") and ps != cs:
                        ctx.fail("unsound:reexport-shape", {"units": src, "scope": scope, "name": dotted, "order": order},
                                 f"in {scope}, {dotted!r} resolves to {r.fullName()} (defined at {ps}) but Python binds {sid}")
                    if real_walk(mods, m_, chain) is not None and len(qs) < 300:
                        qs.append("R|%d|%s|%s" % (m_, enc(".".join(chain)) if chain else "-", enc(dotted)))
                        qa.append(pd_answer(so, dotted))
            b_reqs.append("imports build " + " ".join(toks) + " O|" + ",".join(map(str, order)) + " ? " + " ".join(qs))
            b_impl.append("ok bad=%s | %s | %s" % ("true" if dup else "false", pd_dump(system), " ".join(qa)))
            b_pay.append({"units": src, "order": order})
            answers.append(ans)
        if package_cycle(units):
            # importable only in some import orders (a package above an imported module imports the importer back)
            ctx.count("rsound:shape:package-cycle")
        for a in (answers[1:] if not package_cycle(units) else []):
            if a != answers[0]:
                diffs = [(x, y) for x, y in zip(answers[0], a) if x != y]
                two = [d for d in diffs if d[0][2] is not None and d[1][2] is not None]
                if two:         # two different objects: against resolve_order_independent_reexport
                    ctx.fail("order-dependent:reexport-shape", {"units": src, "orders": ords},
                             f"resolution depends on the processing order: {two[0][0]} vs {two[0][1]}")
                else:           # resolved under one order, not at all under another (both allowed by C04's statement)
                    ctx.fail("order-dependent:reexport-shape:unresolved-in-one-order", {"units": src, "orders": ords},
                             f"whether the name is resolved depends on the processing order: {diffs[0][0]} vs {diffs[0][1]}")
                break
    compare_lines(ctx, "imports-build-shape", b_reqs, b_impl, b_pay)
    # --- the C07 scenarios (annotated variables dropped: the abstract syntax has no annotated assignment)
    for _ in range(15 if ctx.quick else 100):
        units, meta = gen_project(ctx.rng)
        units2 = [Unit(u.qname, u.is_package, re.sub(r"(?m)^v_\w+: .*\n'''var'''\n", "", u.source), u.parent) for u in units]
        try:
            toks, info = abstract_project(units2)
        except Unsupported as e:
            ctx.count("rsound:c07:unsupported:" + str(e))
            continue
        ords = orders(units, ctx.rng, 4 if ctx.quick else 8)
        reqs.append("imports rsound " + " ".join(toks) + " O|- ? " + " ".join(",".join(map(str, o)) for o in ords))
        pay.append({"units": {u.qname: u.source for u in units2}, "orders": ords, "gen": "c07"})
    # --- BindGen with re-exports (mostly outside the shape: chains, star re-exports, packages as definers)
    for _ in range(15 if ctx.quick else 100):
        g = BindGen(ctx.rng, class_imports=False, reexports=True, subclasses=True)
        units = g.project()
        try:
            toks, info = abstract_project(units)
        except Unsupported:
            ctx.count("rsound:bind:unsupported")
            continue
        n = len(units)
        ords = [list(range(n)), list(range(n - 1, -1, -1))]
        reqs.append("imports rsound " + " ".join(toks) + " O|" + ",".join(str(g.rank[u.qname]) for u in units) + " ? "
                    + " ".join(",".join(map(str, o)) for o in ords))
        pay.append({"units": {u.qname: u.source for u in units}, "orders": ords, "gen": "bind"})
    if not (ctx.model_ok and reqs):
        return
    outs = ctx.driver.run_parallel(reqs)
    for out, p in zip(outs, pay):
        ctx.traces_validated += 1
        flags = dict(t.split("=", 1) for t in out.split()[1:]) if out.startswith("ok ") else {}
        if not flags:
            ctx.disagree("reexport-sound-search", p, out, "ok wfr=...")
            continue
        key = "rsound:%s:" % p["gen"]
        moved = int(flags["reqs"]) > 0
        ctx.count(key + ("wfr" if flags["wfr"] == "1" else "not-wfr") + (":with-reexports" if moved else ":no-reexports"))
        if flags["wfr"] == "1" and moved:
            ctx.count("rsound:model-names-checked", int(flags["checked"]))
            ctx.count("rsound:model-order-runs", len(p["orders"]))
        if flags["viol"] != "0":
            if flags["wfr"] == "1":
                ctx.disagree("reexport-sound-search", p, "no violation of `a = finalLoc b` on a WFr project", out)
            else:
                ctx.count(key + "violations-outside-wfr")


def replay_hidden_cycle_witness(ctx: Ctx) -> None:
    """the witness of Imports.find_object_bare_name_counterexample / hidden_cycle_order_independent on the real pydoctor: before
    /repo 996ac8b `from p import qq` made getProcessedModule('p.qq') find - through find_object's bare-name fall-back - and
    PROCESS the unrelated root module `qq`, and where `K` is documented then depended on the processing order (finding
    order-dependent:find-object-bare-name, fixed). Now: `qq.K` under both orders, as the model says."""
    units = [Unit("p", True, "", None),
             Unit("dd", False, "try:\n    from p import qq as z\nexcept ImportError:\n    z = None\nclass K:\n    '''ID:K'''\n", None),
             Unit("qq", False, "from dd import K\n__all__ = ['K']\n", None)]
    where = []
    for order in ([1, 2, 0], [2, 1, 0]):
        system, _, _ = build_real(units, order)
        where.append(sorted(o.fullName() for o in system.allobjects.values() if o.docstring == "ID:K"))
    ctx.traces_validated += 1
    if where[0] != where[1]:
        ctx.fail("order-dependent:find-object-bare-name", {"units": {u.qname: u.source for u in units}, "orders": [[1, 2, 0], [2, 1, 0]]},
                 "the class K of dd.py is documented as %s when dd is processed first and as %s when qq is" % (where[0], where[1]))
    else:
        if where != [["qq.K"], ["qq.K"]]:       # Imports.hidden_cycle_order_independent
            ctx.disagree("witness-hidden-cycle", {"units": {u.qname: u.source for u in units}}, [["qq.K"], ["qq.K"]], where)
        ctx.count("witness:hidden-cycle:order-independent-now")


def replay_early_mro_witness(ctx: Ctx) -> None:
    """`Class.mro()` while the modules are visited (Imports.midMro; /repo 7c3f474: C3 over the bases resolved so far, not the
    depth-first `allbases`): a base written as an INHERITED nested class (`class E(D.N)`, diamond `D(B, C)`, `N` defined in
    `A` and in `C`) is resolved at visit time through `D.mro()`; what `E` inherits (`w`, bound in both `N`s) shows it. Model vs the real System, and
    the real System vs CPython."""
    src = ("class A:\n    '''ID:A'''\n    class N:\n        '''ID:AN'''\n        w = 1\n"
           "class B(A):\n    '''ID:B'''\n"
           "class C(A):\n    '''ID:C'''\n    class N:\n        '''ID:CN'''\n        w = 2\n"
           "class D(B, C):\n    '''ID:D'''\n"
           "class E(D.N):\n    '''ID:E'''\n")
    units = [Unit("M", False, src, None)]
    try:
        toks, info = abstract_project(units, pd_only=True)
    except Unsupported as e:
        ctx.count("witness:early-mro:unsupported:" + str(e))
        return
    system, mods, dup = build_real(units, [0])
    names = ["E.w", "D.N", "D.N.w", "C.N.w", "A.N.w"]
    qs = ["R|0|-|%s" % enc(d) for d in names]
    ans = [pd_answer(mods[0], d) for d in names]
    compare_lines(ctx, "imports-build-early-mro",
                  ["imports build " + " ".join(toks) + " O|0 ? " + " ".join(qs)],
                  ["ok bad=%s | %s | %s" % ("true" if dup else "false", pd_dump(system), " ".join(ans))],
                  [{"units": {"M": src}, "names": names}])
    py = run_cpython([{"files": files_of(units), "modules": ["M"], "sites": True}])[0]
    pyv = (py.get("sites") or {}).get("M", {}).get("E.w")
    r = mods[0].resolveName("E.w")
    pd = None if r is None else r.fullName()
    ctx.case("witness:early-mro:E.w", True, {"pydoctor": pd, "python": pyv})
    if py.get("error") or pyv != "v:2":
        ctx.disagree("witness-early-mro", {"units": {"M": src}}, "Python: E.w is the variable 2 of C.N", str(pyv))
    elif pd is not None and pd != "M.C.N.w":
        ctx.fail("unsound:inherited-nested-base:depth-first", {"units": {"M": src}, "scope": "M", "name": "E.w"},
                 f"in M, 'E.w' resolves to {pd} but E derives from D.N = C.N (C3 order of D), whose w Python finds")
    else:
        ctx.count("witness:early-mro:sound-now")


def replay_unresolved_base_witness(ctx: Ctx) -> None:
    """`expandName`'s walk over `obj.mro()` while the modules are visited stops after a class with an unresolved base (/repo
    d15323d; Imports.midWalk): `class E(D.X)` with `D(BB1, B2)`, `BB1` re-imported (not resolved at visit time), `X` bound by an
    import in `B1` and in `B2`. Before the fix the base of `E` was the `X` of `B2`. Model vs the real System (the alias-assignment
    form `Y = D.X` of the same defect is judged by run_hunter_shapes, outside the abstract syntax), System vs CPython."""
    q3 = "'" * 3
    units = [Unit("pkg", True, "", None),
             Unit("pkg.defs", False, f"class P:\n    {q3}ID:P{q3}\n    pv = 701\nclass Q:\n    {q3}ID:Q{q3}\n    qv = 702\n", "pkg"),
             Unit("pkg.bmod", False, f"class B1:\n    {q3}ID:B1{q3}\n    from .defs import P as X\nclass B2:\n    {q3}ID:B2{q3}\n"
                                     "    from .defs import Q as X\n", "pkg"),
             Unit("pkg.cmod", False, "from .bmod import B1\n", "pkg"),
             Unit("pkg.dmod", False, f"from .cmod import B1 as BB1\nfrom .bmod import B2\nclass D(BB1, B2):\n    {q3}ID:D{q3}\n"
                                     f"class E(D.X):\n    {q3}ID:E{q3}\n", "pkg")]
    try:
        toks, _info = abstract_project(units, pd_only=True)
    except Unsupported as e:
        ctx.count("witness:unresolved-base:unsupported:" + str(e))
        return
    names = ["E.pv", "E.qv", "D.X", "D.X.pv"]
    reqs, impls, pay = [], [], []
    got = []
    for order in ([0, 1, 2, 3, 4], [4, 3, 2, 1, 0]):
        system, mods, dup = build_real(units, order)
        qs = ["R|4|-|%s" % enc(d) for d in names]
        ans = [pd_answer(mods[4], d) for d in names]
        reqs.append("imports build " + " ".join(toks) + " O|" + ",".join(map(str, order)) + " ? " + " ".join(qs))
        impls.append("ok bad=%s | %s | %s" % ("true" if dup else "false", pd_dump(system), " ".join(ans)))
        pay.append({"units": {u.qname: u.source for u in units}, "order": order})
        r = mods[4].resolveName("E.qv")
        got.append(None if r is None else r.fullName())
    compare_lines(ctx, "imports-build-unresolved-base", reqs, impls, pay)
    py = run_cpython([{"files": files_of(units), "modules": [u.qname for u in units], "sites": True}])[0]
    pyv = (py.get("sites") or {}).get("pkg.dmod", {}).get("E.pv")
    ctx.traces_validated += 1
    if py.get("error") or pyv != "v:701":
        ctx.disagree("witness-unresolved-base", {"units": {u.qname: u.source for u in units}}, "Python: E.pv is the 701 of P", str(pyv))
    elif any(g is not None for g in got):
        # E.qv is not bound for Python: no verdict of the property, only the sign that the base of E was taken from B2
        ctx.count("witness:unresolved-base:base-from-later-class")
    else:
        ctx.count("witness:unresolved-base:sound-now")


def replay_star_module_witness(ctx: Ctx) -> None:
    """a SUBMODULE re-exported through a star import (`q/__init__.py`: `from p import *` ; `__all__ = ['sub']`): before /repo
    ec6815d `_importAll`, unlike `_importNames`, did not process the submodule before `_handleReExport` moved it, so a `p.sub`
    that was still unprocessed was analysed as `q.sub` and its relative imports were resolved against `q` (finding
    order-dependent:star-reexport-unprocessed-module, fixed; outside WFr: a module is moved, star import next to __all__).
    Now `p.x.PX` under both orders (Imports.star_module_order_independent; historical step:
    Imports.star_module_reexport_counterexample)."""
    units = [Unit("p", True, "", None), Unit("p.x", False, "class PX:\n    '''ID:PX'''\n", "p"),
             Unit("p.sub", False, "from .x import PX\n", "p"),
             Unit("q", True, "from p import *\n__all__ = ['sub']\n", None),
             Unit("q.x", False, "class PX:\n    '''ID:QX'''\n", "q")]
    got = []
    reqs, impls, pay = [], [], []
    try:
        toks, _info = abstract_project(units, pd_only=True)
    except Unsupported:
        toks = None
    for order in ([0, 1, 2, 3, 4], [0, 1, 3, 4, 2]):
        system, mods, dup = build_real(units, order)
        r = mods[2].resolveName("PX")
        got.append(None if r is None else r.docstring)
        if toks is not None:        # the Lean model of the building code (Imports.processBeforeMove)
            reqs.append("imports build " + " ".join(toks) + " O|" + ",".join(map(str, order)) + " ? R|2|-|" + enc("PX"))
            impls.append("ok bad=%s | %s | %s" % ("true" if dup else "false", pd_dump(system), pd_answer(mods[2], "PX")))
            pay.append({"units": {u.qname: u.source for u in units}, "order": order})
    compare_lines(ctx, "imports-build-star-module", reqs, impls, pay)
    py = run_cpython([{"files": files_of(units), "modules": ["p", "p.x", "p.sub", "q", "q.x"], "sites": True}])[0]
    pyv = (py.get("sites") or {}).get("p.sub", {}).get("PX")
    ctx.traces_validated += 1
    ctx.case("witness:star-module:PX", True, {"pydoctor": got, "python": pyv})
    if py.get("error") or pyv != "d:p.x.PX":
        ctx.disagree("witness-star-module", {"units": {u.qname: u.source for u in units}}, "Python: PX of p.sub is p.x.PX", str(pyv))
    elif got[0] != got[1] or any(g not in (None, "ID:PX") for g in got):
        ctx.fail("order-dependent:star-reexport-unprocessed-module",
                 {"units": {u.qname: u.source for u in units}, "orders": [[0, 1, 2, 3, 4], [0, 1, 3, 4, 2]], "scope": "p.sub", "name": "PX"},
                 "in p.sub (documented as q.sub), 'PX' resolves to the class %s when p.sub is processed before q and to %s when "
                 "q is processed first; Python binds it to p.x.PX" % (got[0], got[1]))
    else:
        ctx.count("witness:star-module:sound-now")


def replay_class_member_reexport_witness(ctx: Ctx) -> None:
    """`_handleReExport` since /repo 66cb133: a re-exported name that resolves to a MEMBER of a class stays in its class and the
    import is an ordinary alias (Imports.notModuleLevel). In the abstract syntax such a name is an alias `from m.C import meth`
    (pydoctor records `meth -> m.C.meth`; not importable, so this is model vs System only)."""
    units = [Unit("m", False, "class C:\n    QQ3ID:CQQ3\n    def meth(self):\n        QQ3ID:methQQ3\n".replace("QQ3", "'" * 3), None),
             Unit("t", False, "from m.C import meth\n", None),
             Unit("pkg", True, "from t import meth\n__all__ = ['meth']\n", None)]
    try:
        toks, _info = abstract_project(units, pd_only=True)
    except Unsupported as e:
        ctx.count("witness:class-member-reexport:unsupported:" + str(e))
        return
    reqs, impls, pay = [], [], []
    for order in ([0, 1, 2], [2, 1, 0]):
        system, mods, dup = build_real(units, order)
        names = ["meth", "C.meth"]
        qs = ["R|%d|-|%s" % (m, enc(d)) for m in range(3) for d in names]
        ans = [pd_answer(mods[m], d) for m in range(3) for d in names]
        reqs.append("imports build " + " ".join(toks) + " O|" + ",".join(map(str, order)) + " ? " + " ".join(qs))
        impls.append("ok bad=%s | %s | %s" % ("true" if dup else "false", pd_dump(system), " ".join(ans)))
        pay.append({"units": {u.qname: u.source for u in units}, "order": order})
        ctx.case("witness:class-member-reexport", True, {"where": sorted(k for k in system.allobjects if k.endswith("meth"))})
    compare_lines(ctx, "imports-build-class-member-reexport", reqs, impls, pay)


# ---------------------------------------------------------------------------------------------------------------
# shapes reported by the hunter round (notes/C04.md "Hunter round"): re-import chains, objects re-exported twice, alias
# ASSIGNMENTS (`Y = X`, `Y = D.X`: astbuilder._handleAliasing - not part of the abstract syntax of the Lean models, so
# these are judged by the direct oracle only), nested classes that shadow a module name, re-exported PACKAGES.
# Every project is generated with random names and random variation of the part that matters (chain length, number of
# re-exporters, shadowing or not, resolved or unresolved base ...), imported by CPython and analysed by the real pydoctor
# under two processing orders; every name CPython binds in every module and class namespace is judged.

def _hq(s: str) -> str:
    return s.replace("QQQ", "'" * 3)


def hunter_projects(rng, corpus: bool = False) -> List[Tuple[str, List[Unit], Dict[str, Any]]]:
    """(shape, units, facts the diagnosis of a failure needs); `corpus`: the variant the hunter reported, whatever the seed"""
    def nm(prefix: str) -> str:
        return prefix + str(rng.randrange(10, 99))
    out: List[Tuple[str, List[Unit], Dict[str, Any]]] = []
    # H1a: a module alias re-imported n times
    n = 2 if corpus else rng.choice([1, 2, 3])
    pk = [nm("hp%d_" % i) for i in range(n + 1)]
    al = [nm("ha%d_" % i) for i in range(n + 1)]
    cA = nm("HA")
    units = [Unit(pk[0], True, "from . import amod as %s\n" % al[0], None),
             Unit(pk[0] + ".amod", False, _hq("class %s:\n    QQQID:%sQQQ\n" % (cA, cA)), pk[0])]
    for i in range(1, n + 1):
        units.append(Unit(pk[i], True, "from %s import %s as %s\n" % (pk[i - 1], al[i - 1], al[i]), None))
    out.append(("alias-chain", units, {"hops": n, "scope": pk[n], "names": [al[n], al[n] + "." + cA]}))
    # H1b: a class imported directly from its defining module, re-exported k times
    k = 2 if corpus else rng.choice([1, 2])
    p2, q2, c2 = nm("hq"), nm("hr"), nm("HB")
    units = [Unit(p2, True, "from .amod import %s\n__all__ = ['%s']\n" % (c2, c2), None),
             Unit(p2 + ".amod", False, _hq("class %s:\n    QQQID:%sQQQ\n" % (c2, c2)), p2),
             Unit(p2 + ".bmod", False, "from .amod import %s\n" % c2, p2)]
    if k == 2:
        units.append(Unit(q2, True, "from %s.bmod import %s\n__all__ = ['%s']\n" % (p2, c2, c2), None))
    out.append(("moved-twice", units, {"moves": k, "scope": p2 + ".bmod", "names": [c2]}))
    # H2: a class nested in a class that binds (or not) the name the nested body uses
    shadow = True if corpus else rng.choice([True, True, False])
    pm, cA, cB, x, y = nm("hm"), nm("HC"), nm("HD"), nm("hx"), nm("hy")
    deep = rng.choice([False, True])
    inner = "    class Inner:\n        QQQID:Inner%sQQQ\n        %s = %s\n" % (x, y, x)
    if deep:
        inner = "    class Mid:\n        QQQID:Mid%sQQQ\n        class Inner:\n            QQQID:Inner%sQQQ\n            %s = %s\n" % (x, x, y, x)
    body = "from .amod import %s as %s\nclass Outer:\n    QQQID:Outer%sQQQ\n" % (cA, x, x)
    if shadow:
        body += "    from .amod import %s as %s\n" % (cB, x)
    else:
        body += "    from .amod import %s as other%s\n" % (cB, x)
    units = [Unit(pm, True, "", None),
             Unit(pm + ".amod", False, _hq("class %s:\n    QQQID:%sQQQ\nclass %s:\n    QQQID:%sQQQ\n" % (cA, cA, cB, cB)), pm),
             Unit(pm + ".cmod", False, _hq(body + inner), pm)]
    out.append(("nested-class", units, {"shadow": shadow, "wrong": "ID:" + cB}))
    # H3: a sub-package re-exported by another package; its sub-modules use relative imports
    a, b, cY, cZ = nm("ha"), nm("hb"), nm("HY"), nm("HZ")
    binds = True if corpus else rng.choice([True, True, False])
    star = rng.choice([False, True])
    imp = ("from %s import *\n" % b) if star else ("from %s import sub\n" % b)
    units = [Unit(a, True, imp + (("from .zmod import %s as ymod\n" % cZ) if binds else "") + "__all__ = ['sub']\n", None),
             Unit(a + ".zmod", False, _hq("class %s:\n    QQQID:%sQQQ\n" % (cZ, cZ)), a),
             Unit(b, True, _hq("QQQMODDOC:%sQQQ\n" % b), None),
             Unit(b + ".ymod", False, _hq("QQQMODDOC:%s.ymodQQQ\nclass %s:\n    QQQID:%sQQQ\n" % (b, cY, cY)), b),
             Unit(b + ".sub", True, _hq("QQQMODDOC:%s.subQQQ\n" % b), b),
             Unit(b + ".sub.mmod", False, _hq("QQQMODDOC:%s.sub.mmodQQQ\nfrom .. import ymod\nfrom ..ymod import %s\n" % (b, cY)), b + ".sub")]
    out.append(("moved-package", units, {"binds": binds, "direct": cY}))
    # H4: an alias of an inherited member, taken while a base of the class is still unresolved
    pg, cP, cQ, xx, yy = nm("hg"), nm("HP"), nm("HQ"), nm("hX"), nm("hY")
    reimported = True if corpus else rng.choice([True, True, False])
    dsrc = ("from .cmod import B1 as BB1\n" if reimported else "from .bmod import B1 as BB1\n") + \
        "from .bmod import B2\nclass D(BB1, B2):\n    QQQID:D%sQQQ\n%s = D.%s\n" % (xx, yy, xx)
    units = [Unit(pg, True, "", None),
             Unit(pg + ".defs", False, _hq("class %s:\n    QQQID:%sQQQ\nclass %s:\n    QQQID:%sQQQ\n" % (cP, cP, cQ, cQ)), pg),
             Unit(pg + ".bmod", False, _hq("class B1:\n    QQQID:B1%sQQQ\n    from .defs import %s as %s\nclass B2:\n    QQQID:B2%sQQQ\n"
                                           "    from .defs import %s as %s\n" % (xx, cP, xx, xx, cQ, xx)), pg),
             Unit(pg + ".cmod", False, "from .bmod import B1\n", pg),
             Unit(pg + ".dmod", False, _hq(dsrc), pg)]
    out.append(("provisional-mro", units, {"reimported": reimported, "wrong": "ID:" + cQ}))
    return out


def hunter_signature(shape: str, facts: Dict[str, Any], scope: str, dotted: str, pyid, pid, r) -> str:
    """a SPECIFIC signature when the failure is the one the shape is about, a generic one otherwise"""
    if shape == "alias-chain" and r is None and facts["hops"] >= 2 and scope == facts["scope"] and dotted in facts["names"]:
        return "incomplete:module-alias:reimport-chain"
    if shape == "moved-twice" and r is None and facts["moves"] >= 2 and scope == facts["scope"] and dotted in facts["names"]:
        return "incomplete:direct-import:moved-twice"
    if shape == "nested-class" and r is not None and facts["shadow"] and pid == ["def", facts["wrong"]] and "Inner" in scope + "." + dotted:
        return "unsound:nested-class:enclosing-class-scope"
    if shape == "moved-package":
        if r is not None and dotted.split(".")[-1] == "ymod" and "mmod" in (scope + "." + dotted) and facts["binds"]:
            return "unsound:relative-import:moved-package"
        if r is None and dotted == facts["direct"] and scope.endswith(".sub.mmod"):
            return "incomplete:direct-import:moved-package"
    if shape == "provisional-mro" and r is not None and facts["reimported"] and pid == ["def", facts["wrong"]]:
        return "unsound:alias-through-class:provisional-mro"
    return ("unsound" if r is not None else "incomplete") + ":hunter-shape:" + shape


def run_hunter_shapes(ctx: Ctx) -> None:
    projs = []
    projs += hunter_projects(ctx.rng, corpus=True)
    for _ in range(6 if ctx.quick else 60):
        projs += hunter_projects(ctx.rng)
    pyres = run_cpython([{"files": files_of(u), "modules": [x.qname for x in u], "sites": False} for _, u, _ in projs])
    b_reqs, b_impl, b_pay = [], [], []
    for (shape, units, facts), py in zip(projs, pyres):
        src = {u.qname: u.source for u in units}
        if py["error"]:
            ctx.disagree("hunter-shape-importable", {"units": src}, "importable", py["error"])
            continue
        ctx.count("hunter:" + shape)
        n = len(units)
        orders = [list(range(n)), list(range(n - 1, -1, -1))]
        try:
            toks, _info = abstract_project(units, pd_only=True)
        except Unsupported:
            toks = None                       # alias assignments: outside the abstract syntax
        seen_fail = set()
        for order in orders:
            try:
                system, mods, dup = build_real(units, order)
            except Exception as e:
                ctx.fail("analysis-crash:" + type(e).__name__, {"units": src, "order": order}, f"{type(e).__name__}: {e}")
                continue
            by_doc = {o.docstring: o for o in system.allobjects.values() if isinstance(o.docstring, str)}
            qs, qa = [], []
            for scope, names in py["scopes"].items():
                so = system.allobjects.get(scope)
                if so is None or so.docstring not in (None, "") and False:
                    pass
                if scope.endswith(".sub.mmod"):          # a module that a re-export may have moved: found by its docstring
                    so = by_doc.get("MODDOC:" + scope, so)
                if so is None:
                    so = by_doc.get("ID:" + scope.rsplit(".", 1)[-1])
                if so is None:
                    continue
                for dotted, pyid in sorted(names.items()):
                    try:
                        r = so.resolveName(dotted)
                    except Exception as e:
                        ctx.fail("resolve-crash:" + type(e).__name__, {"units": src, "scope": scope, "name": dotted}, str(e))
                        continue
                    pid = pd_ident(r)
                    if pid[0] == "module" and isinstance(r.docstring, str) and r.docstring.startswith("MODDOC:"):
                        pid = ["module", r.docstring[7:]]      # a module that a re-export moved keeps its identity
                    ctx.case("hunter:" + shape + ":" + scope + ":" + dotted, True, None)
                    form = "must" if (shape == "alias-chain" and scope == facts.get("scope") and dotted in facts.get("names", ())) or \
                        (shape == "moved-twice" and scope == facts.get("scope") and dotted in facts.get("names", ())) or \
                        (shape == "moved-package" and scope.endswith(".sub.mmod") and dotted == facts.get("direct")) else "may"
                    bad = None
                    if r is not None and pyid[0] in ("def", "module", "value") and pid != pyid:
                        bad = f"in {scope}, {dotted!r} resolves to {pid} but Python binds {pyid}"
                    elif r is None and form == "must" and pyid[0] in ("def", "module"):
                        bad = f"in {scope}, {dotted!r} (imported from its defining module / reached through a module alias) does not resolve; Python binds {pyid}"
                    if bad:
                        sig = hunter_signature(shape, facts, scope, dotted, pyid, pid, r)
                        if (sig, scope, dotted) not in seen_fail:
                            seen_fail.add((sig, scope, dotted))
                            ctx.fail(sig, {"units": src, "scope": scope, "name": dotted, "order": order}, bad)
            if toks is not None:
                b_reqs.append("imports build " + " ".join(toks) + " O|" + ",".join(map(str, order)) + " ?")
                b_impl.append("ok bad=%s | %s | " % ("true" if dup else "false", pd_dump(system)))
                b_pay.append({"units": src, "order": order})
    compare_lines(ctx, "imports-build-hunter-shapes", b_reqs, b_impl, b_pay)



def replay_witnesses(ctx: Ctx) -> None:
    """the concrete witness of Imports.resolve_sound_unbound_counterexample (PdProps/C04.lean) on the real pydoctor and
    the real CPython: pydoctor's star import takes the name of a package's submodule that Python has not imported yet"""
    units = [Unit("pa", True, "", None), Unit("pa.m1", False, "", "pa"), Unit("top", False, "from pa import *\n", None)]
    system, mods, _ = build_real(units)
    r = mods[2].resolveName("m1")
    pd = None if r is None else r.fullName()
    py = run_cpython([{"files": files_of(units), "modules": ["top", "pa", "pa.m1"], "sites": True}])[0]
    bound = "m1" in (py.get("sites") or {}).get("top", {})
    replay_bases_witness(ctx)
    ctx.traces_validated += 1
    if pd == "pa.m1" and not py.get("error") and not bound:
        ctx.count("witness:unbound-star-submodule:confirmed")
    else:
        ctx.disagree("witness-unbound", {"units": {u.qname: u.source for u in units}},
                     "pydoctor resolves top.m1 to pa.m1; Python (import order top, pa, pa.m1) does not bind top.m1",
                     "pydoctor: %r; python error: %r; bound: %r" % (pd, py.get("error"), bound))


def defined_in_aliased(g: BindGen, scope: str, dotted: str, system) -> bool:
    """is `al.x` a name that the aliased module itself defines (def/class/assign)?"""
    al, x = dotted.split(".")
    so = system.allobjects.get(scope)
    target = so._localNameToFullName_map.get(al) if hasattr(so, "_localNameToFullName_map") else None
    if not target:
        return False
    return g.scope_forms.get((target, x)) in ("def", "class", "assign")


def replay(ctx: Ctx, obj) -> int:
    inp = obj.get("input") or {}
    print(obj.get("signature"), "-", obj.get("what"))
    for q, s in (inp.get("units") or {}).items():
        print("#", q)
        print(s)
    print("scope:", inp.get("scope"), "name:", inp.get("name"))
    return 0


def replay_bases_witness(ctx: Ctx) -> None:
    """the witness of Imports.resolve_sound_bases_counterexample on the real pydoctor and the real CPython: an attribute
    that an earlier base class binds by an import in its body (direct oracle: a genuine violation while it lasts)"""
    units = [Unit("D", False, "class K:\n    '''ID:K'''\n", None),
             Unit("M", False, "class B:\n    '''ID:B'''\n    from D import K as y\nclass B2:\n    '''ID:B2'''\n"
                              "    def y(self):\n        '''ID:y'''\nclass C(B, B2):\n    '''ID:C'''\n", None)]
    system, mods, _ = build_real(units)
    r = mods[1].resolveName("C.y")
    pd = None if r is None else r.fullName()
    py = run_cpython([{"files": files_of(units), "modules": ["D", "M"], "sites": True}])[0]
    pyv = (py.get("sites") or {}).get("M", {}).get("C.y")
    ctx.traces_validated += 1
    ctx.case("witness:bases:C.y", True, {"pydoctor": pd, "python": pyv})
    if py.get("error") or pyv != "d:D.K":
        ctx.disagree("witness-bases", {"units": {u.qname: u.source for u in units}}, "Python: C.y is D.K", str(pyv))
    elif pd is not None and pd != "D.K":
        ctx.fail("unsound:inherited-attribute:base-import-skipped", {"units": {u.qname: u.source for u in units},
                                                                      "scope": "M", "name": "C.y"},
                 f"in M, 'C.y' resolves to {pd} but Python's attribute lookup gives D.K (bound by an import in the first base)")
    else:
        ctx.count("witness:bases:sound-now")
