"""C13 — privacy rules mean what the manual says (qnmatch patterns, rule precedence, cache)."""
from __future__ import annotations

import contextlib
import copy
import functools
import io
import itertools
import multiprocessing
import re
import warnings
from typing import Any, Dict, List, Optional, Sequence, Tuple

from ..core import Ctx, enc

THEOREMS = [
    "Glob.translate_total", "Glob.translate_correct", "Glob.compiles_iff", "Glob.compiles_counterexample",
    "Glob.qnmatch_partial", "Glob.qnmatch_counterexample", "Glob.star_meaning", "Glob.dstar_meaning",
    "Glob.tokens_fuel", "Regex.nongreedy_irrelevant",
    "Glob.lru_transparent", "Glob.lru_transparent_empty", "Glob.spec_plain", "Glob.spec_dstar_all",
    "Glob.spec_below_any_depth", "Glob.spec_direct_members", "Glob.spec_anywhere",
    "Privacy.parseRule_ok_iff", "Privacy.parseRule_colons", "Privacy.effective_cli_wins", "Privacy.effective_file_only",
    "Privacy.precedence_effective_partial", "Privacy.visPure_meaning", "Privacy.hidden_propagates",
    "Privacy.coherent_of_wellNamed", "Privacy.cache_transparent_moves_wellNamed",
    "Privacy.kindNone_hidden", "Privacy.bare_underscores", "Privacy.cache_survives_rule_change", "Privacy.empty_pattern_and_alias_accepted",
    "Glob.spec_empty", "Glob.spec_triple_star", "Glob.set_conventions",
    "Privacy.default_meaning", "Privacy.exact_wins", "Privacy.last_pattern_wins", "Privacy.default_applies",
    "Privacy.precedence_partial", "Privacy.precedence_counterexample",
    "Privacy.parseRule_wellFormed", "Privacy.cli_rules_wellFormed", "Privacy.precedence_cli_partial",
    "Privacy.precedence_counterexample_kindNone", "Privacy.underscores_private", "Privacy.default_counterexample_before_2e9a6af",
    "Privacy.defaultLevel_eq_manual",
    "Privacy.defaultOf_meaning", "Privacy.main_module_rule_applies", "Privacy.main_module_counterexample_before_c8d85b0",
    "Privacy.cli_never_raises", "Privacy.cli_rejects_backwards_range",
    "Privacy.cache_transparent", "Privacy.cache_transparent_moves", "Privacy.cache_counterexample", "Privacy.isVisible_meaning",
]
PARTIAL = {
    "Glob.qnmatch_partial": "full statement (every pattern gives an answer equal to the manual's meaning) is false: "
                            "excluded = patterns with a bracket expression holding a descending range (Glob.wellFormed = false); "
                            "witness Glob.qnmatch_counterexample ([b-a])",
    "Privacy.precedence_partial": "arbitrary rule lists (options.privacy filled by hand): excluded = lists holding a pattern with a "
                                  "descending range (Privacy.precedence_counterexample) and objects whose kind is None "
                                  "(precedence_counterexample_kindNone, open finding kind-none-hidden:type-field-only)",
    "Privacy.precedence_cli_partial": "every --privacy list the option parser accepts, every name; excluded = objects whose kind is None "
                                      "(since 6778a0a only @type-only pseudo attributes)",
    "Privacy.precedence_effective_partial": "the same for configuration file + command line",
    "Privacy.cache_transparent": "hypothesis: two queried objects with the same qualified name have the same name and kind "
                                 "(the cache is keyed by qualified name only); witness Privacy.cache_counterexample",
    "Privacy.cache_transparent_moves": "same hypothesis over every record an object has during the history (initial world and moves)",
}
RULE = ("deterministic corpus first (inputs of every past finding, the shapes every seeded change needs, the manual's examples, "
        "name-edge cases); exhaustive: every pattern of length <= 4 (quick) / <= 5 (thorough) over {a b . * ? [ ] ! - _} x every "
        "name of length <= 4 / <= 5 over {a b . _}: text of qnmatch.translate, result or exception class of qnmatch.qnmatch vs the "
        "Lean model and vs an independent matcher written from the manual (direct oracle), and parse_privacy_tuple on every such "
        "pattern (accepted iff well formed); random longer patterns/names over a wider alphabet evaluated in shuffled order; "
        "qnmatch call histories through the lru_cache with cache_info() compared; every rule list of length <= 3 over 3 levels x 6 "
        "rule texts (two families: plain tree, duplicate definitions) given as --privacy values, parsed by the real option code, on a "
        "real System of 39 objects with random query histories (privacyClass / isVisible / isPrivate, cache content compared); "
        "hand-made rule lists in options.privacy; query histories interleaved with Documentable.reparent(); configuration file + "
        "command line through Options.from_args. Non-trivial = pattern has a metacharacter and some name matches and some does not "
        "(glob streams) / the list has a rule that applies to a queried object (privacy streams) / hits and misses both occur (lru).")
ASSUMPTIONS = [
    "re.compile/match of CPython 3.12 on the emitted fragment behaves as Regex.parseSet/Regex.matchA say (parameter; exercised by every glob stream)",
    "inside [seq] the manual does not define ranges; the oracle and Glob.spec read lo-hi as a code-point range (fnmatch convention), "
    "a descending range as empty, an unclosed [ as a literal, and the first character after [ or [! as part of seq even when it is ]",
    "dunder = the manual's own pattern __*__ (two underscores, anything, two underscores: at least four characters); "
    "'__' and '___' are not dunders (the code agrees since 2e9a6af: Privacy.defaultLevel_eq_manual), '____' is",
    "the artificial kind-None attribute of the hand-built tree (p.m.k, kind set to None by the harness) is compared with the model "
    "but not judged by the oracle; kind-None objects made by the real AST builder (privacy-source stream) are judged",
    "the oracle's default includes 'modules named __main__ are PRIVATE' exactly when docs/source/customize.rst of the tree under "
    "test lists it under the PRIVATE default (it does since c8d85b0)",
    "parse_privacy_tuple: str.strip/str.upper are modelled on ASCII (non-ASCII characters inside the pattern are covered; a non-ASCII "
    "space at an edge of the value or a non-ASCII letter in the level is outside the model)",
    "configuration file + command line: the command line's --privacy list replaces the file's (configargparse; decided against the "
    "real parser by C20) - C13 models it as Privacy.effectiveValues and ties it with the privacy-config stream only",
    "the qualified names a move produces (Documentable.reparent, System.handleDuplicate) are read off the real objects; their "
    "computation belongs to C02/C07 (Registry layer)",
]
EXPLANATION = ("Glob.translate_correct: for every pattern and name, whenever re.compile accepts the emitted text, acceptance by "
               "the emitted regex equals the manual's meaning; Glob.compiles_iff characterises the patterns re refuses; "
               "Glob.lru_transparent: the lru_cache never changes an answer; Glob.spec_* what patterns mean at name edges. "
               "Privacy.parseRule_ok_iff / cli_rules_wellFormed / precedence_cli / precedence_effective: what the option parser "
               "accepts and that every accepted list is decided as the property says; cache_transparent(_moves), "
               "isVisible_meaning, hidden_propagates. The correspondence compares text, match vectors, exception classes, "
               "cache_info, parsed options, privacy answers and cache content with the real code.")

ALPHA_P = "ab.*?[]!-_"
ALPHA_N = "ab._"
META = set("*?[")

# ---------------------------------------------------------------------------------------------------
# direct oracle: a matcher written from the manual (qnmatch module docstring / customize.rst), no `re`


def o_tokens(p: str) -> List[tuple]:
    toks: List[tuple] = []
    i, n = 0, len(p)
    while i < n:
        c = p[i]
        if c == "*":
            if p.startswith("**", i):
                toks.append(("dstar",))
                i += 2
            else:
                toks.append(("star",))
                i += 1
        elif c == "?":
            toks.append(("one",))
            i += 1
        elif c == "[":
            k = i + 1
            neg = k < n and p[k] == "!"
            if neg:
                k += 1
            end = p.find("]", k + 1)  # the first character of seq is taken as it is
            if k < n and end != -1:
                toks.append(("cls", neg, p[k:end]))
                i = end + 1
            else:
                toks.append(("ch", "["))
                i += 1
        else:
            toks.append(("ch", c))
            i += 1
    return toks


def o_in_seq(seq: str, ch: str) -> bool:
    i = 0
    while i < len(seq):
        if i + 2 < len(seq) and seq[i + 1] == "-":
            if seq[i] <= ch <= seq[i + 2]:
                return True
            i += 3
        else:
            if seq[i] == ch:
                return True
            i += 1
    return False


def o_descending(seq: str) -> bool:
    i = 0
    while i < len(seq):
        if i + 2 < len(seq) and seq[i + 1] == "-":
            if seq[i + 2] < seq[i]:
                return True
            i += 3
        else:
            i += 1
    return False


def o_wellformed(toks) -> bool:
    return not any(t[0] == "cls" and o_descending(t[2]) for t in toks)


def _closure(st: int, toks) -> int:
    # a star may stand for the empty run
    for i, t in enumerate(toks):
        if st >> i & 1 and t[0] in ("star", "dstar"):
            st |= 1 << (i + 1)
    return st


def _step(st: int, ch: str, toks) -> int:
    nx = 0
    for i, t in enumerate(toks):
        if not st >> i & 1:
            continue
        k = t[0]
        if k == "star":
            if ch != ".":
                nx |= 1 << i
        elif k == "dstar":
            nx |= 1 << i
        elif k == "one":
            nx |= 1 << (i + 1)
        elif k == "cls":
            if o_in_seq(t[2], ch) != t[1]:
                nx |= 1 << (i + 1)
        elif t[1] == ch:
            nx |= 1 << (i + 1)
    return _closure(nx, toks)


def o_match(toks, name: str) -> bool:
    st = _closure(1, toks)
    for ch in name:
        st = _step(st, ch, toks)
        if not st:
            return False
    return bool(st >> len(toks) & 1)


@functools.lru_cache(maxsize=None)
def o_qnmatch(name: str, pat: str) -> bool:
    """does `name` match `pat` as the manual says (memoised for the privacy streams)"""
    return o_match(o_tokens(pat), name)


def o_match_all(toks, alphabet: str, maxlen: int) -> List[bool]:
    """answers for every name of length <= maxlen over alphabet, by length then alphabet order"""
    memo: Dict[Tuple[int, str], int] = {}
    acc = 1 << len(toks)
    prev = [_closure(1, toks)]
    out = [bool(prev[0] & acc)]
    for _ in range(maxlen):
        new = []
        for st in prev:
            for ch in alphabet:
                key = (st, ch)
                nx = memo.get(key)
                if nx is None:
                    nx = memo[key] = _step(st, ch, toks) if st else 0
                new.append(nx)
        out.extend(bool(s & acc) for s in new)
        prev = new
    return out


# ---------------------------------------------------------------------------------------------------
# helpers

def hexbits(bits: Sequence[bool]) -> str:
    if not bits:
        return "-"
    s = "".join("1" if b else "0" for b in bits)
    s += "0" * (-len(s) % 4)
    return "%0*x" % (len(s) // 4, int(s, 2))


def bitstr(bits: Sequence[bool]) -> str:
    return "".join("1" if b else "0" for b in bits) or "-"


def all_names(alphabet: str, maxlen: int) -> List[str]:
    return ["".join(t) for k in range(maxlen + 1) for t in itertools.product(alphabet, repeat=k)]


def exc_name(e: BaseException) -> str:
    if isinstance(e, re.error):
        return "ReError"
    return type(e).__name__


def impl_translate(p: str) -> str:
    from pydoctor import qnmatch
    try:
        return "ok " + enc(qnmatch.translate(p))
    except Exception as e:
        return exc_name(e)


def impl_match(p: str, names: Sequence[str]) -> Tuple[Optional[List[bool]], Optional[str]]:
    from pydoctor import qnmatch
    qn = qnmatch.qnmatch
    res: List[bool] = []
    err = None
    for nm in names:
        try:
            res.append(qn(nm, p))
        except Exception as e:
            err = exc_name(e)
            break
    return (None, err) if err else (res, None)


def impl_parse(value: str) -> str:
    from pydoctor import utils
    try:
        with contextlib.redirect_stderr(io.StringIO()):
            lv, p = utils.parse_privacy_tuple(value, "--privacy")
        return f"ok {lv.name} {enc(p)}"
    except SystemExit:
        return "SystemExit"
    except Exception as e:
        return exc_name(e)


def fail_kind(toks) -> str:
    return "+".join(sorted({t[0] for t in toks if t[0] != "ch"})) or "literal"


def accepted_as_rule(p: str) -> bool:
    """can this text be given as the pattern of a --privacy rule (and arrive unchanged)?"""
    from pydoctor import utils, model
    try:
        with contextlib.redirect_stderr(io.StringIO()):
            got = utils.parse_privacy_tuple("PUBLIC:" + p, "--privacy")
    except SystemExit:
        return False
    return got == (model.PrivacyClass.PUBLIC, p)


def check_glob_case(p: str, names: Sequence[str], tr: str, bits, err, obits, toks) -> Optional[Tuple[str, Any, str]]:
    """direct oracle on the real code's own output"""
    if not tr.startswith("ok "):
        return ("translate-raises:" + tr, {"pattern": p}, f"qnmatch.translate({p!r}) raised {tr}")
    if err is not None:
        # qnmatch raising is a failure of the property exactly when the pattern can arrive there from --privacy
        # (since c6e4102 the option parser refuses what re refuses; should that ever stop being true this fires again)
        if not accepted_as_rule(p):
            return None
        why = "descending-range" if not o_wellformed(toks) else "other"
        return (f"raises:{err}:{why}", {"pattern": p, "names": list(names[:3])},
                f"qnmatch.qnmatch(name, {p!r}) raised {err} instead of answering (a --privacy rule with this pattern is accepted)")
    if bits != obits:
        i = next(k for k in range(len(bits)) if bits[k] != obits[k])
        return ("match-differs:" + fail_kind(toks), {"pattern": p, "names": [names[i]]},
                f"qnmatch({names[i]!r}, {p!r}) = {bits[i]} but the manual's meaning gives {obits[i]}")
    return None


# ---------------------------------------------------------------------------------------------------
# exhaustive stream (run in worker processes)

def _enum_chunk(arg):
    pats, alpha_n, maxlen = arg
    names = all_names(alpha_n, maxlen)
    out = []
    for p in pats:
        tr = impl_translate(p)
        bits, err = impl_match(p, names) if tr.startswith("ok ") else (None, None)
        toks = o_tokens(p)
        obits = o_match_all(toks, alpha_n, maxlen)
        impl_line = tr if not tr.startswith("ok ") else tr + " " + (err if err else hexbits(bits))
        spec_line = ("wf " if o_wellformed(toks) else "desc ") + hexbits(obits)
        verdict = check_glob_case(p, names, tr, bits, err, obits, toks)
        nontriv = bool(META & set(p)) and bits is not None and any(bits) and not all(bits)
        parse_line = impl_parse("PUBLIC:" + p)
        if verdict is None and parse_line == "SystemExit" and o_wellformed(toks):
            verdict = ("parser-rejects-wellformed-pattern", {"value": "PUBLIC:" + p},
                       f"--privacy=PUBLIC:{p} is refused although the pattern has a meaning in the manual")
        out.append((impl_line, spec_line, verdict, nontriv, parse_line))
    return out


def enum_patterns(maxlen: int) -> List[str]:
    return ["".join(t) for k in range(maxlen + 1) for t in itertools.product(ALPHA_P, repeat=k)]


def run_exhaustive(ctx: Ctx) -> None:
    plen, nlen = (4, 4) if ctx.quick else (5, 5)
    pats = enum_patterns(plen)
    nn = len(all_names(ALPHA_N, nlen))
    step = 400
    chunks = [(pats[i:i + step], ALPHA_N, nlen) for i in range(0, len(pats), step)]
    with multiprocessing.get_context("fork").Pool(16) as pool:
        results = [r for part in pool.map(_enum_chunk, chunks) for r in part]
    a = enc(ALPHA_N)
    reqs = [f"glob enum {enc(p)} {a} {nlen}" for p in pats]
    sreqs = [f"glob specenum {enc(p)} {a} {nlen}" for p in pats]
    preqs = [f"privacy parse {enc('PUBLIC:' + p)}" for p in pats]
    for p, rq, (impl_line, spec_line, verdict, nontriv, parse_line) in zip(pats, reqs, results):
        ctx.case(rq, nontriv, {"pattern": p, "request": rq, "impl": impl_line[:120]} if nontriv and len(p) == plen and len(ctx.samples) < 2 else None)
        ctx.count("glob-exhaustive:patterns")
        ctx.count("glob-exhaustive:" + ("raises" if impl_line.endswith("Error") else "all-or-none" if not nontriv else "some-match"))
        ctx.count("parse-exhaustive:" + parse_line.split()[0])
        if verdict:
            ctx.fail(*verdict)
    ctx.compare("glob-exhaustive", reqs, [r[0] for r in results], [{"pattern": p} for p in pats])
    # the Lean statement of the manual (Glob.spec, the right-hand side of translate_correct) against the harness oracle
    ctx.compare("glob-spec-vs-oracle", sreqs, [r[1] for r in results], [{"pattern": p, "what": "spec"} for p in pats])
    # the option parser on every pattern of the space (accepted iff re accepts the translation)
    ctx.compare("parse-exhaustive", preqs, [r[4] for r in results], [{"value": "PUBLIC:" + p} for p in pats])
    ctx.extra["exhaustive_patterns"] = len(pats)
    ctx.extra["exhaustive_names"] = nn
    ctx.extra["exhaustive_pairs"] = len(pats) * nn
    ctx.exhaustive = True


# ---------------------------------------------------------------------------------------------------
# random longer patterns / names

WIDE = "ab._*?[]!-" + "\\^cAz0 :\né~&|#"


def rand_pattern(rng) -> str:
    n = rng.randint(5, 12)
    out = []
    for _ in range(n):
        r = rng.random()
        if r < 0.25:
            out.append(rng.choice("ab._"))
        elif r < 0.45:
            out.append(rng.choice(["*", "**", "?", ".", "*."]))
        elif r < 0.75:
            body = "".join(rng.choice("ab._-!]^\\cAz0[") for _ in range(rng.randint(0, 4)))
            out.append("[" + rng.choice(["", "!", "]", "!]"]) + body + rng.choice(["]", "]", "]", ""]))
        else:
            out.append(rng.choice(WIDE))
    return "".join(out)


def rand_name_for(rng, toks) -> str:
    """a name built along the pattern (so that a fair share matches), then sometimes damaged"""
    out = []
    for t in toks:
        k = t[0]
        if k == "ch":
            out.append(t[1])
        elif k == "one":
            out.append(rng.choice("ab._\n\\"))
        elif k == "star":
            out.append("".join(rng.choice("ab_c") for _ in range(rng.randint(0, 3))))
        elif k == "dstar":
            out.append("".join(rng.choice("ab_.") for _ in range(rng.randint(0, 4))))
        else:
            pool = [c for c in "ab._-!]^\\cAz0[`B" if o_in_seq(t[2], c) != t[1]]
            out.append(rng.choice(pool) if pool else rng.choice("ab"))
    s = "".join(out)
    if rng.random() < 0.35 and s:
        i = rng.randrange(len(s))
        s = s[:i] + rng.choice(["", ".", "a", "\n", "-"]) + s[i + 1:]
    if rng.random() < 0.1:
        s += rng.choice([".", "a", "\n"])
    return s


def run_random(ctx: Ctx) -> None:
    from pydoctor import qnmatch
    npat = 3000 if ctx.quick else 60000
    pats = [rand_pattern(ctx.rng) for _ in range(npat)]
    tokl = [o_tokens(p) for p in pats]
    namel = [[rand_name_for(ctx.rng, tk) for _ in range(6)] + ["", "a.b"] for tk in tokl]
    # evaluate all (pattern, name) pairs in shuffled order: hits, misses and evictions of the lru_cache
    pairs = [(i, j) for i in range(npat) for j in range(8)]
    ctx.rng.shuffle(pairs)
    res: Dict[Tuple[int, int], Any] = {}
    for i, j in pairs:
        try:
            res[i, j] = qnmatch.qnmatch(namel[i][j], pats[i])
        except Exception as e:
            res[i, j] = exc_name(e)
    reqs, impls, pay = [], [], []
    for i, p in enumerate(pats):
        names = namel[i]
        tr = impl_translate(p)
        vals = [res[i, j] for j in range(8)]
        errs = [v for v in vals if isinstance(v, str)]
        err = errs[0] if errs else None
        bits = None if err else vals
        obits = [o_match(tokl[i], nm) for nm in names]
        reqs.append("glob match " + enc(p) + " " + " ".join(enc(nm) for nm in names))
        impls.append(tr if not tr.startswith("ok ") else tr + " " + (err if err else bitstr(bits)))
        pay.append({"pattern": p, "names": names})
        nontriv = bits is not None and any(bits) and not all(bits)
        ctx.case(reqs[-1], nontriv, {"pattern": p, "names": names, "impl": impls[-1][-20:]} if nontriv and len(ctx.samples) < 4 else None)
        ctx.count("glob-random:" + ("raises" if err else "some-match" if nontriv else "all-or-none"))
        v = check_glob_case(p, names, tr, bits, err, obits, tokl[i])
        if v:
            ctx.fail(*v)
    ctx.compare("glob-random", reqs, impls, pay)
    ctx.extra["lru_cache_info"] = str(qnmatch._compile_pattern.cache_info())


# ---------------------------------------------------------------------------------------------------
# privacy

LEVELS = ["HIDDEN", "PRIVATE", "PUBLIC"]
LCODE = {"HIDDEN": "H", "PRIVATE": "P", "PUBLIC": "U"}
RULE_TEXTS = ["p.m.C", "p.__main__", "p.m.*", "**._*", "p.?.[A-C]*", "p.m.C.[!_]*"]
BAD_TEXTS = ["p.m.[b-a]*", "**.[a--]", "p.[_-.]*"]
# rules aimed at the duplicate definitions under p.d
DUP_RULE_TEXTS = ["p.d.K 0", "p.d.K.f 0", "p.d.*", "p.d.K 0.*", "**.K*.[!_]*", "**._*"]

# (qualified name, class) in creation order; parents come first
TREE = [
    ("p", "Package"), ("p.m", "Module"), ("p._m", "Module"), ("p.__main__", "Module"),
    ("p.m.C", "Class"), ("p.m._C", "Class"), ("p.m.a", "Attribute"), ("p.m.k", "Attribute"),
    ("p.m.C.f", "Function"), ("p.m.C._f", "Function"), ("p.m.C.__init__", "Function"), ("p.m.C.__x", "Function"),
    ("p.m.C._", "Function"), ("p.m.C.__", "Function"), ("p.m.C.___", "Function"), ("p.m.C._a_", "Function"),
    ("p.m.C.a__", "Function"), ("p.m.C.__a_", "Function"), ("p.m.C.__main__", "Function"),
    ("p.m._C.g", "Function"), ("p._m.B", "Class"), ("p._m.B.h", "Function"), ("p.__main__.run", "Function"),
    ("p._m.C", "Class"), ("p._m.C.f", "Function"),   # same last names as p.m.C / p.m.C.f, other qualified names
]
KIND_NONE = {"p.m.k"}

# duplicate definitions, created after TREE: (label, parent label, name, class); labels of TREE objects are their
# qualified names. System.handleDuplicate renames the older definition to 'name 0' ('name 1', …) and the newer one
# takes its place in the parent's contents: `class K: m, _n, I.z` then `class K` again, `def f` three times,
# `def _g` twice, and a member added to the superseded class after it was renamed.
DUP_TREE = [
    ("d", "p", "d", "Module"),
    ("K1", "d", "K", "Class"), ("K1.m", "K1", "m", "Function"), ("K1._n", "K1", "_n", "Function"),
    ("K1.I", "K1", "I", "Class"), ("K1.I.z", "K1.I", "z", "Function"),
    ("K2", "d", "K", "Class"), ("K2.m", "K2", "m", "Function"),
    ("f1", "K2", "f", "Function"), ("f2", "K2", "f", "Function"), ("f3", "K2", "f", "Function"),
    ("g1", "d", "_g", "Function"), ("g2", "d", "_g", "Function"),
    ("K1.late", "K1", "late", "Function"),
]
_INFO: Any = None


def is_entry(ob) -> bool:
    """is `ob` the entry of its parent's contents (True for a root)?  False for a superseded older definition"""
    return ob.parent is None or ob.parent.contents.get(ob.name) is ob


def tree_info() -> Dict[str, Tuple[str, bool, bool, bool, Optional[str]]]:
    """qualified name -> (name, is module, kind None, is contents entry, parent's qualified name) of the fixed tree,
    read once from a real System built without rules (insertion order = creation order)"""
    global _INFO
    if _INFO is None:
        from pydoctor import model
        _, objs = build_system([], "raw")
        _INFO = {full: (ob.name, isinstance(ob, model.Module), ob.kind is None, is_entry(ob),
                        ob.parent.fullName() if ob.parent else None) for full, ob in objs.items()}
    return _INFO


_DEFAULT_OPTS: Any = None


def build_system(rule_strings: Sequence[str], via: Any = False):
    """a real System holding TREE; its privacy option is parsed by the real code (via = True: Options.from_args,
    False: the converter of the attrs field) or, via = "raw", put into options.privacy by hand without any parsing"""
    from pydoctor import model, options
    global _DEFAULT_OPTS
    if via is True:
        opts = options.Options.from_args(["--privacy=" + r for r in rule_strings])
    else:
        if _DEFAULT_OPTS is None:
            _DEFAULT_OPTS = options.Options.defaults()
        opts = copy.copy(_DEFAULT_OPTS)
        if via == "raw":
            opts.privacy = [(model.PrivacyClass[r.split(":", 1)[0]], r.split(":", 1)[1]) for r in rule_strings]
        else:
            opts.privacy = options._convert_privacy(list(rule_strings))   # parse_privacy_tuple on each value
    system = model.System(opts)
    objs: Dict[str, Any] = {}
    for full, cls in TREE:
        parent = objs.get(full.rpartition(".")[0]) if "." in full else None
        ob = getattr(system, cls)(system, full.rpartition(".")[2], parent)
        if full in KIND_NONE:
            ob.kind = None
            ob._c13_artificial_kind = True
        if parent is not None and not isinstance(ob, model.Module):
            ob.parentMod = parent if isinstance(parent, model.Module) else parent.parentMod
        system.addObject(ob)
        objs[full] = ob
    with contextlib.redirect_stderr(io.StringIO()):   # "duplicate Class 'p.d.K'" reports
        for label, plabel, name, cls in DUP_TREE:
            ob = getattr(system, cls)(system, name, objs[plabel])
            if not isinstance(ob, model.Module):   # the AST builder sets it; Documentable.report (duplicate) reads it
                ob.parentMod = objs[plabel] if isinstance(objs[plabel], model.Module) else objs[plabel].parentMod
            system.addObject(ob)
            objs[label] = ob
    system._c13_labels = objs   # creation label -> object (labels stay when objects are moved)
    return system, {ob.fullName(): ob for ob in objs.values()}


def static_obj_token(full: str) -> str:
    """token of a tree object without a System (only used when the rule list was refused)"""
    name, is_mod, kind_none, entry, _ = tree_info()[full]
    return "%s/%s/%s%s%s" % (enc(full), enc(name), "m" if is_mod else "o", "n" if kind_none else "k", "e" if entry else "s")


def static_chain(full: str) -> List[str]:
    out = [full]
    while tree_info()[out[-1]][4] is not None:
        out.append(tree_info()[out[-1]][4])
    return out


def obj_token(ob) -> str:
    from pydoctor import model
    return "%s/%s/%s%s%s" % (enc(ob.fullName()), enc(ob.name), "m" if isinstance(ob, model.Module) else "o",
                             "n" if ob.kind is None else "k", "e" if is_entry(ob) else "s")


def cache_repr(system) -> str:
    """canonical form of System._privacyClassCache: `qualified name=LEVEL` in insertion order. A key that is not a
    string (a cache keyed by object, say) is shown under the object's current qualified name: a change of
    representation is then a disagreement with the model, not a crash of the harness."""
    items = []
    for k, v in system._privacyClassCache.items():
        key = k if isinstance(k, str) else k.fullName() if hasattr(k, "fullName") else repr(k)
        items.append(f"{enc(key)}={getattr(v, 'name', v)}")
    return ",".join(items) or "-"


def chain_of(ob):
    out = []
    while ob is not None:
        out.append(ob)
        ob = ob.parent
    return out


def o_level(rules: Sequence[Tuple[str, str]], ob) -> str:
    """the property's statement: exact beats pattern, among the same sort the last wins, else the default"""
    full = ob.fullName()
    exact = [lv for lv, pat in rules if pat == full]
    if exact:
        return exact[-1]
    hits = [lv for lv, pat in rules if o_qnmatch(full, pat)]
    if hits:
        return hits[-1]
    name = ob.name
    # a dunder is what the manual's own pattern describes ("PRIVATE:**.__*__ makes all dunder methods private"):
    # two underscores, anything, two underscores - at least four characters ('__' and '___' are not)
    dunder = len(name) >= 4 and name.startswith("__") and name.endswith("__")
    if name.startswith("_") and not dunder:
        return "PRIVATE"
    # "… and for modules named ``__main__``": only when the manual of the tree under test says so
    from pydoctor import model
    if manual_documents_main_default() and isinstance(ob, model.Module) and name == "__main__":
        return "PRIVATE"
    return "PUBLIC"


@functools.lru_cache(maxsize=None)
def manual_documents_main_default() -> bool:
    """does docs/source/customize.rst list modules named __main__ under the PRIVATE default?"""
    from ..core import REPO
    try:
        text = (REPO / "docs" / "source" / "customize.rst").read_text(encoding="utf-8")
    except OSError:
        return False
    m = re.search(r"^- ``PRIVATE``: By default(.*?)^- ``PUBLIC``", text, re.S | re.M)
    return bool(m and "__main__" in m.group(1))


def classify_privacy_failure(op: str, ob, scope, got: str, want: str, parsed, rule_strings, assigned=None) -> Optional[Tuple[str, str]]:
    """signature + text for an answer that differs from the documented rules (None: not judged)"""
    from pydoctor import model
    if any(getattr(x, "_c13_artificial_kind", False) for x in scope):
        return None
    meth = {"c": "privacyClass", "v": "isVisible", "p": "isPrivate"}[op]
    full = ob.fullName()
    where = f"{meth} of {full} is {got}, the documented rules give {want} (--privacy {rule_strings})"
    if got.endswith("Error"):
        bad = [pat for _, pat in parsed if not o_wellformed(o_tokens(pat))]
        return (f"raises:{got}:" + ("descending-range" if bad else "other"), f"{full}.{meth} raised {got} under --privacy {rule_strings}")
    nokind = [x for x in scope if x.kind is None]
    if nokind:
        how = "assigned-variable" if assigned is not None and nokind[0].fullName() in assigned else "type-field-only"
        return ("kind-none-hidden:" + how, f"{nokind[0].fullName()} has kind None ({how}): " + where)
    mains = [x for x in scope if isinstance(x, model.Module) and x.name == "__main__"]
    if mains:
        ruled = any(pat == mains[0].fullName() or o_qnmatch(mains[0].fullName(), pat) for _, pat in parsed)
        return ("main-module:" + ("rule-ignored" if ruled else "default-private"), f"module {mains[0].fullName()}: " + where)
    bare = [x for x in scope if x.name in ("__", "___")
            and not any(pat == x.fullName() or o_qnmatch(x.fullName(), pat) for _, pat in parsed)]
    if bare:
        return ("default:underscore-only-name-public", f"{bare[0].fullName()} (no rule applies to it): " + where)
    if op == "v" and got == "True" and not all(is_entry(x) for x in scope):
        return ("superseded-visible", f"{full}.isVisible is True although it is (inside) a superseded older definition")
    return ("privacy-differs:" + op, where)


def privacy_eval(rules: Sequence[Tuple[str, str]], queries: Sequence[Tuple[str, str]], via_args: bool) -> Dict[str, Any]:
    """one rule list + one query history on a fresh real System; pure (runs in worker processes)"""
    from pydoctor import model
    rule_strings = [f"{lv}:{pat}" for lv, pat in rules]
    raw = via_args == "raw"
    head = (["privacy run"] + [f"R {LCODE[lv]} {enc(pat)}" for lv, pat in rules]) if raw else \
           (["privacy cli"] + [f"V {enc(r)}" for r in rule_strings])
    fails: List[Tuple[str, Any, str]] = []
    try:
        with contextlib.redirect_stderr(io.StringIO()):
            system, objs = build_system(rule_strings, via_args)
    except SystemExit:
        # the option parser refuses the rule list: nothing is documented at all. The property only asks that a list
        # of patterns that all have a meaning is not refused.
        if all(o_wellformed(o_tokens(pat)) for _, pat in rules):
            fails.append(("parser-rejects-wellformed-pattern", {"rules": rule_strings, "queries": []},
                          f"--privacy {rule_strings} is refused although every pattern has a meaning in the manual"))
        req = list(head)
        for op, full in queries:   # the queries travel anyway: the model must refuse the list by itself
            req.append("Q %s %s" % (op, ";".join(static_obj_token(x) for x in (static_chain(full) if op == "v" else [full]))))
        return {"line": " ".join(req), "impl": "SystemExit", "answers": ["SystemExit"], "fails": fails, "applies": False,
                "rules": rule_strings, "queries": [list(q) for q in queries]}
    parsed = [(lv.name, pat) for lv, pat in system.options.privacy]
    answers = []
    req = list(head)
    applies = False
    for op, full in queries:
        ob = objs[full]
        ch = chain_of(ob)
        scope = ch if op == "v" else [ob]
        req.append("Q %s %s" % (op, ";".join(obj_token(x) for x in scope)))
        try:
            if op == "c":
                got = ob.privacyClass.name
            elif op == "v":
                got = str(ob.isVisible)
            else:
                got = str(ob.isPrivate)
        except Exception as e:
            got = exc_name(e)
        answers.append(got)
        # direct oracle
        lv = o_level(parsed, ob)
        if op == "c":
            want = lv
        elif op == "v":
            # hidden-ness is inherited from the parents; an older definition superseded by a later one of the same
            # name (no longer its parent's contents entry) is not shown, nor is anything inside it (cb98646)
            want = str(all(o_level(parsed, x) != "HIDDEN" for x in ch) and all(is_entry(x) for x in ch))
        else:
            want = str(lv != "PUBLIC")
        if any(pat == x.fullName() or o_qnmatch(x.fullName(), pat) for _, pat in parsed for x in scope):
            applies = True
        if got != want:
            inp = {"rules": rule_strings, "queries": [list(q) for q in queries], "failing_query": [op, full]}
            if raw and got.endswith("Error"):
                continue   # a hand-made rule list: qnmatch raising on a pattern re refuses is outside the property
            v = classify_privacy_failure(op, ob, scope, got, want, parsed, rule_strings)
            if v:
                fails.append((v[0], inp, v[1]))
    cache = cache_repr(system)
    return {"line": " ".join(req), "impl": " ".join(answers) + " | " + cache, "answers": answers, "fails": fails,
            "applies": applies, "rules": rule_strings, "queries": [list(q) for q in queries]}


def _privacy_chunk(jobs):
    warnings.filterwarnings("ignore", category=FutureWarning)
    return [privacy_eval(*j) for j in jobs]


def privacy_stream(ctx: Ctx, stream: str, jobs: List[Tuple[Any, Any, bool]]) -> None:
    step = 100
    chunks = [jobs[i:i + step] for i in range(0, len(jobs), step)]
    with multiprocessing.get_context("fork").Pool(16) as pool:
        results = [r for part in pool.map(_privacy_chunk, chunks) for r in part]
    for r in results:
        nrules = len(r["rules"])
        ctx.case(r["line"], r["applies"] and nrules > 0,
                 {"rules": r["rules"], "queries": r["queries"], "impl": r["answers"]}
                 if r["applies"] and nrules == 3 and "Error" not in r["impl"] and len(ctx.samples) < 6 else None)
        ctx.count(f"{stream}:rules={nrules}")
        for f in r["fails"]:
            ctx.fail(*f)
    ctx.compare(stream, [r["line"] for r in results], [r["impl"] for r in results],
                [{"rules": r["rules"], "queries": r["queries"]} for r in results])


# ---- query histories with moves (Documentable.reparent, what an __all__ re-export does)

MOVERS = ["p.m.C", "p.m._C", "p._m.B", "p._m.C", "K2", "p.m.a"]          # creation labels; classes with members, one attribute
TARGETS = ["p.m", "p._m", "d", "p"]   # creation labels ("d" is the module p.d)
MOVE_RULE_TEXTS = ["p.m.**", "p._m.**", "p.d.**", "p.*.C.*", "**.Moved", "**.Moved.*", "p.m.C", "p._m.C.f", "p.d.C", "**._*"]


def rand_move_events(rng, n: int) -> List[tuple]:
    labels = [t[0] for t in TREE] + [t[0] for t in DUP_TREE]
    evs: List[tuple] = []
    for _ in range(n):
        r = rng.random()
        if r < 0.18:
            lab = rng.choice(MOVERS)
            base = {"K2": "K"}.get(lab, lab.rpartition(".")[2])
            name = rng.choice([base, base, "_" + base.lstrip("_"), base.lstrip("_") or "X", "Moved"])
            evs.append(("M", lab, rng.choice(TARGETS + ["="]), name))   # "=": rename in place
        elif evs and r < 0.4:
            prev = [e for e in evs if e[0] != "M"]
            evs.append((rng.choice("cvp"), rng.choice(prev)[1]) if prev else ("c", rng.choice(labels)))
        else:
            lab = rng.choice(labels)
            if rng.random() < 0.5:   # prefer what sits below a mover
                lab = rng.choice([l for l in labels if any(l.startswith(m + ".") or l == m for m in MOVERS)] + ["K2.m", "f3"])
            evs.append((rng.choice("ccvp"), lab))
    return evs


def moves_eval(rules: Sequence[Tuple[str, str]], events: Sequence[tuple]) -> Dict[str, Any]:
    """queries interleaved with reparent() on one real System; every answer is judged against the documented rules for
    the object's CURRENT qualified name, computed afresh"""
    from pydoctor import model
    rule_strings = [f"{lv}:{pat}" for lv, pat in rules]
    fails: List[Tuple[str, Any, str]] = []
    payload = {"rules": rule_strings, "events": [list(e) for e in events]}
    head = ["privacy world"] + [f"V {enc(r)}" for r in rule_strings]
    try:
        with contextlib.redirect_stderr(io.StringIO()):
            system, _ = build_system(rule_strings, False)
    except SystemExit:
        return {"line": " ".join(head + ["W", ";".join(static_obj_token(n) for n in tree_info())]), "impl": "SystemExit",
                "fails": fails, "applies": False, "payload": payload, "moves": 0}
    labels: Dict[str, Any] = system._c13_labels
    order = list(labels.values())
    ident = {id(ob): i for i, ob in enumerate(order)}
    parsed = [(lv.name, pat) for lv, pat in system.options.privacy]
    toks = [obj_token(ob) for ob in order]
    req = head + ["W", ";".join(toks)]
    answers: List[str] = []
    moved: set = set()
    nmoves = 0
    applies = False
    for ev in events:
        if ev[0] == "M":
            _, lab, target, name = ev
            ob = labels[lab]
            new_parent = ob.parent if target == "=" else labels[target]
            if not is_entry(ob) or not isinstance(ob.parent, model.CanContainImportsDocumentable):
                continue   # reparent() needs the object to be its parent's contents entry
            if new_parent is ob.parent and name == ob.name:
                continue
            with contextlib.redirect_stderr(io.StringIO()):
                ob.reparent(new_parent, name)
            nmoves += 1
            moved.update(id(o) for o in system._objectsBelow(ob))
            new = [obj_token(o) for o in order]
            upd = [f"{i}={new[i]}" for i in range(len(order)) if new[i] != toks[i]]
            toks = new
            if upd:
                req.append("M " + ";".join(upd))
            continue
        op, lab = ev
        ob = labels[lab]
        ch = chain_of(ob)
        scope = ch if op == "v" else [ob]
        req.append("A %s %s" % (op, ",".join(str(ident[id(x)]) for x in scope)))
        try:
            got = ob.privacyClass.name if op == "c" else str(ob.isVisible) if op == "v" else str(ob.isPrivate)
        except Exception as e:
            got = exc_name(e)
        answers.append(got)
        lv = o_level(parsed, ob)
        want = lv if op == "c" else str(lv != "PUBLIC") if op == "p" else \
            str(all(o_level(parsed, x) != "HIDDEN" for x in ch) and all(is_entry(x) for x in ch))
        if any(pat == x.fullName() or o_qnmatch(x.fullName(), pat) for _, pat in parsed for x in scope):
            applies = True
        if got != want:
            inp = dict(payload, failing_event=[op, lab], current_name=ob.fullName())
            v = classify_privacy_failure(op, ob, scope, got, want, parsed, rule_strings)
            if v and v[0].startswith("privacy-differs") and any(id(x) in moved for x in scope):
                v = ("stale-after-move:" + op, f"after a move (object created as {lab}): " + v[1])
            if v:
                fails.append((v[0], inp, v[1]))
    # the hypotheses of Privacy.cache_transparent_moves_wellNamed, read off the real objects
    wn = all("." not in o.name and (o.fullName() == o.name or o.fullName().endswith("." + o.name)) for o in order)
    return {"line": " ".join(req), "impl": " ".join(answers) + " | " + cache_repr(system), "fails": fails,
            "applies": applies, "payload": payload, "moves": nmoves, "answers": answers, "wellnamed": wn}


def _moves_chunk(jobs):
    warnings.filterwarnings("ignore", category=FutureWarning)
    return [moves_eval(*j) for j in jobs]


def run_moves(ctx: Ctx) -> None:
    tree_info()
    rng = ctx.rng
    jobs = []
    for _ in range(800 if ctx.quick else 15000):
        rules = [(rng.choice(LEVELS), rng.choice(MOVE_RULE_TEXTS) if rng.random() < 0.7 else rand_rule_text(rng))
                 for _ in range(rng.randint(1, 4))]
        jobs.append((rules, rand_move_events(rng, 18)))
    step = 100
    chunks = [jobs[i:i + step] for i in range(0, len(jobs), step)]
    with multiprocessing.get_context("fork").Pool(16) as pool:
        results = [r for part in pool.map(_moves_chunk, chunks) for r in part]
    for r in results:
        nontriv = r["applies"] and r["moves"] > 0
        ctx.case(r["line"], nontriv, dict(r["payload"], impl=r.get("answers")) if nontriv and ctx.dist.get("privacy-moves:cases", 0) < 1 else None)
        ctx.count("privacy-moves:cases")
        ctx.count("privacy-moves:moves", r["moves"])
        ctx.count("privacy-moves:hyp-wellNamed-" + ("holds" if r.get("wellnamed", True) else "fails"))
        for f in r["fails"]:
            ctx.fail(*f)
    ctx.compare("privacy-moves", [r["line"] for r in results], [r["impl"] for r in results], [r["payload"] for r in results])


def rand_queries(rng, k: int, under: str = "") -> List[Tuple[str, str]]:
    names = [n for n in tree_info() if n.startswith(under) or (under and rng.random() < 0.1)]
    qs = []
    for _ in range(k):
        if qs and rng.random() < 0.25:
            qs.append((rng.choice("cvp"), rng.choice(qs)[1]))   # ask again: cache hit
        else:
            qs.append((rng.choice("ccvvp" if under else "ccvp"), rng.choice(names)))
    return qs


def rand_rule_text(rng) -> str:
    r = rng.random()
    if r < 0.3:
        return rng.choice(list(tree_info()))
    if r < 0.38:
        return rng.choice(RULE_TEXTS + DUP_RULE_TEXTS)
    if r < 0.42:
        return rng.choice(BAD_TEXTS)
    parts = []
    for _ in range(rng.randint(1, 4)):
        parts.append(rng.choice(["p", "m", "_m", "C", "_C", "*", "**", "?", "_*", "__*__", "[A-C]", "[!_]*", "[_]*", "f", "*f", "[c-a]", "__main__",
                                 "d", "K", "K 0", "K*", "f 0", "f ?", "* 0", "I", "_g*"]))
    return ".".join(parts)


def run_privacy(ctx: Ctx) -> None:
    tree_info()   # read the fixed tree once, before the worker processes are forked
    ctx.extra["tree_objects"] = len(tree_info())
    ctx.extra["tree_superseded"] = sorted(n for n, v in tree_info().items() if not v[3])
    pool = [(lv, t) for lv in LEVELS for t in RULE_TEXTS]
    lists = [list(c) for k in range(4) for c in itertools.product(pool, repeat=k)]
    rounds = 1 if ctx.quick else 3
    jobs = [(rules, rand_queries(ctx.rng, 10), idx % 97 == 0 and rd == 0)
            for idx, rules in enumerate(lists) for rd in range(rounds)]
    ctx.extra["exhaustive_rule_lists"] = len(lists)
    privacy_stream(ctx, "privacy-exhaustive", jobs)
    # the same on the duplicate definitions of p.d: superseded 'p.d.K 0' with members, 'p.d.K.f 0', 'p.d.K.f 1', 'p.d._g 0'
    pool = [(lv, t) for lv in LEVELS for t in DUP_RULE_TEXTS]
    lists = [list(c) for k in range(4) for c in itertools.product(pool, repeat=k)]
    jobs = [(rules, rand_queries(ctx.rng, 10, "p.d"), idx % 97 == 0 and rd == 0)
            for idx, rules in enumerate(lists) for rd in range(rounds)]
    privacy_stream(ctx, "privacy-exhaustive-dup", jobs)
    jobs = []
    for _ in range(400 if ctx.quick else 12000):
        rules = [(ctx.rng.choice(LEVELS), rand_rule_text(ctx.rng)) for _ in range(ctx.rng.randint(0, 6))]
        jobs.append((rules, rand_queries(ctx.rng, 14), False))
    privacy_stream(ctx, "privacy-random", jobs)
    # rule lists put into options.privacy by hand (no option parsing): the model's `privacy run`, where a pattern
    # that re refuses still reaches qnmatch and the re.error escapes from System.privacyClass
    jobs = []
    for _ in range(300 if ctx.quick else 4000):
        rules = [(ctx.rng.choice(LEVELS), ctx.rng.choice(RULE_TEXTS + BAD_TEXTS + BAD_TEXTS)) for _ in range(ctx.rng.randint(1, 4))]
        jobs.append((rules, rand_queries(ctx.rng, 10), "raw"))
    privacy_stream(ctx, "privacy-raw", jobs)


def run_parse(ctx: Ctx) -> None:
    rng = ctx.rng
    reqs, impls, pay = [], [], []
    heads = ["PUBLIC", "public", "Private", "HIDDEN", "hidden", "VISIBLE", "visible", "PUBLIK", "", "1", "HIDDEN PUBLIC", "_", "PrivacyClass.PUBLIC", "name"]
    for _ in range(600 if ctx.quick else 6000):
        h = rng.choice(heads)
        if rng.random() < 0.3:
            h = rng.choice([" ", "\t", "\x1c", "\x0b", ""]) + h + rng.choice([" ", "\n", "\x1f", ""])
        pat = "".join(rng.choice("ab.*?[]! \t_-") for _ in range(rng.randint(0, 6)))
        if rng.random() < 0.15:
            pat += rng.choice(["[b-a]", "[!a--]", "[a-b]", "[_-.]x"])
        if rng.random() < 0.1:
            pat = pat[:2] + rng.choice("éß\u4e2d") + pat[2:] + "x"   # non-ASCII away from the edges (strip/upper never see it)
        value = rng.choice([h + ":" + pat] * 6 + [h + pat, h + ":" + pat + ":" + pat, ":" + pat, h + "::" + pat])
        got = impl_parse(value)
        reqs.append("privacy parse " + enc(value))
        impls.append(got)
        pay.append({"value": value})
        ctx.case(reqs[-1], got.startswith("ok"), None)
        ctx.count("parse:" + got.split()[0])
    ctx.compare("privacy-parse", reqs, impls, pay)


# ---------------------------------------------------------------------------------------------------
# deterministic corpus: inputs of every past finding and the shapes every seeded change needs; runs first, every run

CORPUS_GLOB = [
    # finding raises:ReError:descending-range (fixed c6e4102): qnmatch called directly still raises
    ("[b-a]", ["a", "b", "-"]), ("x[a--]", ["xa"]), ("m.[_-.]*", ["m.a"]),
    # seeded C13-1 / C13-r2-3: a one-character wildcard or a set standing for a dot; a dot listed in a set
    ("m.A?x", ["m.A.x", "m.Abx", "m.A.x.y", "m.Ax"]), ("m.B[!_]y", ["m.B.y", "m.B_y", "m.Bay"]),
    ("m.[C.]", ["m.C", "m..", "m.D"]), ("a?b", ["a.b", "axb", "ab"]), ("pkg[._]mod", ["pkg_mod", "pkg.mod", "pkgxmod"]),
    ("pkg.[!._]*", ["pkg.mod", "pkg._mod", "pkg..mod", "pkg.mod.sub"]),
    # hand mutations of round 1: star over a dot, '?' not matching a dot, set negation / first characters
    ("a*b", ["a.b", "axb", "ab", "a.xb"]), ("a**b", ["a.b", "a.x.b", "ab"]), ("a?", ["a.", "ab", "a"]),
    ("[^a]", ["^", "a", "b"]), ("[!^]", ["^", "a"]), ("[]]", ["]", "a"]), ("[!]]", ["]", "a"]), ("[]-a]", ["]", "_", "a", "b"]),
    ("[a-]", ["a", "-", "b"]), ("[--a]", [".", "-", "a", "b"]), ("[a\\-z]", ["\\", "a", "b", "z"]), ("[", ["["]), ("[!", ["[!"]), ("[]", ["[]"]),
    # the manual's examples
    ("**", ["", "a", "a.b.c"]), ("twisted.test.*", ["twisted.test.proto_helpers", "twisted.test", "twisted.test.a.b"]),
    ("**.__*__", ["m.C.__init__", "__init__", "m.__x", "m.C.__a__.b"]), ("**.__init__", ["m.C.__init__", "__init__", "m.x__init__"]),
    # name edges: empty components, leading / trailing dots
    ("*", ["", "a", ".", "a.b"]), ("*.*", [".", "a.", ".a", "a.b", "a"]), ("**.", ["a.", ".", "a"]), (".**", [".a", ".", "a"]),
    # reviewer's list (pinned by Glob.spec_triple_star / set_conventions / spec_empty)
    ("***", ["", "a", "a.b.c"]), ("[a&&b]", ["a", "&", "b", "c"]), ("[a||b]", ["|", "c"]), ("[a~~b]", ["~", "c"]), ("[a-c]", ["b", "-"]),
    ("[a-]", ["-"]), ("", ["", "a"]),
    ("a.**", ["a.", "a", "a.b.c", "ab.c"]), ("a.*", ["a.", "a", "a.b", "a.b.c"]), ("***", ["a.b"]), ("a\nb", ["a\nb"]), ("a", ["a\n"]),
]

CORPUS_PRIVACY = [
    # seeded C13-2 / C13-r2-2: several exact rules for one name: the last one wins
    (["HIDDEN:p.m.C", "PUBLIC:p.m.C"], [("c", "p.m.C"), ("v", "p.m.C.f")]),
    (["PUBLIC:p.m.C", "HIDDEN:p.m.C"], [("c", "p.m.C"), ("v", "p.m.C.f")]),
    (["PUBLIC:p.m._C", "PRIVATE:p.m.*", "HIDDEN:p.m._C", "PRIVATE:p.m._C"], [("c", "p.m._C"), ("p", "p.m._C")]),
    # exact beats a later pattern; last pattern wins
    (["PUBLIC:p.m.C", "HIDDEN:p.m.*"], [("c", "p.m.C"), ("c", "p.m._C"), ("v", "p.m.C.f")]),
    (["HIDDEN:p.m.*", "PRIVATE:**.C", "PUBLIC:p.?.C"], [("c", "p.m.C"), ("c", "p._m.C")]),
    # seeded C13-1 / C13-r2-3 through the rules
    (["HIDDEN:p.m.C?f"], [("c", "p.m.C.f")]), (["PRIVATE:p.m[._]C"], [("c", "p.m.C")]), (["HIDDEN:p.m.[C.]"], [("c", "p.m.C")]),
    (["HIDDEN:p.[!_]*"], [("c", "p.m"), ("c", "p._m"), ("v", "p.m.C")]),
    # findings main-module:* (fixed c8d85b0) and raises:ReError:descending-range (fixed c6e4102)
    (["HIDDEN:p.__main__"], [("c", "p.__main__"), ("v", "p.__main__.run")]), ([], [("c", "p.__main__"), ("p", "p.__main__")]),
    (["PUBLIC:**"], [("c", "p.__main__"), ("c", "p.m._C"), ("p", "p.m.C._f")]),
    (["HIDDEN:p.m.[b-a]*"], [("c", "p.m.C")]),
    # superseded definitions (cb98646) and a cache keyed by the wrong thing
    (["HIDDEN:p.d.K 0"], [("v", "p.d.K 0.m"), ("c", "p.d.K 0.m"), ("v", "p.d.K.m")]), ([], [("v", "p.d.K.f 0"), ("v", "p.d.K.f"), ("v", "p.d._g 0")]),
    (["HIDDEN:p.m.C"], [("c", "p.m.C"), ("c", "p._m.C"), ("c", "p.m.C.f"), ("c", "p._m.C.f"), ("c", "p.m.C")]),
    # reviewer's list: kind None is HIDDEN whatever the rules (Privacy.kindNone_hidden); empty pattern never applies
    (["PUBLIC:p.m.k"], [("c", "p.m.k"), ("v", "p.m.k"), ("c", "p.m.k")]), (["PUBLIC:**", "PUBLIC:p.m.k"], [("c", "p.m.k"), ("p", "p.m.k")]),
    (["HIDDEN:", "visible:p.m._C"], [("c", "p"), ("c", "p.m._C")]),
    # the default
    ([], [("c", n) for n in ("p.m.C._", "p.m.C.__", "p.m.C.___", "p.m.C._a_", "p.m.C.a__", "p.m.C.__a_", "p.m.C.__init__", "p.m.C.__x", "p.m.k")]),
]

CORPUS_MOVES = [
    # seeded C13-r2-1: ask below a class, move the class out of the rule's reach, ask again
    (["HIDDEN:p.m.**"], [("c", "p.m.C.f"), ("c", "p.m.C"), ("v", "p.m.C._f"), ("M", "p.m.C", "p._m", "Moved"),
                         ("c", "p.m.C.f"), ("c", "p.m.C"), ("v", "p.m.C._f"), ("p", "p.m.C._")]),
    (["PRIVATE:**.Moved.*"], [("c", "p.m._C.g"), ("M", "p.m._C", "=", "Moved"), ("c", "p.m._C.g"), ("c", "p.m._C"),
                              ("M", "p.m._C", "d", "_C"), ("c", "p.m._C.g"), ("p", "p.m._C")]),
    (["HIDDEN:p._m.C"], [("c", "p._m.C.f"), ("v", "p._m.C.f"), ("M", "p.m.C", "p._m", "C"), ("v", "p._m.C.f"), ("c", "p.m.C"), ("v", "p.m.C.f")]),
]


def run_corpus(ctx: Ctx) -> None:
    reqs, impls, pay = [], [], []
    for p, names in CORPUS_GLOB:
        tr = impl_translate(p)
        bits, err = impl_match(p, names)
        toks = o_tokens(p)
        obits = [o_match(toks, nm) for nm in names]
        reqs.append("glob match " + enc(p) + " " + " ".join(enc(nm) for nm in names))
        impls.append(tr if not tr.startswith("ok ") else tr + " " + (err if err else bitstr(bits)))
        pay.append({"pattern": p, "names": names})
        ctx.case(reqs[-1], bits is not None and any(bits) and not all(bits), None)
        ctx.count("corpus:glob")
        v = check_glob_case(p, names, tr, bits, err, obits, toks)
        if v:
            ctx.fail(*v)
        sp = "glob spec " + enc(p) + " " + " ".join(enc(nm) for nm in names)
        reqs.append(sp)
        impls.append(("wf " if o_wellformed(toks) else "desc ") + bitstr(obits))
        pay.append({"pattern": p, "names": names, "what": "spec"})
    ctx.compare("corpus-glob", reqs, impls, pay)
    tree_info()
    rs = [privacy_eval([tuple(r.split(":", 1)) for r in rules], qs, via) for rules, qs in CORPUS_PRIVACY for via in (False, True)]
    ms = [moves_eval([tuple(r.split(":", 1)) for r in rules], evs) for rules, evs in CORPUS_MOVES]
    for r in rs + ms:
        ctx.case(r["line"], True, None)
        ctx.count("corpus:privacy")
        for f in r["fails"]:
            ctx.fail(*f)
    # observations pinned by theorems (not judged by the oracle): FutureWarning of re on set-operator look-alikes;
    # the cache survives a change of options.privacy made through the API after the first query
    import re as _re
    from pydoctor import qnmatch as _q
    for p in ("[a&&b]", "[a||b]", "[a~~b]", "[a--b-]x"):
        with warnings.catch_warnings(record=True) as w:
            warnings.simplefilter("always")
            try:
                _re.compile(_q.translate(p) + "(?#c13)")   # a text re has not cached yet
            except _re.error:
                pass
        ctx.count("observation:re-FutureWarning" if any(issubclass(x.category, FutureWarning) for x in w) else "observation:re-no-warning")
    system, objs = build_system(["HIDDEN:p.m.C"], False)
    first = objs["p.m.C"].privacyClass.name
    from pydoctor import options as _o
    system.options.privacy = _o._convert_privacy(["PUBLIC:p.m.C"])
    second = objs["p.m.C"].privacyClass.name
    ctx.count("observation:cache-survives-rule-change" if (first, second) == ("HIDDEN", "HIDDEN") else "observation:cache-follows-rule-change")
    ctx.traces_validated += 1
    if (first, second) != ("HIDDEN", "HIDDEN"):   # Privacy.cache_survives_rule_change no longer describes the code
        ctx.disagree("corpus-privacy", {"rules": ["HIDDEN:p.m.C", "then options.privacy = PUBLIC:p.m.C"]}, "HIDDEN HIDDEN", f"{first} {second}")
    ctx.compare("corpus-privacy", [r["line"] for r in rs + ms], [r["impl"] for r in rs + ms],
                [{"rules": r["rules"], "queries": r["queries"]} for r in rs] + [r["payload"] for r in ms])


# ---------------------------------------------------------------------------------------------------
# systems made by the real AST builder from generated source: @type / @ivar fields, underscore-only names

SRC_NAMES = ["x", "y", "_p", "_", "__", "___", "____", "__d__", "Z", "t"]


def gen_source(rng) -> Tuple[str, set]:
    """a module `mod` (+ class C); returns the text and the qualified names the code really defines"""
    assigned = set()
    mod_names = rng.sample(SRC_NAMES, rng.randint(2, 5))
    typed = [n for n in mod_names if rng.random() < 0.45]
    ghosts = [n for n in ("ghost", "_ghost") if rng.random() < 0.3]          # declared by a @type field only
    lines = ['"""', "Module."] + [f"@type {n}: int" for n in typed + ghosts] + ['"""']
    for n in mod_names:
        lines.append(f'{n} = {rng.choice(["1", "len(\"abc\")", "[]"])}')
        if rng.random() < 0.6:
            lines.append(f'"""The {n}."""')
        assigned.add("mod." + n)
    cls_names = rng.sample(SRC_NAMES, rng.randint(1, 4))
    ctyped = [n for n in cls_names if rng.random() < 0.4] + [n for n in ("t2",) if rng.random() < 0.4]
    lines += ["class C:", '    """', "    Class."] + [f"    @type {n}: int" for n in ctyped] + ['    """']
    assigned.add("mod.C")
    for n in cls_names:
        if rng.random() < 0.5:
            lines.append(f"    {n} = 2")
        else:
            lines += [f"    def {n}(self):", f'        """Method {n}."""']
        assigned.add("mod.C." + n)
    return "\n".join(lines) + "\n", assigned


def source_eval(src: str, assigned: Sequence[str], rules: Sequence[Tuple[str, str]]) -> Dict[str, Any]:
    from pydoctor import model, options
    global _DEFAULT_OPTS
    rule_strings = [f"{lv}:{pat}" for lv, pat in rules]
    if _DEFAULT_OPTS is None:
        _DEFAULT_OPTS = options.Options.defaults()
    opts = copy.copy(_DEFAULT_OPTS)
    opts.privacy = options._convert_privacy(rule_strings)
    system = model.System(opts)
    with contextlib.redirect_stderr(io.StringIO()):
        builder = system.systemBuilder(system)
        builder.addModuleString(src, "mod")
        builder.buildModules()
    parsed = [(lv.name, pat) for lv, pat in system.options.privacy]
    req = ["privacy cli"] + [f"V {enc(r)}" for r in rule_strings]
    answers, fails = [], []
    aset = set(assigned)
    for ob in list(system.allobjects.values()):
        for op in ("c", "v"):
            ch = chain_of(ob)
            scope = ch if op == "v" else [ob]
            req.append("Q %s %s" % (op, ";".join(obj_token(x) for x in scope)))
            try:
                got = ob.privacyClass.name if op == "c" else str(ob.isVisible)
            except Exception as e:
                got = exc_name(e)
            answers.append(got)
            lv = o_level(parsed, ob)
            want = lv if op == "c" else str(all(o_level(parsed, x) != "HIDDEN" for x in ch) and all(is_entry(x) for x in ch))
            if got != want:
                v = classify_privacy_failure(op, ob, scope, got, want, parsed, rule_strings, aset)
                if v:
                    fails.append((v[0], {"source": src, "assigned": sorted(aset), "rules": rule_strings, "failing_query": [op, ob.fullName()]}, v[1]))
    kinds = sum(1 for o in system.allobjects.values() if o.kind is None)
    return {"line": " ".join(req), "impl": " ".join(answers) + " | " + cache_repr(system), "fails": fails,
            "payload": {"source": src, "assigned": sorted(aset), "rules": rule_strings}, "nokind": kinds, "objects": len(system.allobjects)}


def _source_chunk(jobs):
    warnings.filterwarnings("ignore", category=FutureWarning)
    return [source_eval(*j) for j in jobs]


SOURCE_CORPUS = [   # hunt/C13/1 and hunt/C13/3
    ('"""\n@type x: int\n"""\nx = len("abc")\n"""The x."""\ny = len("abc")\n"""The y."""\nclass C:\n    """\n    @type t: int\n    """\n',
     ["mod.x", "mod.y", "mod.C"]),
    ('_ = 1\n__ = 2\n___ = 3\n____ = 4\n__x = 5\n__x__ = 6\nclass C:\n    def _(self): "d"\n    def __(self): "d"\n',
     ["mod._", "mod.__", "mod.___", "mod.____", "mod.__x", "mod.__x__", "mod.C", "mod.C._", "mod.C.__"]),
]
SOURCE_RULES = [[], [("PUBLIC", "mod.x")], [("PUBLIC", "**")], [("PUBLIC", "**"), ("PRIVATE", "mod.?")], [("PUBLIC", "mod.C.t")],
                [("HIDDEN", "mod.__")], [("PRIVATE", "**._*")]]


def run_source(ctx: Ctx) -> None:
    rng = ctx.rng
    jobs = [(src, asg, rules) for src, asg in SOURCE_CORPUS for rules in SOURCE_RULES]
    texts = ["mod.x", "mod.y", "mod.__", "mod.C.t", "mod.C.t2", "mod.ghost", "**", "mod.?", "mod.*", "mod.C.*", "**._*", "**.__*__", "mod.C.__"]
    for _ in range(250 if ctx.quick else 4000):
        src, asg = gen_source(rng)
        rules = [(rng.choice(LEVELS), rng.choice(texts)) for _ in range(rng.randint(0, 3))]
        jobs.append((src, sorted(asg), rules))
    step = 50
    chunks = [jobs[i:i + step] for i in range(0, len(jobs), step)]
    with multiprocessing.get_context("fork").Pool(16) as pool:
        results = [r for part in pool.map(_source_chunk, chunks) for r in part]
    for r in results:
        ctx.case(r["line"], r["nokind"] > 0 or bool(r["payload"]["rules"]), r["payload"] if r["nokind"] and ctx.dist.get("privacy-source:cases", 0) < 1 else None)
        ctx.count("privacy-source:cases")
        ctx.count("privacy-source:objects", r["objects"])
        ctx.count("privacy-source:kind-None-objects", r["nokind"])
        for f in r["fails"]:
            ctx.fail(*f)
    ctx.compare("privacy-source", [r["line"] for r in results], [r["impl"] for r in results], [r["payload"] for r in results])


# ---------------------------------------------------------------------------------------------------
# time: the privacy of an object must be determined - a match that does not return determines nothing

TIME_LIMIT = 0.15   # seconds for ONE match of a pattern of < 40 characters against a name of < 50 (the manual's meaning is decided
#                     in O(len(pattern) * len(name)): microseconds); measured twice, the faster run counts


def timed_match(name: str, pat: str) -> Tuple[Any, float]:
    import time
    from pydoctor import qnmatch
    best, res = None, None
    for _ in range(2):
        qnmatch._compile_pattern.cache_clear()
        t = time.perf_counter()
        try:
            res = qnmatch.qnmatch(name, pat)
        except Exception as e:
            res = exc_name(e)
        dt = time.perf_counter() - t
        best = dt if best is None else min(best, dt)
        if best < TIME_LIMIT:
            break
    return res, best


def star_heavy_case(rng, stars: int = 6) -> Tuple[str, str]:
    """a near miss: `pre.*c*c*…*d` against `pre.cccc…c` (d does not occur in the name)"""
    c, d = rng.sample("ab_xyz", 2)
    pre = rng.choice(["mod.", "p.m.", ""])
    star = rng.choice(["*", "*", "**"])
    return pre + c * 40, pre + (star + c) * stars + "*" + d


def run_time(ctx: Ctx) -> None:
    cases = [("mod." + "a" * 40, "mod." + "*a" * 6 + "*b")]     # hunt/C13/2, at a size that still returns
    cases += [star_heavy_case(ctx.rng) for _ in range(2 if ctx.quick else 8)]
    reqs, impls, pay = [], [], []
    for name, pat in cases:
        res, dt = timed_match(name, pat)
        toks = o_tokens(pat)
        ctx.count("time:cases")
        ctx.case("time " + pat, True, None)
        reqs.append("glob match " + enc(pat) + " " + enc(name))
        impls.append(impl_translate(pat) + " " + (bitstr([res]) if isinstance(res, bool) else res))
        pay.append({"pattern": pat, "names": [name]})
        if dt > TIME_LIMIT:
            ctx.fail("qnmatch-time:exponential-in-stars", {"pattern": pat, "names": [name], "seconds": round(dt, 2)},
                     f"qnmatch({name!r}, {pat!r}) needs {dt:.2f} s ({pat.count('*')} stars; two more stars: minutes, the hunter's "
                     f"14 stars: no answer at all); the manual's meaning ({o_match(toks, name)}) is decided in microseconds")
    ctx.compare("glob-time", reqs, impls, pay)


# ---------------------------------------------------------------------------------------------------
# qnmatch through its lru_cache: answers and cache_info() against the model of the cache

def run_lru(ctx: Ctx) -> None:
    from pydoctor import qnmatch
    rng = ctx.rng
    cp = qnmatch._compile_pattern
    maxsize = cp.cache_info().maxsize
    reqs, impls, pay = [], [], []
    for pool_size, ncalls in ((8, 300), (maxsize - 20, 1500), (maxsize + 40, 1500), (2 * maxsize, 2000), (3 * maxsize, 2500 if ctx.quick else 20000)):
        pool = [rand_pattern(rng) if rng.random() < 0.9 else rng.choice(["[b-a]", "x[a--]*", "[c-a]"]) for _ in range(max(pool_size, 1))]
        calls = [(rng.choice(["a.b", "a", "", "_x.y"]), rng.choice(pool)) for _ in range(ncalls)]
        cp.cache_clear()
        out = []
        for nm, p in calls:
            try:
                out.append("1" if qnmatch.qnmatch(nm, p) else "0")
            except Exception as e:
                out.append({"ReError": "R", "IndexError": "I"}.get(exc_name(e), "X"))
        ci = cp.cache_info()
        reqs.append(f"glob lru {maxsize} " + " ".join(enc(nm) + " " + enc(p) for nm, p in calls))
        impls.append(f"{''.join(out)} {ci.hits} {ci.misses} {ci.currsize}")
        pay.append({"lru_pool": len(set(pool)), "calls": ncalls, "cache_info": str(ci)})
        ctx.case(reqs[-1][:4000], ci.hits > 0 and ci.misses > 0, None)
        ctx.count("lru:histories")
        ctx.count("lru:calls", ncalls)
        ctx.count("lru:evicting" if ci.misses - out.count("R") > maxsize else "lru:no-eviction")
        # direct oracle: the cache never changes an answer
        toksl = {p: o_tokens(p) for p in set(p for _, p in calls)}
        for (nm, p), got in zip(calls, out):
            if got in "01" and (got == "1") != o_match(toksl[p], nm):
                ctx.fail("match-differs:through-cache", {"pattern": p, "names": [nm]}, f"qnmatch({nm!r}, {p!r}) through the lru_cache = {got}")
                break
    ctx.extra["lru_maxsize"] = maxsize
    ctx.compare("glob-lru", reqs, impls, pay)


# ---------------------------------------------------------------------------------------------------
# configuration file + command line -> options.privacy

CFG_VALUES = ["HIDDEN:p.m.*", "public:p.m.C", " Private : **._* ", "VISIBLE:p.?", "PUBLIK:x", "HIDDEN:a:b", "HIDDEN", "PRIVATE:p.[b-a]",
              "hidden:p.d.K 0", "PUBLIC:**"]


def run_config(ctx: Ctx) -> None:
    import json as _json
    import shutil
    import tempfile
    from pydoctor import options
    rng = ctx.rng
    d = tempfile.mkdtemp(prefix="c13cfg")
    reqs, impls, pay = [], [], []
    try:
        cases = [([], []), ([], ["HIDDEN:p.m.*"]), (["PUBLIC:p.m.C"], ["HIDDEN:p.m.*"]), (["PUBLIC:p.m.C"], ["PUBLIK:x"]), ([], ["PUBLIK:x"])]
        for _ in range(35 if ctx.quick else 400):
            cases.append(([rng.choice(CFG_VALUES) for _ in range(rng.choice([0, 0, 1, 2]))], [rng.choice(CFG_VALUES) for _ in range(rng.randint(0, 3))]))
        for i, (cli, cfg) in enumerate(cases):
            path = f"{d}/c{i}.toml"
            with open(path, "w") as f:
                f.write("[tool.pydoctor]\n" + ("privacy = [%s]\n" % ", ".join(_json.dumps(v) for v in cfg) if cfg else "quiet = 0\n"))
            try:
                with contextlib.redirect_stderr(io.StringIO()):
                    o = options.Options.from_args(["--config", path] + ["--privacy=" + v for v in cli])
                got = "ok " + (",".join(f"{lv.name}={enc(pt)}" for lv, pt in o.privacy) or "-")
            except SystemExit:
                got = "SystemExit"
            reqs.append("privacy effective " + " ".join(["F " + enc(v) for v in cfg] + ["V " + enc(v) for v in cli]))
            impls.append(got)
            pay.append({"cli": cli, "config_file": cfg})
            ctx.case(reqs[-1], bool(cli) and bool(cfg), None)
            ctx.count("config:" + ("cli+file" if cli and cfg else "cli" if cli else "file" if cfg else "none"))
            # direct oracle: the command line's rules replace the file's (what C13's precedence statement is about)
            eff = cli if cli else cfg
            parts = [impl_parse(v) for v in eff]
            want = "SystemExit" if any(x == "SystemExit" for x in parts) else \
                "ok " + (",".join(x.split()[1] + "=" + x.split()[2] for x in parts) or "-")
            if got != want:
                ctx.fail("config-cli-combination", {"cli": cli, "config_file": cfg}, f"options.privacy = {got}, expected {want}")
    finally:
        shutil.rmtree(d, ignore_errors=True)
    ctx.compare("privacy-config", reqs, impls, pay)


def run(ctx: Ctx) -> None:
    # re warns (FutureWarning "Possible set difference/nested set") on texts such as `[a--b]`; it still compiles them
    warnings.filterwarnings("ignore", category=FutureWarning)
    run_corpus(ctx)
    run_exhaustive(ctx)
    run_random(ctx)
    run_lru(ctx)
    run_privacy(ctx)
    run_moves(ctx)
    run_source(ctx)
    run_time(ctx)
    run_config(ctx)
    run_parse(ctx)


# ---------------------------------------------------------------------------------------------------

def replay(ctx: Ctx, obj) -> int:
    inp = obj.get("input") or obj.get("request") or obj
    if isinstance(inp, dict) and "pattern" in inp:
        p = inp["pattern"]
        names = inp.get("names") or all_names(ALPHA_N, 3)
        tr = impl_translate(p)
        bits, err = impl_match(p, names)
        toks = o_tokens(p)
        obits = [o_match(toks, nm) for nm in names]
        rq = "glob match " + enc(p) + " " + " ".join(enc(nm) for nm in names)
        print("pattern:", repr(p), " names:", names[:8])
        print("impl   :", tr, err if err else bitstr(bits))
        try:
            print("model  :", ctx.driver.run([rq])[0])
        except Exception as e:
            print("model  : unavailable", e)
        print("manual :", bitstr(obits), "" if o_wellformed(toks) else "(descending range)")
        v = check_glob_case(p, names, tr, bits, err, obits, toks)
        print("oracle :", v[2] if v else "property holds on this input")
        return 1 if v else 0
    if isinstance(inp, dict) and "value" in inp:
        rq = "privacy parse " + enc(inp["value"])
        got = impl_parse(inp["value"])
        print("value  :", repr(inp["value"]))
        print("impl   :", got)
        try:
            print("model  :", ctx.driver.run([rq])[0])
        except Exception as e:
            print("model  : unavailable", e)
        pat = inp["value"].partition(":")[2].strip()
        bad = got == "SystemExit" and inp["value"].count(":") == 1 and o_wellformed(o_tokens(pat)) and \
            inp["value"].partition(":")[0].strip().upper() in ("PUBLIC", "PRIVATE", "HIDDEN", "VISIBLE")
        print("oracle :", "a pattern with a meaning in the manual is refused" if bad else "property holds on this input")
        return 1 if bad else 0
    if isinstance(inp, dict) and "source" in inp:
        rules = [tuple(r.split(":", 1)) for r in inp["rules"]]
        r = source_eval(inp["source"], inp.get("assigned", []), rules)
        print("source :", repr(inp["source"]))
        print("rules  :", inp["rules"])
        print("impl   :", r["impl"][:600])
        try:
            print("model  :", ctx.driver.run([r["line"]])[0][:600])
        except Exception as e:
            print("model  : unavailable", e)
        print("oracle :", "; ".join(sorted({f[2] for f in r["fails"]}))[:1500] if r["fails"] else "property holds on this input")
        return 1 if r["fails"] else 0
    if isinstance(inp, dict) and "seconds" in inp:
        res, dt = timed_match(inp["names"][0], inp["pattern"])
        print(f"qnmatch({inp['names'][0]!r}, {inp['pattern']!r}) = {res} after {dt:.2f} s (limit {TIME_LIMIT} s)")
        print("oracle :", "too slow: the privacy is not determined in reasonable time" if dt > TIME_LIMIT else "property holds on this input")
        return 1 if dt > TIME_LIMIT else 0
    if isinstance(inp, dict) and "events" in inp:
        rules = [tuple(r.split(":", 1)) for r in inp["rules"]]
        r = moves_eval(rules, [tuple(e) for e in inp["events"]])
        print("rules  :", inp["rules"])
        print("events :", inp["events"])
        print("impl   :", r["impl"])
        try:
            print("model  :", ctx.driver.run([r["line"]])[0])
        except Exception as e:
            print("model  : unavailable", e)
        print("oracle :", "; ".join(sorted({f[2] for f in r["fails"]})) if r["fails"] else "property holds on this input")
        return 1 if r["fails"] else 0
    if isinstance(inp, dict) and "rules" in inp:
        rules = [tuple(r.split(":", 1)) for r in inp["rules"]]
        r = privacy_eval(rules, [tuple(q[:2]) for q in inp["queries"]], False)
        print("request:", r["line"])
        print("impl   :", r["impl"])
        try:
            print("model  :", ctx.driver.run([r["line"]])[0])
        except Exception as e:
            print("model  : unavailable", e)
        print("oracle :", "; ".join(sorted({f[2] for f in r["fails"]})) if r["fails"] else "property holds on this input")
        return 1 if r["fails"] else 0
    print(obj)
    return 0
