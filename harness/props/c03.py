"""C03 — what pydoctor documents in a namespace is what Python binds there (kinds, docstrings, literal types).

Three streams over the same generated packages (Python text + mini-IR):
  builder-scope : real pydoctor (System/systemBuilder/addModuleString/buildModules) per namespace  vs  Lean `Builder.scope`
  pysem-scope   : the same files imported by CPython (harness/impl/pyrun.py, details mode)         vs  Lean `PySem.scope`
  direct oracle : pydoctor vs CPython, no model in between (names, kinds, coroutine flag, docstrings, literal types)
plus kernel streams: every decorator list up to length 3 (`builder kind`), literal type inference (`builder infer`),
`_maybeAttribute`/`Class.find` (every call logged during the builds + exhaustive chains, `builder find`), and a
deterministic corpus (inputs of all recorded findings, shapes of all seeded changes) that runs first on every run.
"""
from __future__ import annotations

import ast
import inspect
import itertools
import json
import subprocess
import sys
from typing import Any, Dict, List, Optional, Set, Tuple

from ..core import Ctx, Infra, enc, subprocess_env, VERIF

USES_TABLES = True

THEOREMS = ["Builder.sim", "Builder.documented_eq_bound_partial", "Builder.kind_eq", "Builder.kind_eq_iff",
            "Builder.exception_eq", "Builder.exception_eq_of_tables", "Builder.exception_eq_qualified_counterexample_old", "Builder.exception_table_sound",
            "Builder.exception_table_complete", "Builder.exception_tables_agree", "Builder.docstring_eq",
            "Builder.value_eq", "Builder.infer_type_sound", "Builder.infer_elements_sound", "Builder.infer_none_iff",
            "Builder.documented_eq_bound_setter_counterexample", "Builder.documented_eq_bound_annotation_counterexample",
            "Builder.documented_eq_bound_inherited_nonliteral_counterexample",
            "Builder.documented_eq_bound_inherited_counterexample_old", "Builder.documented_eq_bound_tail_counterexample_old",
            "Builder.kind_eq_qualified_old",
            "Builder.documented_eq_bound_rebinding_counterexample", "Builder.documented_eq_bound_overload_counterexample",
            "Builder.maybeAttribute_eq_find", "Builder.inheritedNonAttrOf_contains", "Builder.rel_put", "Builder.rel_updvar",
            "Builder.documented_eq_bound_del_counterexample", "Builder.documented_eq_bound_else_taken_counterexample",
            "Builder.documented_eq_bound_alias_counterexample", "Builder.kind_eq_wrapassign_counterexample", "Builder.docstring_eq_docassign_counterexample_old",
            "Builder.kind_eq_counterexample", "Builder.oldstyle_rewrap_last_wins", "Builder.oldstyle_double_wrap_asserts_old", "Builder.isNameEqualsMain_iff",
            "Builder.recognised_not_taken", "Builder.near_misses_taken_and_entered",
            "Builder.documented_eq_bound_untaken_guard_counterexample",
            "Builder.exception_eq_counterexample_old", "Builder.docstring_eq_counterexample_old"]
RULE = ("generated multi-module packages (package __init__, 1-3 modules, optional subpackage; a fixed helper module with "
        "identity decorators and a context manager): module/class-level class (external bases drawn from every exception "
        "name of builtins and a few non-exceptions, user bases within and across modules), def/async def with decorators "
        "among bare/qualified classmethod, staticmethod, property, x.setter, x.deleter, overload, identity decorators "
        "(plain, called, non-name expression, one whose name ends in 'property'), name = literal (int float complex str "
        "bytes bool None, list/tuple/set/dict homogeneous, mixed, nested, empty), annotated and bare annotations, string "
        "statements after assignments/definitions/properties, nested classes, taken if/try/with/for bodies (else/finally "
        "parts with and without definitions), if __name__ == '__main__' blocks and near misses of that test whose body IS executed on "
        "import (__name__ != '__main__', '__main__' != __name__, not __name__ == '__main__', __name__ is not None, ...) or is not "
        "('__main__' == __name__, __name__ is None, ...), nested defs, self.x assignments, "
        "old-style f = staticmethod(f), re-bound names in both directions (definition over anything, variable over variable, "
        "assignment over a definition), chained a = b = literal, name.__doc__ = text (clean and indented), del name, base classes "
        "reached through from-imports, plain and aliased imports with the base's module sorting before and after, base classes "
        "defined again after being subclassed, docstrings in 10 indentation layouts; a deterministic corpus (inputs of all recorded "
        "findings, shapes of all seeded changes) and probes run first. One case = one namespace "
        "(module or class). Non-trivial = the namespace contains a decorator, a nested class, a taken block or an "
        "attribute docstring.")
ASSUMPTIONS = [
    "generated names are ASCII identifiers and never shadow builtins; docstring text has no backslash/quote (value = source text between the quotes)",
    "a literal's IR is built from ast.literal_eval of its source (set elements / dict keys distinct under ==)",
    "the order in which Class.find walks the classes while a body is visited (cls.mro() = allbases, initial base objects) and each class's contents are read from the built system; "
    "the lookup itself (Builder.findIn / maybeAttributeIn / inheritedNonAttrOf) is modelled, proved equal to the scope-level guard (maybeAttribute_eq_find) and tied to the real "
    "_maybeAttribute by the streams maybe-attribute (every call logged during the build) and kernel-find (exhaustive chains)",
    "unpacking assignments, self.x instance variables, augmented assignment, aliases (name = other_name), typing.Final/ClassVar and docstring fields of properties are outside the IR "
    "(unpacking targets - documented since 8c6e5c4 - and non-literal shadowing are judged by deterministic probes on fixed modules; instance variables are generated but filtered from both sides)",
    "MRO membership = reachability through the base lists (linearisation is C05's layer); generated hierarchies are acyclic and importable",
    "names bound by imports, loop/with targets, submodules and self.x instance attributes are outside the compared set in both directions (DESIGN 4.5)",
    "inspect.cleandoc is modelled by Lineno.cleandoc (tied to CPython by C16's stream and again here through every generated docstring)",
]
PARTIAL = {
    "Builder.documented_eq_bound_partial": "hypothesis Subset.inSubset: a name may be bound again by a def or a class (whatever it was bound to) and a variable may be "
        "assigned again - the last binding wins on both sides; excluded: an assignment to a name bound to a function, class or property (pydoctor keeps the definition), "
        "@x.setter/@x.deleter/@overload, bare annotations, decorators other than classmethod/staticmethod/property (bare or builtins.-qualified) in a class (at most one per def) or identity "
        "decorators not named *property, definitions in the else branch of an if that is not taken / in an except handler that runs, a class attribute assigned a NON-literal that shadows an inherited method/class, "
        "a `__name__` guard that pydoctor enters although it is not taken on import (or the reverse), `del`, `name.__doc__ = text` unless name is a plain function or class of the "
        "namespace (any text, since 6e624d0). (The exception-table clause of inSubset is vacuous for the generated tables: "
        "Builder.basesOk_generated.) Each excluded construct has a counterexample theorem; setter, bare annotation and non-literal inherited shadowing "
        "(and, judged by probes, the property protocol through a base class / getter, async generators) are recorded open findings. Docstring (Builder.docstring_eq) and exception kind (Builder.exception_eq) carry no exclusion of their own since fcaa577 / 769cae3; "
        "the former witnesses are kept as *_counterexample_old over labelled pre-fix definitions.",
    "Builder.kind_eq": "decorator lists accepted by Subset.decosOk (kind_eq_iff characterises agreement for all lists of evaluable decorators)",
}
EXPLANATION = ("Builder.scope transcribes ModuleVistor for one namespace, PySem.scope CPython's execution of the same statements; the theorems relate "
               "the two for every statement list of the subset; both models are tied to their implementation on every generated namespace, and "
               "pydoctor is compared with CPython directly.")

HELPER = '''"""helpers of the generated package"""
def deco(f):
    return f
def deco2(f):
    return f
def log_property(f):
    return f
def my_staticmethod(f):
    return f
def dfac(*a):
    def w(f):
        return f
    return w
_decos = [deco]
class ctx:
    def __enter__(self):
        return self
    def __exit__(self, *a):
        return False
'''
IMPORTED = {"builtins", "sys", "_no_such_module_", "overload", "deco", "deco2", "dfac", "ctx", "log_property", "my_staticmethod", "_decos"}
TARGETS = {"_i", "_cm"}
HEADER = ["import builtins", "import sys", "from typing import overload",
          "from pk._h import deco, deco2, dfac, ctx, log_property, my_staticmethod, _decos"]

EXC_COMMON = ["Exception", "ValueError", "KeyError", "RuntimeError", "TypeError", "Warning", "BaseException", "LookupError"]
NON_EXC = ["object", "dict", "list"]
ANNS = ["int", "str", "float", "bytes", "object", "list", "dict"]


def all_builtin_exceptions() -> List[str]:
    import builtins
    return sorted(n for n in dir(builtins) if isinstance(getattr(builtins, n), type)
                  and issubclass(getattr(builtins, n), BaseException))


# --------------------------------------------------------------------------- literals

def lit_ir(v: Any) -> Any:
    """IR of a literal's value"""
    if v is None:
        return "N"
    t = type(v)
    if t is bool:
        return "B"
    if t is int:
        return "i"
    if t is float:
        return "f"
    if t is complex:
        return "c"
    if t is str:
        return "s"
    if t is bytes:
        return "b"
    if t is list:
        return ("L", [lit_ir(x) for x in v])
    if t is tuple:
        return ("T", [lit_ir(x) for x in v])
    if t is set:
        return ("S", [lit_ir(x) for x in sorted(v, key=repr)])
    if t is dict:
        return ("D", [lit_ir(x) for x in v.keys()], [lit_ir(x) for x in v.values()])
    raise ValueError(v)


def lit_tok(l: Any) -> str:
    if isinstance(l, str):
        return l
    if l[0] == "D":
        return "D(" + "".join(lit_tok(x) for x in l[1]) + "|" + "".join(lit_tok(x) for x in l[2]) + ")"
    return l[0] + "(" + "".join(lit_tok(x) for x in l[1]) + ")"


class LitGen:
    def __init__(self, rng) -> None:
        self.rng = rng
        self.n = 0

    def scalar(self, kinds: str = "ifcsbBN") -> str:
        rng = self.rng
        self.n += 1
        k = rng.choice(kinds)
        if k == "i":
            return rng.choice(["%d" % (10 + self.n), "-%d" % (10 + self.n), "0x%x" % (100 + self.n), "%d" % (10 ** 20 + self.n)])
        if k == "f":
            return rng.choice(["%d.5" % (10 + self.n), "-%d.25" % (10 + self.n), "%de3" % (10 + self.n)])
        if k == "c":
            return rng.choice(["%dj" % (10 + self.n), "%d.5j" % (10 + self.n)])
        if k == "s":
            return rng.choice(["'s%d'" % self.n, '"t%d"' % self.n, "''"])
        if k == "b":
            return "b'b%d'" % self.n
        if k == "B":
            return rng.choice(["True", "False"])
        return "None"

    def hashable(self) -> str:
        # distinct under ==: every generated number/string is unique; booleans are left out of keys
        return self.scalar("ifsb")

    def container(self, depth: int = 0) -> str:
        rng = self.rng
        shape = rng.choice(["L", "L", "T", "S", "D"])
        mode = rng.choice(["homog", "homog", "mixed", "empty", "nested", "none"])
        n = rng.randint(1, 3)
        if mode == "empty":
            return {"L": "[]", "T": "()", "S": "set()", "D": "{}"}[shape]
        if shape == "D":
            kk = rng.choice("ifsb")
            ks = [self.scalar(kk) if mode != "mixed" or rng.random() < 0.5 else self.hashable() for _ in range(n)]
            ks = [k for i, k in enumerate(ks) if k not in ks[:i] and k != "''" or i == 0]
            vk = rng.choice("ifcsbB")
            if mode == "nested" and depth < 2:
                vs = [self.container(depth + 1) for _ in ks]
            elif mode == "none":
                vs = ["None" for _ in ks]
            elif mode == "mixed":
                vs = [self.scalar() for _ in ks]
            else:
                vs = [self.scalar(vk) for _ in ks]
            return "{" + ", ".join("%s: %s" % kv for kv in zip(ks, vs)) + "}"
        if shape == "S":
            k = rng.choice("ifsb")
            elems = [self.scalar(k) if mode == "homog" else self.hashable() for _ in range(n)]
            elems = list(dict.fromkeys(e for e in elems if e != "''")) or ["'z'"]
            return "{" + ", ".join(elems) + "}"
        if mode == "nested" and depth < 2:
            elems = [self.container(depth + 1) for _ in range(n)]
        elif mode == "none":
            elems = ["None"] * n
        elif mode == "mixed":
            elems = [self.scalar() for _ in range(n)]
        else:
            k = rng.choice("ifcsbB")
            elems = [self.scalar(k) for _ in range(n)]
        if shape == "L":
            return "[" + ", ".join(elems) + "]"
        return "(" + ", ".join(elems) + ("," if len(elems) == 1 else "") + ")"

    def literal(self) -> str:
        return self.scalar() if self.rng.random() < 0.55 else self.container()


# --------------------------------------------------------------------------- docstrings

WORDS = ["alpha", "beta", "Gamma", "delta;", "x = 1", "returns the value.", "See also: other", "(note)", "1.", "- item", "Title", "==="]


def gen_doc(rng, indent: str) -> str:
    """the *value* of a docstring literal; printed verbatim between triple quotes"""
    def w() -> str:
        return " ".join(rng.choice(WORDS) for _ in range(rng.randint(1, 3)))
    lay = rng.randrange(13)
    inner = indent
    if lay == 0:
        return w()
    if lay == 10:                                  # one line, trailing blanks (cleandoc keeps them, only the left side is stripped)
        return rng.choice(["", " ", "   "]) + w() + rng.choice([" ", "  ", " \t", "\t"])
    if lay == 11:                                  # one line with tabs inside (cleandoc expands them)
        return w() + rng.choice(["\t", ":\t", " \t "]) + w()
    if lay == 12:                                  # one line, tabs and blanks on both sides
        return rng.choice(["\t", " \t"]) + w() + "\t" + w() + rng.choice(["", " ", "\t "])
    if lay == 1:                                   # first line on the quotes line, closing quotes on their own line
        return w() + "\n" + inner + w() + "\n" + inner
    if lay == 2:                                   # text starts below the quotes
        return "\n" + inner + w() + "\n" + inner + w() + "\n" + inner
    if lay == 3:                                   # deeper continuation lines, blank line in between
        return w() + "\n\n" + inner + "    " + w() + "\n" + inner + w() + "\n"
    if lay == 4:                                   # shallower than the block
        return w() + "\n" + inner[:-2] + w() + "\n" + inner + "  " + w()
    if lay == 5:                                   # trailing and leading blank lines
        return "\n\n" + inner + w() + "\n" + inner + "\n\n" + inner
    if lay == 6:                                   # tabs
        return w() + "\n\t" + w() + "\n\t\t" + w() + "\n" + inner + "\t" + w()
    if lay == 7:                                   # whitespace only / empty
        return rng.choice(["", " ", "\n" + inner, "\t"])
    if lay == 8:                                   # leading spaces on the first line, mixed tab/space margin
        return "   " + w() + "\n" + inner + " \t" + w() + "\n" + inner + "\t " + w() + "  \n"
    return w() + "\n" + inner + w() + " \xa0\n" + inner + "\x0c" + w()   # other whitespace characters


def doc_src(indent: str, value: str) -> str:
    return indent + '"""' + value + '"""'


# --------------------------------------------------------------------------- project generator
# statements (IR):
#   ("class", name, bases, decos, doc, body, cid)   bases: [("e", name) | ("u", cid, expr)]
#   ("def", name, is_async, decos, doc, extra)      decos: ["c","s","p","C","S","P",("set",x),("del",x),"ov",("o",name),"un"]
#   ("asg", name, src, lit, ann)   ("ann", name, ann)   ("str", text)
#   ("blk", kind, body, tail)   ("main", body)   ("old", name, "c"|"s")   ("oth",)

# guards `if [not] <left> <op> <right>:` over d = __name__, m = '__main__', n = None  (left, op, right, negated)
TAKEN_GUARDS = [("d", "ne", "m", 0), ("m", "ne", "d", 0), ("d", "eq", "m", 1), ("d", "isnot", "n", 0),
                ("m", "eq", "d", 1), ("d", "ne", "n", 0), ("d", "eq", "d", 0)]
UNTAKEN_GUARDS = [("m", "eq", "d", 0), ("d", "is", "n", 0), ("d", "eq", "n", 0), ("d", "ne", "m", 1), ("d", "isnot", "n", 1)]
OPERAND_SRC = {"d": "__name__", "m": "'__main__'", "n": "None"}
OP_SRC = {"eq": "==", "ne": "!=", "is": "is", "isnot": "is not"}


def guard_src(g) -> str:
    e = "%s %s %s" % (OPERAND_SRC[g[0]], OP_SRC[g[1]], OPERAND_SRC[g[2]])
    return "if not %s:" % e if g[3] else "if %s:" % e


def guard_taken(g) -> bool:
    same = g[0] == g[2]
    v = same if g[1] in ("eq", "is") else not same
    return (not v) if g[3] else v


def bound_names(stmts: list) -> List[str]:
    out: List[str] = []
    for s in stmts:
        if s[0] in ("def", "class", "asg", "ann", "old", "doc", "del", "alias", "wrap"):
            out.append(s[1])
        elif s[0] == "blk":
            out += bound_names(s[2]) + bound_names(s[3])
        elif s[0] == "cmp":
            out += bound_names(s[2])
    return out


class Scope:
    def __init__(self, qname: str, in_class: bool, in_block: bool, stmts: list, cid: Optional[int] = None) -> None:
        self.qname, self.in_class, self.in_block, self.stmts, self.cid = qname, in_class, in_block, stmts, cid
        self.labels: Dict[str, Set[str]] = {}       # name -> reasons it is outside the theorem's subset
        self.explicit_ann: Set[str] = set()
        self.bare: Set[str] = set()
        self.cat: Dict[str, str] = {}     # name -> "var" | "def": what the name is bound to now (for labelling re-bindings)
        self.docable: List[str] = []      # plain functions (no descriptor decorator) and classes: `name.__doc__ = …` works

    def label(self, name: str, why: str) -> None:
        self.labels.setdefault(name, set()).add(why)

    def docable_used(self, out: list) -> Set[str]:
        return set()


class ProjGen:
    def __init__(self, rng, odd: float = 0.35) -> None:
        self.rng = rng
        self.odd = odd                    # probability scale of out-of-subset / finding constructs
        self.lits = LitGen(rng)
        self.n = 0
        self.cid = 0
        self.env: Dict[int, list] = {}                # cid -> bases
        self.members: Dict[int, Dict[str, str]] = {}  # cid -> name -> "nonattr" | "attr"
        self.exported: List[Tuple[str, str, int]] = []  # (module, class name, cid) module-level classes of finished modules
        self.scopes: List[Scope] = []
        self.exc_names = all_builtin_exceptions()
        self.exc_cids: Set[int] = set()
        self.qual_cids: Set[int] = set()
        self.import_forms: List[str] = []
        self.redefined = 0

    def fresh(self, p: str) -> str:
        self.n += 1
        return "%s%d" % (p, self.n)

    def chance(self, p: float) -> bool:
        return self.rng.random() < p * self.odd

    # ---- statements
    def gen_decos(self, sc: Scope, name: str, local_classes) -> list:
        rng = self.rng
        opaque = [("o", "deco"), ("o", "deco2"), ("o", "dfac"), "un", ("o", "deco"), ("o", "deco2"), ("o", "dfac"), "un",
                  ("o", "my_staticmethod")]
        if not sc.in_class:
            r = rng.random()
            if self.chance(0.1):
                sc.label(name, "module-level-descriptor")
                return [rng.choice(["c", "s", "p"])]
            if r < 0.6:
                return []
            return [rng.choice(opaque) for _ in range(rng.randint(1, 2))]
        if self.chance(0.08):
            sc.label(name, "stacked-descriptors")
            return rng.choice([["s", "c"], ["c", "s"], ["c", "p"], ["p", "c"], ["s", "p"], ["c", ("o", "deco"), "c"], ["p", "s"]])
        if self.chance(0.05):
            sc.label(name, "qualified-spelling")
            return [rng.choice(["C", "S", "P"])]
        if self.chance(0.05):
            sc.label(name, "opaque-named-property")
            return [("o", "log_property")]
        r = rng.random()
        if r < 0.3:
            return []
        d = [rng.choice(["c", "s", "p"])] if r < 0.75 else []
        for _ in range(rng.choice([0, 0, 1, 1, 2])):
            d.insert(rng.randint(0, len(d)), rng.choice(opaque))
        return d

    def gen_def(self, sc: Scope, seen: Dict[str, str], out: list, indent_depth: int) -> None:
        rng = self.rng
        name = self.pick_name(sc, seen, "f", "fn")
        decos = self.gen_decos(sc, name, None)
        is_async = rng.random() < 0.2
        doc = gen_doc(rng, "    " * (indent_depth + 1)) if rng.random() < 0.7 else None
        extra = rng.choice(["", "", "nested", "self"]) if sc.in_class and not decos else rng.choice(["", "nested"])
        if self.chance(0.06) and "ov" not in decos:
            # overloads followed (or not) by the implementation
            sc.label(name, "overload")
            for _ in range(rng.randint(1, 2)):
                out.append(("def", name, False, ["ov"], gen_doc(rng, "    " * (indent_depth + 1)) if rng.random() < 0.3 else None, ""))
            if rng.random() < 0.8:
                out.append(("def", name, is_async, [d for d in decos], doc, extra))
            if rng.random() < 0.2:
                out.append(("def", name, False, ["ov"], None, ""))
            seen[name] = "nonattr"
            return
        out.append(("def", name, is_async, decos, doc, extra))
        if not any(d in ("c", "s", "p", "C", "S", "P", "ov") or (isinstance(d, tuple) and d[0] in ("set", "del")) for d in decos) \
                and not sc.labels.get(name):
            sc.docable.append(name)
        seen[name] = "attr" if any(d in ("p", "P") or d == ("o", "log_property") for d in decos) and sc.in_class else "nonattr"
        if sc.in_class and decos == ["p"] and self.chance(0.12):
            sc.label(name, "string-after-property")
            out.append(("str", gen_doc(rng, "    " * indent_depth)))
        elif sc.in_class and [d for d in decos if d in ("c", "s", "p", "C", "S", "P")][:1] == ["p"] and self.chance(0.5):
            # the usual property protocol: same name
            for kind in rng.sample(["set", "del"], rng.randint(1, 2)):
                sc.label(name, "setter")
                out.append(("def", name, False, [(kind, name)], gen_doc(rng, "    " * (indent_depth + 1)) if rng.random() < 0.5 else None, ""))
        if sc.in_class and all(d in ("c", "s", "un") or (isinstance(d, tuple) and d[0] == "o" and d[1] != "log_property") for d in decos) \
                and not sc.labels.get(name) and rng.random() < (0.12 if not decos else 0.08):
            # old-style wrapping of a method, also of one that is decorated already (04d150a: the last wrapper decides)
            if rng.random() < 0.3:
                out.append(("oth",))
            out.append(("old", name, rng.choice(["c", "s"])))
            if name in sc.docable:
                sc.docable.remove(name)
            if rng.random() < 0.25:
                out.append(("old", name, rng.choice(["c", "s"])))

    def pick_name(self, sc: Scope, seen: Dict[str, str], prefix: str, kind: str) -> str:
        rng = self.rng
        if seen and self.chance(0.07) and kind != "class":
            cands = [n for n in seen if not n[0] == "K"]
            if cands:
                n = rng.choice(cands)
                # the last binding wins on both sides, except when a def/class/property name is ASSIGNED afterwards
                # (pydoctor keeps the definition): only that direction is outside the theorem's subset
                sc.label(n, "rebound" if kind == "var" and sc.cat.get(n) == "def" else "rebound-ok")
                if kind != "var" or sc.cat.get(n) != "def":
                    sc.cat[n] = "var" if kind == "var" else "def"
                return n
        n = self.fresh(prefix)
        sc.cat[n] = "var" if kind == "var" else "def"
        return n

    def gen_assign(self, sc: Scope, seen: Dict[str, str], out: list, indent_depth: int, inherited: Dict[str, str]) -> None:
        rng = self.rng
        name = None
        if sc.in_class and inherited and self.chance(0.5):
            cands = [n for n, k in inherited.items() if n not in seen]
            if cands:
                name = rng.choice(cands)
                if inherited[name] == "nonattr":
                    sc.label(name, "shadows-inherited")
        if name is None:
            name = self.pick_name(sc, seen, rng.choice(["v", "v", "V", "CONST_"]), "var")
        if self.chance(0.2) and name not in seen:
            ann = rng.choice(ANNS)
            out.append(("ann", name, ann))
            sc.bare.add(name)
            sc.label(name, "bare-annotation")
            sc.explicit_ann.add(name)
            seen.setdefault(name, "attr")
        else:
            src = self.lits.literal()
            ann = rng.choice(ANNS) if rng.random() < 0.2 else None
            if ann:
                sc.explicit_ann.add(name)
            out.append(("asg", name, src, lit_ir(ast.literal_eval(src)), ann))
            seen.setdefault(name, "attr")
            if ann is None and rng.random() < 0.12:
                # `a = b = literal`: one statement, the targets are handled (and bound) left to right
                n2 = self.fresh("v")
                out.append(("asg", n2, src, lit_ir(ast.literal_eval(src)), None, "chain"))
                seen.setdefault(n2, "attr")
        if rng.random() < 0.35:
            if rng.random() < 0.2:
                out.append(("oth",))
            out.append(("str", gen_doc(rng, "    " * indent_depth)))

    def gen_class(self, sc: Scope, seen: Dict[str, str], out: list, indent_depth: int, depth: int, modq: str,
                  local_classes: List[Tuple[str, int]], in_block: bool, force_name: Optional[str] = None,
                  force_bases: Optional[list] = None, simple: bool = False) -> None:
        rng = self.rng
        qualified_base = False
        name = force_name or self.fresh("K")
        self.cid += 1
        cid = self.cid
        bases: list = []
        r = rng.random()
        if force_bases is not None:
            bases = list(force_bases)
        elif r < 0.35:
            pool = EXC_COMMON * 3 + self.exc_names + NON_EXC * 4
            b0 = rng.choice(pool)
            if self.chance(0.08):
                b0 = "builtins." + b0          # `class E(builtins.ValueError)`: the module imports builtins
                qualified_base = True
            bases.append(("e", b0))
        elif r < 0.7 and local_classes:
            # hierarchies across modules: prefer exception classes of the project (chains, mixins, diamonds)
            excs = [x for x in local_classes if x[1] in self.exc_cids]
            k = rng.choice([1, 1, 1, 2, 2])
            pool2 = excs if excs and rng.random() < 0.6 else local_classes
            picked = rng.sample(pool2, min(len(pool2), k))
            if len(picked) < k:
                picked += [x for x in rng.sample(local_classes, min(len(local_classes), k)) if x not in picked][:k - len(picked)]
            for nm, c in picked:
                bases.append(("u", c, nm))
            if rng.random() < 0.15:
                bases.append(("e", rng.choice(EXC_COMMON)))
        self.env[cid] = [b[:2] for b in bases]
        if any((b[0] == "e" and b[1].replace("builtins.", "") in self.exc_names) or (b[0] == "u" and b[1] in self.exc_cids) for b in bases):
            self.exc_cids.add(cid)
        if qualified_base or any(b[0] == "u" and b[1] in self.qual_cids for b in bases):
            self.qual_cids.add(cid)            # the qualified name is reachable through the bases
            sc.label(name, "qualified-base")
        decos = [rng.choice([("o", "deco"), ("o", "dfac"), "un"])] if rng.random() < 0.1 else []
        doc = gen_doc(rng, "    " * (indent_depth + 1)) if rng.random() < 0.6 else None
        inherited: Dict[str, str] = {}
        for b in reversed(bases):
            if b[0] == "u":
                inherited.update(self.all_members(b[1]))
        body: list = []
        csc = Scope(sc.qname + "." + name, True, in_block, body, cid)
        cseen: Dict[str, str] = {}
        if simple:
            body.append(("oth",))
        else:
            self.gen_body(csc, cseen, body, indent_depth + 1, depth + 1, modq, local_classes, in_block, inherited)
        if doc is None and body and body[0][0] == "str":
            doc = body.pop(0)[1]          # a leading string statement IS the class docstring
        self.members[cid] = dict(cseen)
        self.scopes.append(csc)
        out.append(("class", name, bases, decos, doc, body, cid))
        seen[name] = "nonattr"
        if depth == 0 and sc.in_class is False:
            local_classes.append((name, cid))

    def gen_redefined(self, sc: Scope, seen: Dict[str, str], out: list, modq: str, local_classes) -> None:
        """`class B(Exc)`, `class D(B)`, `class B(Exc2)` again: the base is defined a second time after it has been
        subclassed (pydoctor then registers the first `B` after `D`).  `B` is bound twice (a class over a class: inside the theorem's subset)."""
        rng = self.rng
        self.gen_class(sc, seen, out, 0, 0, modq, local_classes, False, force_bases=[("e", rng.choice(EXC_COMMON))], simple=True)
        name, cid1 = out[-1][1], out[-1][6]
        first_scope = self.scopes.pop()                 # the namespace of the superseded class exists for pydoctor only
        assert first_scope.cid == cid1
        for _ in range(rng.randint(1, 2)):
            self.gen_class(sc, seen, out, 0, 0, modq, local_classes, False,
                           force_bases=[("u", cid1, name)] + ([("e", "object")] if False else []))
            if rng.random() < 0.4:
                out.append(("oth",))
        local_classes[:] = [x for x in local_classes if x != (name, cid1)]
        self.gen_class(sc, seen, out, 0, 0, modq, local_classes, False, force_name=name,
                       force_bases=[("e", rng.choice(EXC_COMMON + NON_EXC))])
        sc.label(name, "rebound-ok")      # a class over a class: the last definition wins on both sides
        self.redefined += 1

    def all_members(self, cid: int) -> Dict[str, str]:
        res: Dict[str, str] = {}
        for b in reversed(self.env.get(cid, [])):
            if b[0] == "u":
                res.update(self.all_members(b[1]))
        res.update(self.members.get(cid, {}))
        return res

    def gen_body(self, sc: Scope, seen: Dict[str, str], out: list, indent_depth: int, depth: int, modq: str,
                 local_classes, in_block: bool, inherited: Dict[str, str], nstmts: Optional[int] = None) -> None:
        rng = self.rng
        n = nstmts if nstmts is not None else rng.randint(1, 5 if depth < 2 else 3)
        for _ in range(n):
            k = rng.choice(["def", "def", "def", "asg", "asg", "class", "blk", "cmp", "str", "main", "oth", "doc", "del"])
            if k == "def":
                self.gen_def(sc, seen, out, indent_depth)
            elif k == "asg" and rng.random() < 0.12 and sc.qname[0] != "<" and [n for n in seen if not sc.labels.get(n)]:
                # `name = other_name` (hunt/C03/2) and, in a class, `name = property(getter)` / `staticmethod(f)` (hunt/C03/4)
                src = rng.choice([n for n in seen if not sc.labels.get(n)])
                nm = self.fresh("a")
                wrap = sc.in_class and src in sc.docable and rng.random() < 0.5
                if src in sc.docable:
                    # the object now has a second name: a later `src.__doc__ = …` would be seen through both (the models
                    # bind values, not references), so the source is no longer a target of __doc__ assignments
                    sc.docable.remove(src)
                if wrap:
                    sc.label(nm, "wrap-call")
                    out.append(("wrap", nm, rng.choice(["p", "p", "s", "c"]), src))
                else:
                    sc.label(nm, "alias")
                    out.append(("alias", nm, src))
                seen[nm] = "attr"
            elif k == "asg":
                self.gen_assign(sc, seen, out, indent_depth, inherited)
            elif k == "class" and depth < 2:
                if depth == 0 and indent_depth == 0 and not sc.in_class and sc.qname != "<main>" and self.chance(0.12):
                    self.gen_redefined(sc, seen, out, modq, local_classes)
                else:
                    self.gen_class(sc, seen, out, indent_depth, depth, modq, local_classes, in_block)
            elif k == "blk" and indent_depth < 4:
                kind = rng.choice(["i", "t", "w", "f"])
                body: list = []
                self.gen_body(sc, seen, body, indent_depth + 1, depth, modq, local_classes, True, inherited, rng.randint(1, 3))
                tail: list = []
                if kind != "w" and rng.random() < 0.3:
                    tail.append(("oth",))
                    if self.chance(0.3):
                        nm = self.fresh("t")
                        if kind in ("t", "f"):
                            sc.label(nm, "tail-def")
                        tail.append(("def", nm, False, [], None, ""))
                out.append(("blk", kind, body, tail))
                if rng.random() < 0.25 and sc.qname[0] != "<":
                    # the part that RUNS is the else branch / the except handler (hunt/C03/1): pydoctor walks `.body` only
                    form = rng.choice(["if", "try"])
                    ebody: list = [("oth",)] if form == "if" else []
                    if form == "if" and self.chance(0.2):
                        nm = self.fresh("u")
                        sc.label(nm, "untaken-body")
                        ebody.append(("def", nm, False, [], None, ""))
                    etail: list = []
                    for _ in range(rng.randint(1, 2)):
                        nm = self.fresh(rng.choice(["e", "E"]))
                        sc.label(nm, "else-taken")
                        etail.append(rng.choice([("def", nm, False, [], gen_doc(rng, "    " * (indent_depth + 2)), ""),
                                                 ("asg", nm, "None", "N", None)]))
                    out.append(("blk", "e", ebody, etail, form))
            elif k == "str" and rng.random() < 0.5:
                # a string statement wherever it falls (after a def, a class, a property, a block)
                if out and out[-1][0] == "def" and any(d in ("p", "P") for d in out[-1][3]) and sc.in_class:
                    sc.label(out[-1][1], "string-after-property")
                out.append(("str", gen_doc(rng, "    " * indent_depth)))
            elif k == "doc" and [n for n in sc.docable if not sc.labels.get(n)] and sc.qname[0] != "<" and rng.random() < 0.6:
                # `name.__doc__ = """…"""` for a plain function or a class of this namespace
                nm = rng.choice([n for n in sc.docable if not sc.labels.get(n)])
                raw = gen_doc(rng, "    " * indent_depth)
                text = raw if self.chance(0.35) else inspect.cleandoc(raw)
                if text.startswith(" ") or text.startswith("\t"):
                    text = inspect.cleandoc(raw)
                if inspect.cleandoc(text) != text:
                    sc.label(nm, "doc-assign-unclean")
                out.append(("doc", nm, text))
            elif k == "del" and sc.qname[0] != "<" and self.chance(0.25):
                cands = [n for n, kd in seen.items() if n[0] != "K" and not sc.labels.get(n) and n not in sc.docable_used(out)]
                if cands:
                    nm = rng.choice(cands)
                    sc.label(nm, "deleted")
                    if nm in sc.docable:
                        sc.docable.remove(nm)
                    del seen[nm]
                    out.append(("del", nm))
            elif k == "cmp" and indent_depth < 4:
                if rng.random() < 0.85 or self.odd == 0.0:
                    # near misses of the `__main__` idiom whose body IS executed on import
                    g = rng.choice(TAKEN_GUARDS)
                    body = []
                    self.gen_body(sc, seen, body, indent_depth + 1, depth, modq, local_classes, True, inherited, rng.randint(1, 3))
                    out.append(("cmp", g, body))
                else:
                    # tests that are false on import but are not the recognised spelling: pydoctor enters, CPython does not
                    g = rng.choice(UNTAKEN_GUARDS)
                    body = []
                    msc = Scope("<untaken>", sc.in_class, True, body)
                    self.gen_body(msc, {}, body, indent_depth + 1, 2, modq, [], True, {}, rng.randint(1, 2))
                    for nm in bound_names(body):
                        sc.label(nm, "untaken-guard")
                    out.append(("cmp", g, body))
            elif k == "main":
                mb: list = []
                msc = Scope("<main>", sc.in_class, True, mb)
                self.gen_body(msc, {}, mb, indent_depth + 1, 2, modq, [], True, {}, rng.randint(1, 2))
                out.append(("main", mb))
            else:
                out.append(("oth",))

    # ---- modules
    def project(self) -> Tuple[Dict[str, str], List[str]]:
        rng = self.rng
        # generation order = dependency order (a module only imports from earlier ones); the NAMES are drawn at random so
        # that the importing module sorts before as well as after the module it imports from (pydoctor analyses siblings
        # in alphabetical order unless a `from` import pulls a module forward; a plain `import pk.mod` does not)
        names = rng.sample(["ma", "mb", "mq", "mz", "ab", "zz", "k"], 3)
        mods = [("pk", True), ("pk." + names[0], False)]
        if rng.random() < 0.75:
            mods.append(("pk." + names[1], False))
        if rng.random() < 0.4:
            mods.append(("pk." + names[2], False))
        if rng.random() < 0.4:
            sub = rng.choice(["sub", "aa", "zsub"])
            mods.append(("pk." + sub, True))
            mods.append(("pk.%s.%s" % (sub, rng.choice(["mc", "a", "zc"])), False))
        files: Dict[str, str] = {"pk/_h.py": HELPER}
        self.modules = []
        for q, ispkg in mods:
            stmts: list = []
            sc = Scope(q, False, False, stmts)
            local_classes: List[Tuple[str, int]] = []
            imports = []
            if self.exported and rng.random() < 0.7:
                for m, nm, cid in rng.sample(self.exported, min(len(self.exported), rng.randint(1, 3))):
                    form = rng.choice(["from", "from", "plain", "plain", "plain_as"]) if m != "pk" else "from"
                    if form == "from":
                        imports.append("from %s import %s" % (m, nm))
                        local_classes.append((nm, cid))
                    elif form == "plain":             # base written `pk.mod.K`
                        if "import " + m not in imports:
                            imports.append("import " + m)
                        local_classes.append((m + "." + nm, cid))
                    else:                             # base written `alias.K`
                        al = self.fresh("al")
                        imports.append("import %s as %s" % (m, al))
                        local_classes.append((al + "." + nm, cid))
                    self.import_forms.append(form + (":base-module-sorts-later" if m.rsplit(".", 1)[-1] > q.rsplit(".", 1)[-1] and m.count(".") == q.count(".") else ""))
            seen: Dict[str, str] = {}
            self.gen_body(sc, seen, stmts, 0, 0, q, local_classes, False, {}, rng.randint(2, 6))
            self.scopes.append(sc)
            doc = gen_doc(rng, "") if rng.random() < 0.5 else None
            lines = ([doc_src("", doc)] if doc is not None else []) + HEADER + imports
            lines += self.emit(stmts, 0)
            rel = q.replace(".", "/") + ("/__init__.py" if ispkg else ".py")
            files[rel] = "\n".join(lines) + "\n"
            imported_names = {x.split(" import ")[1] for x in imports if x.startswith("from ")}
            sc.imported = imported_names
            for s in stmts:
                self.collect_exports(q, s)
            self.modules.append((q, ispkg))
        return files, [q for q, _ in self.modules]

    def collect_exports(self, q: str, s) -> None:
        if s[0] == "class":
            self.exported = [e for e in self.exported if (e[0], e[1]) != (q, s[1])]      # a redefinition supersedes
            self.exported.append((q, s[1], s[6]))
        elif s[0] == "blk" or (s[0] == "cmp" and guard_taken(s[1])):
            for x in s[2]:
                self.collect_exports(q, x)

    # ---- printing
    def emit(self, stmts: list, d: int) -> List[str]:
        ind = "    " * d
        out: List[str] = []
        for s in stmts:
            k = s[0]
            if k == "class":
                _, name, bases, decos, doc, body, cid = s
                out += [ind + self.deco_src(x) for x in decos]
                bs = ", ".join(b[1] if b[0] == "e" else b[2] for b in bases)
                out.append(ind + "class %s%s:" % (name, "(%s)" % bs if bs else ""))
                if doc is not None:
                    out.append(doc_src(ind + "    ", doc))
                inner = self.emit(body, d + 1)
                out += inner
                if doc is None and not inner:
                    out.append(ind + "    pass")
            elif k == "def":
                _, name, is_async, decos, doc, extra = s
                out += [ind + self.deco_src(x) for x in decos]
                first = next((x for x in decos if x in ("c", "s", "p", "C", "S", "P")), None)
                if any(isinstance(x, tuple) and x[0] == "set" for x in decos):
                    args = "(self, v)"
                elif first in ("s", "S"):
                    args = "()"
                elif first in ("c", "C"):
                    args = "(cls)"
                elif "ov" in decos:
                    args = "(a: int)"
                else:
                    args = "(self)" if True else "()"
                out.append(ind + "%sdef %s%s:" % ("async " if is_async else "", name, args))
                if doc is not None:
                    out.append(doc_src(ind + "    ", doc))
                if extra == "nested":
                    out += [ind + "    def inner():", ind + "        '''inner doc'''", ind + "    class Inner:", ind + "        x = 1"]
                elif extra == "self":
                    out.append(ind + "    self.iv_%s = 0" % name)
                    out.append(ind + "    '''instance attribute doc'''")
                else:
                    out.append(ind + "    " + ("pass" if doc is None else "return None"))
            elif k == "asg":
                name, src, lit, ann = s[1:5]
                if len(s) > 5 and s[5] == "chain" and out and out[-1].startswith(ind) and out[-1].endswith(" = " + src):
                    out[-1] = out[-1][:-len(src)] + "%s = %s" % (name, src)      # a = b = literal
                else:
                    out.append(ind + (("%s: %s = %s" % (name, ann, src)) if ann else ("%s = %s" % (name, src))))
            elif k == "doc":
                out.append(ind + s[1] + '.__doc__ = """' + s[2] + '"""')
            elif k == "del":
                out.append(ind + "del " + s[1])
            elif k == "ann":
                out.append(ind + "%s: %s" % (s[1], s[2]))
            elif k == "str":
                out.append(doc_src(ind, s[1]))
            elif k == "blk" and s[1] == "e":
                _, kind, body, tail, form = s
                if form == "if":
                    out.append(ind + self.rng.choice(["if sys.version_info < (3,):", "if not sys.version_info:", "if sys.platform == 'no-such-os':"]))
                    out += self.emit(body, d + 1) or [ind + "    pass"]
                    out.append(ind + "else:")
                else:
                    out += [ind + "try:", ind + "    import _no_such_module_", ind + "except ImportError:"]
                out += self.emit(tail, d + 1)
            elif k == "alias":
                out.append(ind + "%s = %s" % (s[1], s[2]))
            elif k == "wrap":
                out.append(ind + "%s = %s(%s)" % (s[1], {"p": "property", "s": "staticmethod", "c": "classmethod"}[s[2]], s[3]))
            elif k == "blk":
                _, kind, body, tail = s
                head = {"i": "if True:", "t": "try:", "w": self.rng.choice(["with ctx():", "with ctx() as _cm:"]), "f": "for _i in [0]:"}[kind]
                out.append(ind + head)
                out += self.emit(body, d + 1) or [ind + "    pass"]
                if kind == "t":
                    out += [ind + "except ZeroDivisionError:", ind + "    pass"]
                if tail:
                    out.append(ind + {"i": "else:", "t": "finally:", "f": "else:"}[kind])
                    out += self.emit(tail, d + 1)
            elif k == "cmp":
                out.append(ind + guard_src(s[1]))
                out += self.emit(s[2], d + 1) or [ind + "    pass"]
            elif k == "main":
                out.append(ind + "if __name__ == '__main__':")
                out += self.emit(s[1], d + 1) or [ind + "    pass"]
            elif k == "old":
                out.append(ind + "%s = %s(%s)" % (s[1], {"c": "classmethod", "s": "staticmethod"}[s[2]], s[1]))
            else:
                out.append(ind + "pass")
        return out

    @staticmethod
    def deco_src(x) -> str:
        if isinstance(x, tuple):
            if x[0] == "set":
                return "@%s.setter" % x[1]
            if x[0] == "del":
                return "@%s.deleter" % x[1]
            return "@dfac(1)" if x[1] == "dfac" else "@" + x[1]
        return {"c": "@classmethod", "s": "@staticmethod", "p": "@property", "C": "@builtins.classmethod",
                "S": "@builtins.staticmethod", "P": "@builtins.property", "ov": "@overload", "un": "@_decos[0]"}[x]


# --------------------------------------------------------------------------- IR -> protocol tokens

def deco_tok(x) -> str:
    if isinstance(x, tuple):
        return {"set": "set=", "del": "del=", "o": "o="}[x[0]] + enc(x[1])
    return x


def stmt_tokens(stmts: list) -> List[str]:
    out: List[str] = []
    for s in stmts:
        k = s[0]
        if k == "class":
            _, name, bases, decos, doc, body, cid = s
            bs = ",".join(("e" + enc(b[1])) if b[0] == "e" else "u%d" % b[1] for b in bases) or "-"
            out += ["class", enc(name), bs, ",".join(deco_tok(x) for x in decos) or "-", "-" if doc is None else enc(doc), "("]
            out += stmt_tokens(body) + [")"]
        elif k == "def":
            _, name, is_async, decos, doc, extra = s
            out += ["def", enc(name), "1" if is_async else "0", ",".join(deco_tok(x) for x in decos) or "-",
                    "-" if doc is None else enc(doc)]
        elif k == "asg":
            out += ["asg", enc(s[1]), lit_tok(s[3]), enc(s[4]) if s[4] else "-"]
        elif k == "doc":
            out += ["doc", enc(s[1]), enc(s[2])]
        elif k == "del":
            out += ["del", enc(s[1])]
        elif k == "ann":
            out += ["ann", enc(s[1]), enc(s[2])]
        elif k == "str":
            out += ["str", enc(s[1])]
        elif k == "blk":
            out += ["blk", s[1], "("] + stmt_tokens(s[2]) + [")", "("] + stmt_tokens(s[3]) + [")"]
        elif k == "alias":
            out += ["alias", enc(s[1]), enc(s[2])]
        elif k == "wrap":
            out += ["wrap", enc(s[1]), s[2], enc(s[3])]
        elif k == "cmp":
            g = s[1]
            out += ["cmp", g[0], g[1], g[2], str(g[3]), "("] + stmt_tokens(s[2]) + [")"]
        elif k == "main":
            out += ["main", "("] + stmt_tokens(s[1]) + [")"]
        elif k == "old":
            out += ["old", enc(s[1]), s[2]]
        else:
            out.append("oth")
    return out


def env_token(env: Dict[int, list]) -> str:
    if not env:
        return "-"
    return ";".join("%d=%s" % (cid, ",".join(("e" + enc(b[1])) if b[0] == "e" else "u%d" % b[1] for b in bs))
                    for cid, bs in sorted(env.items()))


def label_strings(sc: Scope, inh: Set[str] = frozenset()) -> None:
    """mark the properties that a string statement follows while `currentAttr` still points at them
    (for classifying a docstring difference; the verdict itself comes from the comparison with CPython)"""
    cur: List[Optional[str]] = [None]
    own: Dict[str, str] = {}       # name -> "attr" | "nonattr" as documented so far in this scope

    def walk(stmts: list) -> None:
        for s in stmts:
            k = s[0]
            if k == "def":
                isprop = sc.in_class and any(d in ("p", "P") or d == ("o", "log_property") for d in s[3])
                if any(isinstance(d, tuple) and d[0] in ("set", "del") for d in s[3]) and sc.in_class and not isprop:
                    cur[0] = None           # documented under the name `x.setter`
                    continue
                cur[0] = s[1] if isprop else None
                own[s[1]] = "attr" if isprop else "nonattr"
            elif k == "class":
                cur[0] = None
                own[s[1]] = "nonattr"
            elif k in ("asg", "ann"):
                # a literal bypasses the inherited-name guard since 91105ce; a bare annotation does not
                refused = own.get(s[1]) == "nonattr" or (k == "ann" and sc.in_class and s[1] not in own and s[1] in inh)
                if not refused:             # else the assignment is ignored and currentAttr stays where it was
                    cur[0] = None
                    own.setdefault(s[1], "attr")
            elif k == "str":
                if cur[0] is not None:
                    sc.label(cur[0], "string-after-property")
                cur[0] = None
            elif k == "wrap":
                cur[0] = None
                own.setdefault(s[1], "attr")
            elif k == "blk" or k == "cmp":
                walk(s[2])
    walk(sc.stmts)


def nontrivial(stmts: list) -> bool:
    for s in stmts:
        if s[0] in ("class", "blk", "cmp"):
            return True
        if s[0] == "def" and s[3]:
            return True
        if s[0] == "str":
            return True
    return False


# --------------------------------------------------------------------------- implementation adapters

def build_pydoctor(files: Dict[str, str], modules: List[Tuple[str, bool]], find_log: Optional[list] = None):
    """build the real system; with `find_log`, every call of astbuilder._maybeAttribute made while the bodies are
    visited is recorded as (name, [contents of each class of cls.mro() as (name, is Attribute)], result)"""
    from pydoctor import model, astbuilder
    orig = astbuilder._maybeAttribute
    if find_log is not None:
        def logged(cls, name):
            chain = [[(n, isinstance(o, model.Attribute)) for n, o in b.contents.items()] for b in cls.mro()]
            r = orig(cls, name)
            find_log.append((name, chain, r, cls, list(cls.mro())))
            return r
        astbuilder._maybeAttribute = logged
    try:
        return _build_pydoctor(files, modules)
    finally:
        astbuilder._maybeAttribute = orig


def _build_pydoctor(files: Dict[str, str], modules: List[Tuple[str, bool]]):
    from pydoctor import model
    s = model.System()
    b = s.systemBuilder(s)
    allm = dict(modules)
    allm["pk._h"] = False

    def below(pkg: str) -> list:
        res = []
        for q in sorted(x for x in allm if x.rsplit(".", 1)[0] == pkg and x != pkg and x.count(".") == pkg.count(".") + 1):
            res.append((q, allm[q]))
            if allm[q]:
                res += below(q)
        return res
    order = [("pk", True)] + below("pk")
    for q, ispkg in order:
        rel = q.replace(".", "/") + ("/__init__.py" if ispkg else ".py")
        parent = q.rsplit(".", 1)[0] if "." in q else None
        b.addModuleString(files[rel], q.rsplit(".", 1)[-1], parent_name=parent, is_package=ispkg)
        m = s.allobjects.get(q)
        if m is not None and hasattr(m, "_py_string"):
            # addModuleString runs the text through textwrap.dedent, which empties whitespace-only lines (also inside
            # string literals); CPython gets the file as written, so pydoctor must parse exactly that text
            m._py_string = files[rel]
    b.buildModules()
    return s


def pd_dump(obj) -> Tuple[str, Dict[str, Dict[str, Any]]]:
    """canonical line of one namespace of the real pydoctor + the same as a dict for the oracle"""
    from pydoctor import model
    parts, info = [], {}
    for name, m in obj.contents.items():
        if isinstance(m, model.Module):
            continue
        if m.kind is model.DocumentableKind.INSTANCE_VARIABLE:
            continue
        cls = "Function" if isinstance(m, model.Function) else "Class" if isinstance(m, model.Class) else "Attribute"
        ann = getattr(m, "annotation", None)
        anns = ast.unparse(ann) if ann is not None else None
        isasync = bool(getattr(m, "is_async", False))
        kind = m.kind.name if m.kind is not None else "None"
        parts.append("|".join([enc(name), cls, kind, "-" if m.docstring is None else enc(m.docstring),
                               "1" if isasync else "0", "-" if anns is None else enc(anns)]))
        info[name] = {"cls": cls, "kind": kind, "doc": m.docstring, "async": isasync, "ann": anns}
    return "ok " + " ".join(parts), info


def contents_token(cc) -> str:
    return ",".join("%s=%s" % (enc(n), "A" if a else "N") for n, a in cc) or "-"


def visit_time_bases(cls) -> list:
    """the classes `Class.find` walks after `cls` itself while the class body is visited: `cls.mro()` before
    post-processing = pydoctor's own C3 (`pydoctor.mro.mro`) over the base objects resolved at that time, with the fallback
    `allbases` (depth first) when they cannot be linearised (since 7c3f474; the order itself is C05's layer)"""
    from pydoctor import mro as pdmro

    def allbases(c, out):
        for b in c._initialbaseobjects:
            if b is not None:
                out.append(b)
                allbases(b, out)
        return out
    try:
        return list(pdmro.mro(cls, lambda c: [b for b in c._initialbaseobjects if b is not None]))[1:]
    except (ValueError, RecursionError):
        return allbases(cls, [])


def bases_chain(cls) -> List[list]:
    """the bases of `cls` in that order, each as [(name, is Attribute)]"""
    from pydoctor import model
    return [[(n, isinstance(o, model.Attribute)) for n, o in b.contents.items()] for b in visit_time_bases(cls)]


def inherited_nonattr(cls) -> List[str]:
    """names for which Class.find, restricted to the bases, answers with a non-Attribute — what
    `_maybeAttribute` saw when the class body was visited (Python re-statement, used as a cross-check of the model's op)"""
    from pydoctor import model
    first: Dict[str, Any] = {}
    for b in visit_time_bases(cls):
        for n, o in b.contents.items():
            first.setdefault(n, o)
    return sorted(n for n, o in first.items() if not isinstance(o, model.Attribute))


PD2KC = {"FUNCTION": "function", "METHOD": "method", "CLASS_METHOD": "classmethod", "STATIC_METHOD": "staticmethod",
         "PROPERTY": "property", "CLASS": "class", "EXCEPTION": "exception"}


def py_line(names: Dict[str, Dict[str, Any]], skip: Set[str]) -> Tuple[str, Dict[str, Dict[str, Any]]]:
    parts, info = [], {}
    for name, d in names.items():
        if name in skip:
            continue
        kind = d["kind"]
        if kind == "variable":
            if d["type"] == "module":
                continue
            t = d["type"]
            if d.get("elem") is not None:
                t += "[" + ",".join(d["elem"]) + "]"
            elif "keys" in d:
                t += "[" + ",".join(d["keys"]) + "/" + ",".join(d["vals"]) + "]"
            parts.append("|".join([enc(name), "variable", "0", "-", t]))
        elif kind == "imported-or-alias":
            parts.append("|".join([enc(name), "foreign", "0", "-", "-"]))
        else:
            co = d["coroutine"] and kind != "property"
            parts.append("|".join([enc(name), kind, "1" if co else "0", "-" if d["doc"] is None else enc(d["doc"]), "-"]))
        info[name] = d
    return "ok " + " ".join(parts), info


def run_cpython(projects: List[Dict[str, Any]]) -> List[Dict[str, Any]]:
    p = subprocess.run([sys.executable, str(VERIF / "harness" / "impl" / "pyrun.py")], input=json.dumps(projects),
                       stdout=subprocess.PIPE, stderr=subprocess.PIPE, text=True, env=subprocess_env(), timeout=1800)
    if p.returncode != 0:
        raise Infra("CPython runner failed: " + p.stderr[-400:])
    return json.loads(p.stdout)


# --------------------------------------------------------------------------- direct oracle (pydoctor vs CPython)

def ann_parts(ann: str) -> Tuple[str, Optional[List[str]]]:
    if "[" not in ann:
        return ann, None
    head, rest = ann.split("[", 1)
    return head, [x.strip() for x in rest.rstrip("]").split(",")]


# generator labels that mark a genuine, recorded divergence from CPython (specific signatures)
FINDING_LABELS = [
    ("else-taken", "missing-member:else-except-finally-clause"),
    ("tail-def", "missing-member:try-else-finally-loop-else-clause"),
    ("alias", "missing-member:alias-assignment"),
    ("wrap-call", "kind:call-of-property-or-wrapper"),
    ("rebound", "kind:definition-then-assignment"),
    ("stacked-descriptors", "kind:stacked-descriptors"),
    ("qualified-spelling", "kind:qualified-decorator-spelling"),
]


REPAIRED_LABELS = {"tail-def", "qualified-spelling"}     # 99a6d9c, 68b2b27


def oracle_scope(ctx: Ctx, sc: Scope, pd: Dict[str, Dict[str, Any]], py: Dict[str, Dict[str, Any]], in_subset: bool,
                 files: Dict[str, str], inh: Set[str] = frozenset(), request: str = "") -> None:
    inp = {"scope": sc.qname, "files": files, "request": request}

    def excused(name: str) -> Optional[str]:
        """mismatch on a name the generator put outside the property's quantifier (see notes/C03.md, "Hunter round")"""
        for why in ("overload", "opaque-named-property", "module-level-descriptor", "untaken-guard", "untaken-body", "deleted"):
            if why in sc.labels.get(name, ()):
                return why
        return None

    def report(sig: str, name: str, what: str) -> None:
        base = name.split(".")[0]
        labels = sc.labels.get(base, ())
        if not sig.startswith(("invented-member:property-setter", "invented-member:bare-annotation")):
            for lab, fsig in FINDING_LABELS:
                if lab in labels and lab not in REPAIRED_LABELS:
                    ctx.fail(fsig, dict(inp, name=name), "%s: %s [%s]" % (sc.qname, what, lab))
                    return
            why = excused(base)
            if why:
                ctx.count("out-of-subset:" + why)
                return
            for lab, fsig in FINDING_LABELS:          # repaired shapes: a mismatch on them is a regression (signature now `fixed`)
                if lab in labels:
                    ctx.fail(fsig, dict(inp, name=name), "%s: %s [%s]" % (sc.qname, what, lab))
                    return
        ctx.fail(sig, dict(inp, name=name), "%s: %s" % (sc.qname, what))

    pyn = {n: d for n, d in py.items() if d["kind"] != "imported-or-alias" or "alias" in sc.labels.get(n, ())}
    for n in pd:
        if n not in pyn:
            if n in py:      # bound to a foreign object (lone @overload)
                report("invented-member:foreign-binding", n, "documents %r which Python binds to an object defined elsewhere" % n)
            elif "." in n and n.rsplit(".", 1)[1] in ("setter", "deleter"):
                report("invented-member:property-setter", n, "documents a member %r that Python never binds" % n)
            elif n in sc.bare:
                report("invented-member:bare-annotation", n, "documents %r for a bare annotation; Python binds nothing" % n)
            else:
                report("invented-member:other", n, "documents %r which Python does not bind" % n)
    for n, d in pyn.items():
        if n not in pd:
            if n in TARGETS:
                ctx.fail("missing-member:loop-or-with-target", dict(inp, name=n),
                         "%s: %r is bound by a `for` / `with … as` statement of the namespace and not documented" % (sc.qname, n))
            elif n in inh and d["kind"] == "variable":
                report("missing-member:shadows-inherited", n, "class attribute %r (assigned a literal) is not documented because a base class has a method/class of that name" % n)
            else:
                report("missing-member:other", n, "Python binds %r, pydoctor does not document it" % n)
            continue
        p = pd[n]
        pk = PD2KC.get(p["kind"], "variable") if p["cls"] != "Attribute" or p["kind"] == "PROPERTY" else "variable"
        if pk != d["kind"]:
            if d["kind"] == "exception" and pk == "class" and "qualified-base" in sc.labels.get(n, ()):
                report("kind:exception-qualified-builtin-base", n, "%r derives from builtins.<exception>: documented as a class, "
                       "Python says it is an exception class" % n)
            elif d["kind"] == "exception" and pk == "class":
                report("kind:exception-documented-as-class", n, "%r is documented as a class; Python says it is an exception class "
                       "(issubclass(cls, BaseException) through its bases)" % n)
            else:
                report("kind:%s-vs-%s" % (pk, d["kind"]), n, "%r documented as %s, Python binds a %s" % (n, pk, d["kind"]))
            continue
        if p["cls"] == "Function" and p["async"] != bool(d["coroutine"]):
            report("kind:coroutine-flag", n, "%r is_async=%s, Python coroutine=%s" % (n, p["async"], d["coroutine"]))
        if pk != "variable":
            if p["doc"] != d["doc"]:
                if "doc-assign-unclean" in sc.labels.get(n, ()):
                    report("docstring:doc-assignment-not-cleaned", n, "%r carries the string assigned to its __doc__ as written (%r); the interpreter's "
                           "cleaned docstring is %r" % (n, p["doc"], d["doc"]))
                elif "string-after-property" in sc.labels.get(n, ()):
                    report("docstring:string-after-property", n, "property %r carries the string statement that follows it, not the getter's docstring" % n)
                else:
                    report("docstring:differs", n, "%r docstring %r, interpreter %r" % (n, p["doc"], d["doc"]))
        else:
            if n in sc.explicit_ann or "rebound" in sc.labels.get(n, ()):
                continue
            if p["ann"] is None:
                if d["type"] != "NoneType" and p["kind"] != "PROPERTY":
                    report("infer:none-for-literal", n, "no type inferred for %r of type %s" % (n, d["type"]))
                continue
            head, args = ann_parts(p["ann"])
            ok = head == d["type"]
            if ok and args is not None:
                if head == "dict":
                    ok = [args[0]] == d.get("keys") and [args[1]] == d.get("vals")
                elif head == "tuple":
                    ok = [args[0]] == d.get("elem") and args[1:] == ["..."]
                else:
                    ok = [args[0]] == d.get("elem")
            if not ok:
                report("infer:wrong-type", n, "%r inferred %s, value is %s elem=%s" % (n, p["ann"], d["type"], d.get("elem")))
    if in_subset:
        ctx.count("oracle:scopes-in-theorem-subset")


# --------------------------------------------------------------------------- kernel streams

DECO_ALPHABET = ["c", "s", "p", "C", "S", "P", ("o", "deco"), ("o", "log_property"), ("o", "my_staticmethod"), "un", "ov"]


def kernel_decorators(ctx: Ctx) -> None:
    """every decorator list of length <= 3 over the alphabet, in a class and in a module:
    real `_handleFunctionDef` and real CPython vs `Builder.funcKind` / `PySem.funcKind`"""
    from pydoctor import model
    combos = [()]
    for n in (1, 2, 3):
        combos += list(itertools.product(DECO_ALPHABET, repeat=n))
    pre = "\n".join(HEADER).replace("from pk._h import", "from h import") + "\n"
    reqs, impls, pay = [], [], []
    cls_lines, mod_lines = ["class C:"], []
    for i, c in enumerate(combos):
        d = [ProjGen.deco_src(x) for x in c]
        cls_lines += ["    " + x for x in d] + ["    def g%d(self): pass" % i]
        mod_lines += d + ["def g%d(): pass" % i]
    src = pre + "\n".join(cls_lines) + "\n" + "\n".join(mod_lines) + "\n"
    s = model.System()
    b = s.systemBuilder(s)
    b.addModuleString(HELPER, "h")
    b.addModuleString(src, "m")
    b.buildModules()
    glob: Dict[str, Any] = {}
    import types
    hm = types.ModuleType("h")
    exec(HELPER, hm.__dict__)
    sys.modules["h"] = hm
    try:
        exec(compile(src, "m.py", "exec"), glob)
    finally:
        del sys.modules["h"]
    C = glob["C"]

    def pykind(raw, in_class: bool) -> str:
        if isinstance(raw, classmethod):
            return "classmethod"
        if isinstance(raw, staticmethod):
            return "staticmethod"
        if isinstance(raw, property):
            return "property"
        if getattr(raw, "__module__", None) == "typing":
            return "foreign"
        return "method" if in_class else "function"
    for i, c in enumerate(combos):
        for scope, owner, ns in (("C", s.allobjects["m.C"], vars(C)), ("M", s.allobjects["m"], glob)):
            o = owner.contents.get("g%d" % i)
            pk = "missing" if o is None else PD2KC.get(o.kind.name, "variable")
            reqs.append("builder kind %s %s" % (scope, ",".join(deco_tok(x) for x in c) or "-"))
            impls.append(pk + " " + pykind(ns["g%d" % i], scope == "C"))
            pay.append({"decorators": [ProjGen.deco_src(x) for x in c], "scope": scope})
            ctx.case("kind:" + reqs[-1], len(c) > 0, None)
    ctx.count("kernel:decorator-lists", len(combos) * 2)
    ctx.compare("kernel-decorators", reqs, impls, pay)


def kernel_find(ctx: Ctx) -> None:
    """`_maybeAttribute` / `Class.find` exhaustively on single-inheritance chains of 1-3 classes where each class has the
    name `x` as nothing / a variable / a method / a nested class (plus an unrelated member): the real function on the
    real classes vs `Builder.maybeAttributeIn`"""
    from pydoctor import model, astbuilder
    body = {"0": ["    other = 1"], "a": ["    x = 1"], "m": ["    def x(self): pass"], "c": ["    class x: pass"]}
    combos = [c for n in (1, 2, 3) for c in itertools.product("0amc", repeat=n)]
    lines: List[str] = []
    for i, combo in enumerate(combos):
        for j, k in enumerate(reversed(combo)):          # base first
            base = "(K%d_%d)" % (i, j - 1) if j else ""
            lines += ["class K%d_%d%s:" % (i, j, base)] + body[k]
    s = model.System()
    b = s.systemBuilder(s)
    b.addModuleString("\n".join(lines) + "\n", "m")
    b.buildModules()
    reqs, impls, pay = [], [], []
    for i, combo in enumerate(combos):
        cls = s.allobjects["m.K%d_%d" % (i, len(combo) - 1)]
        chain = [[(n, isinstance(o, model.Attribute)) for n, o in c.contents.items()] for c in cls.mro()]
        for name in ("x", "other", "nope"):
            reqs.append("builder find %s %s" % (enc(name), " ".join(contents_token(cc) for cc in chain)))
            impls.append("True" if astbuilder._maybeAttribute(cls, name) else "False")
            pay.append({"chain": "".join(combo), "name": name})
            ctx.case("find:" + reqs[-1], name == "x" and len(combo) > 1, None)
    ctx.count("kernel:find-chains", len(reqs))
    ctx.compare("kernel-find", reqs, impls, pay)


def kernel_infer(ctx: Ctx) -> None:
    """`astutils.infer_type` on generated literals vs `Builder.inferType`; `type(value).__name__` vs `PySem.typeName`"""
    from pydoctor import astutils
    g = LitGen(ctx.rng)
    n = 600 if ctx.quick else 6000
    fixed = ["[[]]", "[()]", "[[1]]", "{'a': []}", "{1: 'a', 's': 'a'}", "[None]", "(None,)", "{}", "set()", "[1, True]",
             "{'a': 1, 'b': 's'}", "((),)", "[{}]", "{1: None}", "[1, 2.0]", "-1", "1j", "b''", "None", "(1,)"]
    reqs, impls, pay = [], [], []
    for i in range(n + len(fixed)):
        src = fixed[i] if i < len(fixed) else g.literal()
        v = ast.literal_eval(src)
        ann = astutils.infer_type(ast.parse(src, mode="eval").body)
        t = type(v).__name__
        if isinstance(v, (list, tuple, set)):
            t += "[" + ",".join(sorted({type(x).__name__ for x in v})) + "]"
        elif isinstance(v, dict):
            t += "[" + ",".join(sorted({type(x).__name__ for x in v})) + "/" + ",".join(sorted({type(x).__name__ for x in v.values()})) + "]"
        reqs.append("builder infer " + lit_tok(lit_ir(v)))
        impls.append(("-" if ann is None else ast.unparse(ann)) + " " + t)
        pay.append({"literal": src})
        ctx.case("infer:" + reqs[-1], isinstance(v, (list, tuple, set, dict)), None)
        # direct oracle on the kernel
        if ann is not None and ast.unparse(ann).split("[")[0] != type(v).__name__:
            ctx.fail("infer:wrong-type", {"literal": src}, "infer_type(%s) = %s" % (src, ast.unparse(ann)))
    ctx.count("kernel:literals", len(reqs))
    ctx.compare("kernel-infer", reqs, impls, pay)


# --------------------------------------------------------------------------- run

def check_tables(ctx: Ctx) -> None:
    """`_STD_LIB_EXCEPTIONS` against `builtins` (DESIGN 7-C03): every table name must be an exception class
    of the interpreter; names of the interpreter missing from the table are exercised by the generator."""
    import builtins
    from pydoctor import model
    tbl = set(model._STD_LIB_EXCEPTIONS)
    py = set(all_builtin_exceptions())
    extra = sorted(n for n in tbl if n not in py)
    ctx.extra["exception_table"] = {"pydoctor": len(tbl), "builtins": len(py), "missing_from_table": sorted(py - tbl),
                                    "not_exceptions_in_table": extra}
    missing = sorted(py - tbl)
    if missing:
        # deterministic direct oracle for the names the generator might not draw: a direct subclass of each
        src = "".join("class G%d(%s):\n    pass\n" % (i, n) for i, n in enumerate(missing))
        s = model.System()
        b = s.systemBuilder(s)
        b.addModuleString(src, "m")
        b.buildModules()
        glob: Dict[str, Any] = {}
        exec(src, glob)
        for i, n in enumerate(missing):
            o = s.allobjects["m.G%d" % i]
            if o.kind is not model.DocumentableKind.EXCEPTION and issubclass(glob["G%d" % i], BaseException):
                ctx.fail("kind:exception-not-in-table", {"files": {"m.py": "class G(%s):\n    pass\n" % n}},
                         "class G(%s) is documented as %s; Python says it is an exception class" % (n, o.kind.name))
    if extra:
        ctx.fail("kind:table-name-not-an-exception", {"names": extra}, "names of _STD_LIB_EXCEPTIONS that are not exception classes: %s" % extra)


SHADOW_PROBE = """def make():
    return [1]
class A:
    def f(self):
        pass
    class N:
        pass
class L(A):
    f = 1
    N = None
class X(A):
    f = make()
    N = make()
    g = make()
"""


def probe_shadowing(ctx: Ctx) -> None:
    """a class attribute that shadows an inherited method / nested class: assigned a literal (documented since 91105ce)
    and assigned the result of a call (outside the generator's `name = literal` subset, judged here directly)"""
    from pydoctor import model
    s = model.System()
    b = s.systemBuilder(s)
    b.addModuleString(SHADOW_PROBE, "m")
    b.buildModules()
    glob: Dict[str, Any] = {"__name__": "m"}
    exec(SHADOW_PROBE, glob)
    for cls, sig, what in (("L", "missing-member:shadows-inherited", "a literal"),
                           ("X", "missing-member:shadows-inherited:non-literal", "the result of a call")):
        bound = [k for k in vars(glob[cls]) if not (k.startswith("__") and k.endswith("__"))]
        documented = list(s.allobjects["m." + cls].contents)
        ctx.case("probe-shadowing:" + cls, True, None)
        for n in bound:
            if n not in documented:
                ctx.fail(sig, {"files": {"m.py": SHADOW_PROBE}, "scope": "m." + cls, "name": n},
                         "m.%s: class attribute %r assigned %s is bound by Python and not documented (a base class has a "
                         "method/class of that name)" % (cls, n, what))
        for n in documented:
            if n not in bound:
                ctx.fail("invented-member:other", {"files": {"m.py": SHADOW_PROBE}, "scope": "m." + cls, "name": n},
                         "m.%s documents %r which Python does not bind" % (cls, n))


UNPACK_PROBE = """p, q = 1, 2
[e, f] = [1, 2]
a, *b = 1, 2, 3
(c, (d, g)) = 1, (2, 3)
class C:
    r, s = 1, 2
    [u, v] = [1, 2]
    w, *z = 1, 2
"""


def probe_unpacking(ctx: Ctx) -> None:
    """unpacking assignments (outside the IR: `visit_Assign` treats the elements of a tuple target as assignments without
    value): every name Python binds must be documented — tuple, list, starred and nested targets, module and class level"""
    from pydoctor import model
    s = model.System()
    b = s.systemBuilder(s)
    b.addModuleString(UNPACK_PROBE, "m")
    b.buildModules()
    glob: Dict[str, Any] = {"__name__": "m"}
    exec(UNPACK_PROBE, glob)
    for scope, ns in (("m", glob), ("m.C", vars(glob["C"]))):
        bound = [k for k in ns if not (k.startswith("__") and k.endswith("__"))]
        documented = list(s.allobjects[scope].contents)
        ctx.case("probe-unpacking:" + scope, True, None)
        for n in bound:
            if n not in documented:
                ctx.fail("missing-member:unpacking-target", {"files": {"m.py": UNPACK_PROBE}, "scope": scope, "name": n},
                         "%s: %r is bound by an unpacking assignment (list / starred / nested target) and not documented" % (scope, n))
        for n in documented:
            if n not in bound:
                ctx.fail("invented-member:other", {"files": {"m.py": UNPACK_PROBE}, "scope": scope, "name": n},
                         "%s documents %r which Python does not bind" % (scope, n))


# --------------------------------------------------------------------------- clauses and unpacking, judged directly (round 6)

def _gen_binding(rng, name: str, ind: str) -> str:
    """one statement that binds `name`: a function (plain / coroutine), a class (plain / exception) or a literal"""
    k = rng.choice(["def", "adef", "class", "exc", "int", "str", "list", "none"])
    tag = "%s-%d" % (k, rng.randint(0, 99))
    if k in ("def", "adef"):
        return "%s%sdef %s():\n%s    \"%s\"\n" % (ind, "async " if k == "adef" else "", name, ind, tag)
    if k in ("class", "exc"):
        return "%sclass %s%s:\n%s    \"%s\"\n" % (ind, name, "(KeyError)" if k == "exc" else "", ind, tag)
    return "%s%s = %s\n" % (ind, name, {"int": "7", "str": "'s'", "list": "[1, 2]", "none": "None"}[k])


def gen_clause_module(rng) -> str:
    """statements whose clauses ALL run (try/else/finally, for/else, while/else, with, if True) and bind the same few names
    in several clauses, at module level and in a class body"""
    def block(ind: str, names: List[str]) -> str:
        form = rng.choice(["try", "try", "try", "for", "while", "with", "if"])

        def some(n=2):
            return "".join(_gen_binding(rng, rng.choice(names), ind + "    ") for _ in range(rng.randint(1, n)))
        if form == "try":
            out = ind + "try:\n" + some()
            has_exc = rng.random() < 0.7
            if has_exc:
                out += ind + "except ZeroDivisionError:\n" + ind + "    pass\n"
            if has_exc and rng.random() < 0.7:
                out += ind + "else:\n" + some()
            if (not has_exc) or rng.random() < 0.8:
                out += ind + "finally:\n" + some()
            return out
        if form == "for":
            return ind + "for _i in [0]:\n" + some() + (ind + "else:\n" + some() if rng.random() < 0.7 else "")
        if form == "while":
            return ind + "_once = True\n" + ind + "while _once:\n" + ind + "    _once = False\n" + some() + (ind + "else:\n" + some() if rng.random() < 0.7 else "")
        if form == "with":
            return ind + "with ctx():\n" + some()
        return ind + "if True:\n" + some()
    src = "import contextlib\n@contextlib.contextmanager\ndef ctx():\n    yield\n_once = True\n"
    names = ["x", "y", "z"]
    for _ in range(rng.randint(1, 3)):
        src += block("", names) if rng.random() < 0.8 else _gen_binding(rng, rng.choice(names), "")
    src += "class C:\n    _once = True\n"
    for _ in range(rng.randint(1, 2)):
        src += block("    ", ["p", "q"]) if rng.random() < 0.8 else _gen_binding(rng, rng.choice(["p", "q"]), "    ")
    return src


CLAUSE_FIXED = [
    # seeded C03-r6-2: else and finally of one try bind the same name
    "try:\n    pass\nexcept ZeroDivisionError:\n    pass\nelse:\n    def x():\n        \"else\"\nfinally:\n    async def x():\n        \"finally\"\n"
    "class C:\n    try:\n        pass\n    except ZeroDivisionError:\n        pass\n    else:\n        p = 's'\n        class q:\n            \"else\"\n"
    "    finally:\n        p = 1\n        class q(KeyError):\n            \"finally\"\n",
    "for _i in [0]:\n    x = 1\nelse:\n    x = 's'\ntry:\n    y = 1\nfinally:\n    y = [1]\nclass C:\n    p = 1\n",
]


def _unpack_pattern(rng, depth: int = 0):
    """(target source, value source) of one unpacking assignment whose right-hand side is a display of literals of the
    same shape; a starred target takes 0-2 elements of the display"""
    lits = ["1", "'x'", "2.5", "None", "b'y'", "[3]", "(4, 5)", "{'k': 1}", "True"]
    n = rng.randint(2, 4)
    star = rng.randrange(n) if rng.random() < 0.5 else -1
    tg, vs = [], []
    for i in range(n):
        nm = "u%d_%d_%d" % (depth, rng.randint(0, 999), i)
        if i == star:
            tg.append("*" + nm)
            for _ in range(rng.choice([0, 1, 1, 2])):
                vs.append(rng.choice(lits))
        elif depth == 0 and rng.random() < 0.2:
            t2, v2 = _unpack_pattern(rng, 1)
            tg.append("(" + t2 + ")")
            vs.append(v2)
        else:
            tg.append(nm)
            vs.append(rng.choice(lits))
    if rng.random() < 0.5:
        return "[" + ", ".join(tg) + "]", "[" + ", ".join(vs) + "]"
    return ", ".join(tg), "(" + ", ".join(vs) + ("," if len(vs) == 1 else "") + ")"


UNPACK_FIXED = [
    # seeded C03-r6-1: a starred target and a display with as many elements as there are target names
    "first, *others = 1, 'x'\n*initial, last = 'a', 2\nclass C:\n    [head, *tail] = [1, 2]\n    a, (b, *c) = 1, ('s', 2)\n",
]


def probe_clauses_and_unpacking(ctx: Ctx) -> None:
    """Two families outside the project IR, each module built by the real pydoctor and executed by CPython:
    (1) statements ALL of whose clauses run (try/else/finally, loops with else, with, if True) binding the same name in
    several clauses - the documented object must be the one Python ends up with (class of object, coroutine flag,
    exception class, docstring, inferred literal type);  (2) unpacking assignments from displays of literals, with
    starred and nested targets - every bound name is documented and a type, when one is inferred, is the actual one.
    Not judged here (recorded findings of other streams): a definition followed by an assignment of the same name
    (kind:definition-then-assignment) - such pairs are skipped."""
    from pydoctor import model

    def build(src: str):
        s = model.System()
        b = s.systemBuilder(s)
        b.addModuleString(src, "m")
        b.buildModules()
        glob: Dict[str, Any] = {"__name__": "m"}
        exec(compile(src, "m.py", "exec"), glob)
        return s, glob

    def judge(src: str, family: str) -> None:
        try:
            s, glob = build(src)
        except Exception as e:
            ctx.fail("probe-%s:crash:%s" % (family, type(e).__name__), {"files": {"m.py": src}}, "building or executing the probe module raised %r" % (e,))
            return
        for scope, ns in (("m", glob), ("m.C", vars(glob["C"]) if "C" in glob else {})):
            if scope not in s.allobjects:
                continue
            cont = s.allobjects[scope].contents
            for n, v in list(ns.items()):
                if n.startswith("_") or n in ("ctx", "contextlib", "C"):
                    continue
                o = cont.get(n)
                inp = {"files": {"m.py": src}, "scope": scope, "name": n}
                if o is None:
                    ctx.fail("missing-member:%s" % family, inp, "%s: %r is bound by Python and not documented" % (scope, n))
                    continue
                want = "Function" if inspect.isfunction(v) else "Class" if inspect.isclass(v) else "Attribute"
                got = "Function" if isinstance(o, model.Function) else "Class" if isinstance(o, model.Class) else "Attribute"
                if want == "Attribute" and got != "Attribute":
                    continue    # def/class, then an assignment: the recorded finding kind:definition-then-assignment
                if want != got:
                    ctx.fail("%s:wrong-object:%s-for-%s" % (family, got, want), inp,
                             "%s.%s: Python binds a %s last, pydoctor documents a %s" % (scope, n, want, got))
                    continue
                if want == "Function":
                    if bool(o.is_async) != inspect.iscoroutinefunction(v):
                        ctx.fail("%s:wrong-definition:coroutine-flag" % family, inp, "%s.%s: is_async=%s, the function Python binds last: coroutine=%s"
                                 % (scope, n, o.is_async, inspect.iscoroutinefunction(v)))
                if want == "Class":
                    isexc = o.kind is model.DocumentableKind.EXCEPTION
                    if isexc != issubclass(v, BaseException):
                        ctx.fail("%s:wrong-definition:exception-kind" % family, inp, "%s.%s: documented kind %s, Python's class is %san exception"
                                 % (scope, n, o.kind.name if o.kind else None, "" if issubclass(v, BaseException) else "not "))
                if want in ("Function", "Class"):
                    d = inspect.cleandoc(v.__doc__) if v.__doc__ else None
                    if (o.docstring or None) != d:
                        ctx.fail("%s:wrong-definition:docstring" % family, inp, "%s.%s: docstring %r, the object Python binds last has %r"
                                 % (scope, n, o.docstring, d))
                if want == "Attribute" and getattr(o, "annotation", None) is not None:
                    a = ast.unparse(o.annotation).split("[")[0]
                    if a != type(v).__name__ and not (a == "None" and v is None):
                        ctx.fail("infer:wrong-type:%s" % family, inp, "%s.%s: inferred %s, the value is a %s (%r)"
                                 % (scope, n, ast.unparse(o.annotation), type(v).__name__, v))
    n = 120 if ctx.quick else 2500
    for i in range(len(CLAUSE_FIXED) + n):
        src = CLAUSE_FIXED[i] if i < len(CLAUSE_FIXED) else gen_clause_module(ctx.rng)
        ctx.case("probe-clauses:%d:%d" % (i, len(src)), True, None)
        judge(src, "clauses")
    ctx.count("probe:clause-modules", len(CLAUSE_FIXED) + n)
    for i in range(len(UNPACK_FIXED) + n):
        if i < len(UNPACK_FIXED):
            src = UNPACK_FIXED[i]
        else:
            lines, cl = [], []
            for _ in range(ctx.rng.randint(1, 3)):
                t, v = _unpack_pattern(ctx.rng)
                lines.append("%s = %s\n" % (t, v))
            for _ in range(ctx.rng.randint(1, 2)):
                t, v = _unpack_pattern(ctx.rng)
                cl.append("    %s = %s\n" % (t, v))
            src = "".join(lines) + "class C:\n" + "".join(cl)
        ctx.case("probe-unpack-types:%d:%d" % (i, len(src)), True, None)
        judge(src, "unpacking")
    ctx.count("probe:unpacking-modules", len(UNPACK_FIXED) + n)


# --------------------------------------------------------------------------- deterministic corpus (runs first, every run)

def assemble(mod_specs: List[Tuple[str, bool, List[str], list]]):
    """a hand-written package as (generator-like object, files, module names); mod_specs = (qname, is_package, import lines, IR)"""
    import random
    g = ProjGen(random.Random(0), odd=0.0)
    files: Dict[str, str] = {"pk/_h.py": HELPER}
    g.modules = []

    def walk(stmts: list, qname: str, in_block: bool) -> None:
        for st in stmts:
            if st[0] == "class":
                g.env[st[6]] = [b[:2] for b in st[2]]
                cq = qname + "." + st[1]
                g.scopes[:] = [x for x in g.scopes if x.qname != cq and not x.qname.startswith(cq + ".")]   # superseded definition
                csc = Scope(cq, True, in_block, st[5], st[6])
                walk(st[5], cq, in_block)
                g.scopes.append(csc)
            elif st[0] == "blk":
                walk(st[2], qname, True)
            elif st[0] == "cmp" and guard_taken(st[1]):
                walk(st[2], qname, True)
    for q, ispkg, imports, stmts in mod_specs:
        sc = Scope(q, False, False, stmts)
        sc.imported = {x.split(" import ")[1] for x in imports if x.startswith("from ")}
        walk(stmts, q, False)
        g.scopes.append(sc)
        rel = q.replace(".", "/") + ("/__init__.py" if ispkg else ".py")
        files[rel] = "\n".join(HEADER + imports + g.emit(stmts, 0)) + "\n"
        g.modules.append((q, ispkg))
    for sc in g.scopes:
        for st in flat(sc.stmts):
            if st[0] == "ann":
                sc.bare.add(st[1])
            if st[0] in ("asg", "ann") and len(st) > 4 and st[4]:
                sc.explicit_ann.add(st[1])
            if st[0] == "ann":
                sc.explicit_ann.add(st[1])
            if st[0] == "doc" and inspect.cleandoc(st[2]) != st[2]:
                sc.label(st[1], "doc-assign-unclean")
            if st[0] == "del":
                sc.label(st[1], "deleted")
            if st[0] == "class" and any(b[0] == "e" and b[1].startswith("builtins.") for b in st[2]):
                sc.label(st[1], "qualified-base")
            if st[0] == "blk" and st[1] in ("t", "f"):
                for nm in bound_names(st[3]):
                    sc.label(nm, "tail-def")
            if st[0] == "blk" and st[1] == "e":
                for nm in bound_names(st[3]):
                    sc.label(nm, "else-taken")
                for nm in bound_names(st[2]):
                    sc.label(nm, "untaken-body")
            if st[0] == "alias":
                sc.label(st[1], "alias")
            if st[0] == "wrap":
                sc.label(st[1], "wrap-call")
        defs: Set[str] = set()

        def mark(stmts: list) -> None:
            for st in stmts:
                if st[0] in ("def", "class"):
                    defs.add(st[1])
                elif st[0] == "asg" and st[1] in defs:
                    sc.label(st[1], "rebound")          # a definition, then an assignment: pydoctor keeps the definition
                elif st[0] == "blk":
                    mark(st[2])
                elif st[0] == "cmp":
                    if guard_taken(st[1]):
                        mark(st[2])
                    else:
                        for nm in bound_names(st[2]):
                            sc.label(nm, "untaken-guard")
        mark(sc.stmts)
    return g, files, [q for q, _ in g.modules]


def corpus_packages():
    """the inputs of every recorded C03 finding (open and fixed) and the shape each seeded change needs (seeded/C03*/meta.json)"""
    def D(name, decos=(), doc=None, is_async=False):
        return ("def", name, is_async, list(decos), doc, "")

    def A(name, src, ann=None):
        return ("asg", name, src, lit_ir(ast.literal_eval(src)), ann)

    def C(name, cid, bases=(), body=(), doc=None):
        return ("class", name, list(bases), [], doc, list(body) or [("oth",)], cid)
    E = lambda n: ("e", n)
    init = [
        ("ann", "W0", "int"),                                                   # finding: bare annotation (module)
        C("K1", 1, (), [
            A("v1", "1"),                                                       # seeded r2-2: assignment without its own docstring,
            D("p1", ["p"], "getter doc"),                                       #   then a property,
            ("str", "not the docstring of p1"),                                 #   then a bare string (fixed: fcaa577)
            D("p1", [("set", "p1")], "setter doc"),                             # finding: x.setter / x.deleter members
            D("p1", [("del", "p1")]),
            ("ann", "W1", "int"),                                               # finding: bare annotation (class)
        ]),
        C("K4", 4, [E("ExceptionGroup")]), C("K5", 5, [E("EncodingWarning")]),  # fixed: 769cae3
        C("K6", 6, [E("BaseExceptionGroup")]),
        C("K7", 7, (), [D("f7"), C("N7", 70)]),
        C("K8", 8, [("u", 7, "K7")], [A("f7", "1"), A("N7", "None")]),          # fixed: 91105ce (literal shadows inherited)
        ("cmp", ("d", "ne", "m", 0), [D("f3", (), "in a taken guard"), C("K3", 3, [E("ValueError")])]),   # seeded C03-2
        ("cmp", ("m", "ne", "d", 0), [A("v3", "[1, 2]")]),
        ("cmp", ("d", "isnot", "n", 0), [D("f4")]),
        ("cmp", ("d", "eq", "m", 1), [A("v4", "'s'")]),
        ("main", [D("hidden")]),
        D("f5", (), "\n    Heading\n        item one\n        item two\n    "),  # seeded r2-3: deeper lines after the first
        D("f6"),
        ("doc", "f6", "\n    Title\n\n      indented\n    "),                   # finding: doc assignment not cleaned
        D("f8"), ("doc", "f8", "assigned, already clean"),
        # seeded r3-2: one-line docstrings with trailing blanks / tabs (cleandoc strips the LEFT side only and expands tabs)
        D("f9", (), "Summary. "), D("f10", (), "key:\tvalue"), D("f11", (), "  both sides \t"),
        C("K30", 30, (), [D("m30", (), "Method summary.  "), D("p30", ["p"], "prop:\tdoc "), D("c30", ["c"], "\tclassmethod doc\t"),
                          D("s30", ["s"], "static  ", True),
                          D("w30", ["c"]), ("old", "w30", "s"), ("old", "w30", "c"),          # re-wrapping (04d150a)
                          A("x30", "1"), ("oth",), ("str", "doc for x30, another statement in between"),
                          ], "Class summary. \t"),
        C("K31", 31, [E("builtins.ValueError")]),                               # finding: qualified builtin exception base
        D("f12", (), "a function"), A("f12", "3"),                              # outside: a definition, then an assignment
        ("cmp", ("m", "eq", "d", 0), [D("rev_main")]),                          # outside: `'__main__' == __name__` (untaken, entered)
        ("blk", "t", [("oth",)], [D("in_finally")]),                            # outside: definitions in else/finally
        ("blk", "f", [A("in_for", "1")], [D("in_for_else")]),
        # hunt/C03/1: the else branch / the except handler is what runs
        ("blk", "e", [("oth",)], [D("only_py3", (), "doc"), A("PY3", "True")], "if"),
        ("blk", "e", [], [A("accelerator", "None")], "try"),
        # hunt/C03/2: a variable assigned a name; hunt/C03/4: property()/staticmethod() calls
        A("LIMIT", "10"), ("alias", "DEFAULT_LIMIT", "LIMIT"), D("helper", (), "doc"), ("alias", "run", "helper"),
        C("K40", 40, (), [D("_get", (), "The value."), ("wrap", "value", "p", "_get"), ("wrap", "make", "s", "_get"),
                          A("size", "1"), ("alias", "length", "size"), ("alias", "call", "_get")]),
    ]
    ma = [
        C("K2", 20, (), [
            ("blk", "t", [D("f2", ["c"], "first definition, a classmethod with a docstring")], []),   # seeded C03-1
            D("f2"),                                                                                  # later: plain, no docstring
            ("blk", "i", [D("g2", ["s"], "first")], []),
            D("g2", (), None, True),
        ]),
        C("K11", 11, [E("Exception")]),                                         # seeded r2-1: base defined again after being subclassed
        C("K12", 12, [("u", 11, "K11")]),
        C("K11", 13, [E("KeyError")]),
        A("tmp", "1"), ("del", "tmp"),
    ]
    zz = [C("K10", 10, [E("OSError")]), C("M10", 14, ())]
    ab = [                                                                      # seeded r2-1: plain import, importer sorts first
        C("K9", 9, [("u", 10, "pk.zz.K10")]),
        C("P9", 15, (), [C("N9", 16, [("u", 10, "pk.zz.K10"), ("u", 14, "pk.zz.M10")])]),
        C("K13", 17, [("u", 9, "K9")]),
    ]
    mq = [C("K14", 18, [("u", 17, "al1.K13")])]
    return [assemble([("pk", True, [], init), ("pk.ma", False, [], ma), ("pk.zz", False, [], zz),
                      ("pk.ab", False, ["import pk.zz"], ab), ("pk.mq", False, ["import pk.ab as al1"], mq)])]


def run_corpus(ctx: Ctx) -> None:
    batch = corpus_packages()
    pyres = run_cpython([{"files": f, "modules": ["pk._h"] + m, "details": True} for _, f, m in batch])
    for (_, files, _), py in zip(batch, pyres):
        if py["error"]:
            raise Infra("corpus package is not importable: " + py["error"])
    before = ctx.evaluations
    run_batch(ctx, batch, pyres)
    ctx.count("corpus:namespaces", ctx.evaluations - before)


REVIEW_PROBE = """class A:
    @property
    def p(self):
        "A.p"
    @property
    def g(self):
        "g"
    @g.getter
    def g(self):
        "g again"
class B(A):
    @A.p.setter
    def p(self, v):
        pass
retyped = 1
retyped, other = 'a', 'b'
async def agen():
    yield 1
async def coro():
    pass
class D:
    __doc__ = "docstring given in the body"
class I:
    x = 1
    def set(self):
        self.x = 'a'
if (walrus := 3):
    pass
"""


def probe_review(ctx: Ctx) -> None:
    """fixed module for constructs outside the IR, judged directly against CPython: the property protocol through a base
    class (`@A.p.setter`) and `@g.getter`, a variable re-bound by an unpacking assignment after a literal, async generators"""
    import types
    from pydoctor import model
    s = model.System()
    b = s.systemBuilder(s)
    b.addModuleString(REVIEW_PROBE, "m")
    b.buildModules()
    glob: Dict[str, Any] = {"__name__": "m"}
    exec(REVIEW_PROBE, glob)
    inp = {"files": {"m.py": REVIEW_PROBE}}
    ctx.case("probe-review", True, None)
    Bc, Ac = s.allobjects["m.B"], s.allobjects["m.A"]
    if isinstance(vars(glob["B"]).get("p"), property) and "p" not in Bc.contents:
        ctx.fail("missing-member:property-setter-of-inherited", dict(inp, scope="m.B", name="p"),
                 "m.B: `@A.p.setter def p` binds a property B.p; pydoctor documents a method 'p.setter' and no 'p' (%s)" % list(Bc.contents))
    g = Ac.contents.get("g")
    if isinstance(vars(glob["A"]).get("g"), property) and (g is None or g.kind is not model.DocumentableKind.PROPERTY):
        ctx.fail("kind:method-vs-property:getter", dict(inp, scope="m.A", name="g"),
                 "m.A: `@g.getter def g` binds a property; pydoctor documents %s" % (g.kind.name if g is not None else None))
    rt = s.allobjects["m.retyped"]
    ann = ast.unparse(rt.annotation) if rt.annotation is not None else None
    if ann is not None and ann != type(glob["retyped"]).__name__:
        ctx.fail("infer:stale-type-after-unpacking", dict(inp, scope="m", name="retyped"),
                 "m.retyped: inferred %s from the first assignment, the value after `retyped, other = 'a', 'b'` is a %s"
                 % (ann, type(glob["retyped"]).__name__))
    if s.allobjects["m.D"].docstring != inspect.cleandoc(glob["D"].__doc__):
        ctx.fail("docstring:class-doc-assigned-in-body", dict(inp, scope="m", name="D"),
                 "m.D: `__doc__ = \"…\"` in the class body: docstring %r, interpreter %r" % (s.allobjects["m.D"].docstring, glob["D"].__doc__))
    ix = s.allobjects["m.I"].contents.get("x")
    ixann = ast.unparse(ix.annotation) if ix is not None and ix.annotation is not None else None
    if ixann is not None and ixann != type(vars(glob["I"])["x"]).__name__:
        ctx.fail("infer:instance-assignment-overrides-class-variable", dict(inp, scope="m.I", name="x"),
                 "m.I.x: the class binds x = 1 (int); `self.x = 'a'` in a method makes pydoctor document %s %s" % (ix.kind.name, ixann))
    if "walrus" in glob and "walrus" not in s.allobjects["m"].contents:
        ctx.fail("missing-member:loop-or-with-target", dict(inp, scope="m", name="walrus"),
                 "m: `walrus` is bound by an assignment expression at module level and not documented")
    for fn in ("agen", "coro"):
        o = s.allobjects["m." + fn]
        if bool(o.is_async) != inspect.iscoroutinefunction(glob[fn]):
            ctx.fail("kind:coroutine-flag:async-generator", dict(inp, scope="m", name=fn),
                     "m.%s: is_async=%s, inspect.iscoroutinefunction=%s (isasyncgenfunction=%s)"
                     % (fn, o.is_async, inspect.iscoroutinefunction(glob[fn]), inspect.isasyncgenfunction(glob[fn])))


def run(ctx: Ctx) -> None:
    check_tables(ctx)
    probe_review(ctx)
    run_corpus(ctx)
    probe_shadowing(ctx)
    probe_unpacking(ctx)
    probe_clauses_and_unpacking(ctx)
    kernel_decorators(ctx)
    kernel_find(ctx)
    kernel_infer(ctx)
    nproj = 330 if ctx.quick else 10000
    per = 110 if ctx.quick else 125
    chunks = [(ctx.tier, ctx.seed, i, min(per, nproj - i * per), ctx.model_ok) for i in range((nproj + per - 1) // per)]
    import multiprocessing as mp
    with mp.get_context("fork").Pool(min(16, len(chunks))) as pool:
        for st in pool.imap(_worker, chunks):
            if "infra" in st:
                raise Infra(st["infra"])
            merge(ctx, st)


def _worker(args) -> Dict[str, Any]:
    """one chunk of packages in its own process (own PRNG stream derived from the seed and the chunk index)"""
    import contextlib, io, random
    tier, seed, idx, n, model_ok = args
    sub = Ctx("C03", tier, seed)
    sub.rng = random.Random("C03:%d:%d" % (seed, idx))
    sub.model_ok = model_ok
    try:
        with contextlib.redirect_stdout(io.StringIO()):
            batch = []
            for _ in range(n):
                g = ProjGen(sub.rng, odd=sub.rng.choice([0.0, 0.35, 0.35, 1.0]))
                files, mods = g.project()
                batch.append((g, files, mods))
            pyres = run_cpython([{"files": f, "modules": ["pk._h"] + m, "details": True} for _, f, m in batch])
            run_batch(sub, batch, pyres)
    except Infra as e:
        return {"infra": str(e)}
    return {"dist": sub.dist, "failures": sub.failures, "disagreements": sub.disagreements, "evaluations": sub.evaluations,
            "nontrivial": sub.nontrivial, "samples": sub.samples, "traces": sub.traces_validated,
            "lines": sub.driver.lines_run, "extra": sub.extra}


def merge(ctx: Ctx, st: Dict[str, Any]) -> None:
    for k, v in st["dist"].items():
        ctx.dist[k] = ctx.dist.get(k, 0) + v
    for f in st["failures"]:
        for g in ctx.failures:
            if g["signature"] == f["signature"]:
                g["count"] += f["count"]
                break
        else:
            ctx.failures.append(f)
    ctx.disagreements += st["disagreements"][:max(0, 50 - len(ctx.disagreements))]
    ctx.evaluations += st["evaluations"]
    ctx.nontrivial |= st["nontrivial"]
    ctx.samples += st["samples"][:max(0, 6 - len(ctx.samples))]
    ctx.traces_validated += st["traces"]
    ctx.driver.lines_run += st["lines"]
    ex = ctx.extra.setdefault("not_importable_examples", [])
    ex += st["extra"].get("not_importable_examples", [])[:max(0, 3 - len(ex))]


def run_batch(ctx: Ctx, batch, pyres) -> None:
    reqs_pd, impl_pd, reqs_py, impl_py, pay, sub_reqs, meta = [], [], [], [], [], [], []
    find_reqs, find_impl, find_pay = [], [], []
    for (g, files, mods), py in zip(batch, pyres):
        if py["error"]:
            ctx.count("generator:not-importable:" + py["error"].split(" ")[0])
            ex = ctx.extra.setdefault("not_importable_examples", [])
            if len(ex) < 3:
                ex.append(py["error"][:200])
            continue
        ctx.count("projects")
        for f in g.import_forms:
            ctx.count("import:" + f)
        ctx.count("construct:base-redefined-after-subclass", g.redefined)
        find_log: list = []
        try:
            system = build_pydoctor(files, g.modules, find_log)
        except AssertionError as e:
            # `assert target_obj.kind is DocumentableKind.METHOD` in _handleOldSchoolMethodDecoration: the model has this
            # outcome; the crash is excused (and counted) only when the model predicts it for a namespace of the package
            rq = ["builder pd %s%d - %s %s" % ("C" if sc.in_class else "M", 1 if sc.in_block else 0, env_token(g.env),
                                               " ".join(stmt_tokens(sc.stmts))) for sc in g.scopes]
            if ctx.model_ok and "AssertionError" in ctx.driver.run(rq):
                ctx.count("out-of-subset:oldstyle-assert-crash(model agrees)")
                continue
            ctx.fail("analysis-crash:AssertionError", {"files": files}, "AssertionError: %s" % e)
            continue
        except Exception as e:
            ctx.fail("analysis-crash:" + type(e).__name__, {"files": files}, "%s: %s" % (type(e).__name__, e))
            continue
        for q, _ in g.modules:
            mo = system.allobjects.get(q)
            if mo is not None and q in py.get("module_docs", {}):
                ctx.count("module-docstrings")
                if mo.docstring != py["module_docs"][q]:
                    ctx.fail("docstring:module-differs", {"files": files, "scope": q},
                             "module %s: docstring %r, interpreter %r" % (q, mo.docstring, py["module_docs"][q]))
        envt = env_token(g.env)
        seen_cls: Set[int] = set()
        for _n, _c, _r, kls, walked in find_log:
            # the order the harness reconstructs for the scope context must be the order the real `find` walked
            if id(kls) not in seen_cls:
                seen_cls.add(id(kls))
                ctx.count("visit-order:classes-checked")
                if [id(b) for b in walked[1:]] != [id(b) for b in visit_time_bases(kls)]:
                    ctx.disagree("visit-order", {"scope": kls.fullName(), "files": files},
                                 [b.fullName() for b in visit_time_bases(kls)], [b.fullName() for b in walked[1:]])
        for name, chain, r, _k, _w in find_log[:60]:
            find_reqs.append("builder find %s %s" % (enc(name), " ".join(contents_token(cc) for cc in chain)))
            find_impl.append("True" if r else "False")
            find_pay.append({"name": name, "chain": chain, "files": files})
            ctx.count("find:" + ("own" if any(n == name for n, _ in chain[0]) else
                                 "inherited" if any(n == name for cc in chain[1:] for n, _ in cc) else "absent") + ":" + str(r))
        # the context handed to the scope model: `Builder.inheritedNonAttrOf` of the bases' contents (one driver call)
        class_scopes = [sc for sc in g.scopes if sc.in_class and system.allobjects.get(sc.qname) is not None]
        inh_of: Dict[str, List[str]] = {}
        if ctx.model_ok and class_scopes:
            outs = ctx.driver.run(["builder inherited " + (" ".join(contents_token(cc) for cc in bases_chain(system.allobjects[sc.qname])) or "")
                                   for sc in class_scopes])
            for sc, o in zip(class_scopes, outs):
                from ..core import dec
                inh_of[sc.qname] = [] if o in ("-", "bad-op") else sorted(dec(t) for t in o.split(","))
                if inh_of[sc.qname] != inherited_nonattr(system.allobjects[sc.qname]):
                    ctx.disagree("inherited-context", {"scope": sc.qname, "files": files}, o, inherited_nonattr(system.allobjects[sc.qname]))
        for sc in g.scopes:
            obj = system.allobjects.get(sc.qname)
            pyd = py["details"].get(sc.qname)
            if obj is None or pyd is None:
                ctx.fail("scope-missing", {"files": files, "scope": sc.qname}, "namespace %s: pydoctor %s, CPython %s" % (sc.qname, obj is not None, pyd is not None))
                continue
            inh = (inh_of.get(sc.qname) if sc.qname in inh_of else inherited_nonattr(obj)) if sc.in_class else []
            label_strings(sc, set(inh))
            head = "%s%d %s %s " % ("C" if sc.in_class else "M", 1 if sc.in_block else 0,
                                     ",".join(enc(n) for n in inh) or "-", envt)
            toks = " ".join(stmt_tokens(sc.stmts))
            pdl, pdinfo = pd_dump(obj)
            skip = IMPORTED | TARGETS | set(getattr(sc, "imported", ()))
            pyl, _ = py_line(pyd, skip)
            _, pyinfo = py_line(pyd, skip - TARGETS)
            reqs_pd.append("builder pd " + head + toks)
            impl_pd.append(pdl)
            reqs_py.append("builder py " + head + toks)
            impl_py.append(pyl)
            sub_reqs.append("builder subset " + head + toks)
            pay.append({"scope": sc.qname, "files": files, "request": head + toks})
            meta.append((sc, pdinfo, pyinfo, files, set(inh), head + toks))
            nt = nontrivial(sc.stmts)
            ctx.case(head + toks, nt, {"scope": sc.qname, "source": files[[k for k in files if k != "pk/_h.py"][0]][:400],
                                       "pydoctor": pdl[:300], "cpython": pyl[:300]} if nt and len(ctx.samples) < 3 else None)
            ctx.count("scope:" + ("class" if sc.in_class else "module"))
            for s in flat(sc.stmts):
                ctx.count("stmt:" + s[0])
                if s[0] == "def":
                    for d in s[3]:
                        ctx.count("deco:" + (d if isinstance(d, str) else d[0]))
                if s[0] == "blk":
                    ctx.count("block:" + s[1])
                if s[0] == "cmp":
                    ctx.count("guard:%s:%s" % ("taken" if guard_taken(s[1]) else "untaken", guard_src(s[1])))
    ctx.compare("maybe-attribute", find_reqs, find_impl, find_pay)
    ctx.compare("builder-scope", reqs_pd, impl_pd, pay)
    ctx.compare("pysem-scope", reqs_py, impl_py, pay)
    verdicts = ctx.driver.run_parallel(sub_reqs) if ctx.model_ok else ["out"] * len(sub_reqs)
    for v, (sc, pdinfo, pyinfo, files, inh, rq) in zip(verdicts, meta):
        ctx.count("subset:" + v)
        if v == "in" and any(x - {"shadows-inherited", "string-after-property", "rebound-ok", "doc-assign-unclean", "qualified-base", "tail-def", "qualified-spelling"} for x in sc.labels.values()):
            # the generator's labels and the Lean predicate must agree on what is outside the subset
            ctx.disagree("subset-labels", {"scope": sc.qname, "labels": {k: sorted(x) for k, x in sc.labels.items()}, "files": files}, "in", "labelled")
        def tally():
            fs = [f for f in ctx.failures if f["signature"] != "missing-member:loop-or-with-target"]   # targets are not in the IR
            return len(fs), sum(f["count"] for f in fs)
        before = tally()
        oracle_scope(ctx, sc, pdinfo, pyinfo, v == "in", files, inh, rq)
        after = tally()
        if v == "in" and before != after:
            ctx.fail("theorem-region-mismatch", {"scope": sc.qname, "files": files, "request": rq},
                     "a namespace inside Subset.inSubset on which pydoctor and CPython differ")


def flat(stmts: list):
    for s in stmts:
        yield s
        if s[0] == "blk":
            yield from flat(s[2])
            yield from flat(s[3])
        if s[0] == "cmp":
            yield from flat(s[2])


def replay(ctx: Ctx, obj) -> int:
    inp = obj.get("input") or obj.get("request") or {}
    print(obj.get("signature") or obj.get("kind"), "-", obj.get("what", ""))
    files = inp.get("files") or {}
    for q, s in files.items():
        if q != "pk/_h.py":
            print("#", q)
            print(s)
    if not files:
        print(json.dumps(inp, indent=1))
        return 0
    if set(files) == {"m.py"}:
        # the single-module probes (probe_review / probe_shadowing / probe_unpacking / probe_clauses_and_unpacking)
        from pydoctor import model
        s = model.System()
        b = s.systemBuilder(s)
        b.addModuleString(files["m.py"], "m")
        b.buildModules()
        glob: Dict[str, Any] = {"__name__": "m"}
        exec(compile(files["m.py"], "m.py", "exec"), glob)
        for q, ns in (("m", glob), ("m.C", vars(glob["C"]) if isinstance(glob.get("C"), type) else {})):
            o = s.allobjects.get(q)
            if o is None:
                continue
            print("scope", q)
            print("  pydoctor:", {n: (i["cls"], i["kind"], i["doc"], i["ann"]) for n, i in pd_dump(o)[1].items()})
            print("  cpython :", {n: (type(v).__name__, getattr(v, "__doc__", None) if inspect.isfunction(v) or inspect.isclass(v) else repr(v))
                                  for n, v in ns.items() if not n.startswith("_")})
        return 0
    mods = sorted(((k[:-3].replace("/", ".").replace(".__init__", ""), k.endswith("__init__.py")) for k in files if k != "pk/_h.py"),
                  key=lambda x: (x[0].count("."), not x[1], x[0]))
    import contextlib, io
    with contextlib.redirect_stdout(io.StringIO()):
        system = build_pydoctor(files, mods)
    py = run_cpython([{"files": files, "modules": ["pk._h"] + [m for m, _ in mods], "details": True}])[0]
    scope = inp.get("scope")
    for q in ([scope] if scope else [m for m, _ in mods]):
        o = system.allobjects.get(q)
        print("scope", q)
        print("  pydoctor:", {n: (i["cls"], i["kind"], i["doc"], i["ann"]) for n, i in pd_dump(o)[1].items()} if o else None)
        print("  cpython :", (py.get("details") or {}).get(q), py.get("error"))
    rq = inp.get("request")
    if rq:
        from ..core import dec

        def show(line: str) -> str:
            return " ".join("|".join(dec(f) if f.startswith("u:") else f for f in part.split("|")) for part in line.split(" "))
        outs = ctx.driver.run(["builder pd " + rq, "builder py " + rq, "builder subset " + rq])
        print("model Builder.scope :", show(outs[0]))
        print("model PySem.scope   :", show(outs[1]))
        print("Subset.inSubset     :", outs[2])
        if scope and system.allobjects.get(scope) is not None:
            print("impl pydoctor       :", show(pd_dump(system.allobjects[scope])[0]))
    return 0
