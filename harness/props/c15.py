"""C15 — a displayed value or expression means the same as the source expression.

Streams
  depth2      every root form x every child form (exhaustive, see RULE) through colorize_inline_pyval
  chain3      every operator chain of depth three (operator, operand position) x3
  leaves      every kind of literal leaf, bare and inside every context form
  wrap        linelen 0..40 x maxlines 0..4 (linebreakok as `_format_constant_value` uses it, plus the
              inline configuration) on a sample of expressions
  random      random deeper trees (inline and constant-value configuration)
  grammar     the Lean grammar reading (`Pyval.Grammar.parseDoc`) against CPython's parser on random
              concrete-syntax trees (the spec side of the theorems is tied to CPython as well)
  pipeline    a module with `X = <expr>` / `def f(p=<expr>)` through the real builder, compared
              with the direct call (glue)
  unstring    string annotations: a quoted operator expression in every operand slot of every operator
              and in the usual typing wrappers (Literal through every accepted spelling keeps its
              arguments quoted), through astutils.unstring_annotation
  augassign   `X = first; X <op>= rhs` (all 13 operators, chains, module and class level) through the real
              astbuilder: the stored synthetic BinOp rendered by the real colorizer
  sequence    the same string-annotation text used several times (functions, modules, attribute) in
              different contexts and orders, built from text and rendered as the templates do, in
              documentation order and in reverse order

For every case the model answer (`pyval render …`) is compared with the real colorizer's text and
`is_complete`; the direct oracle re-parses the displayed text with CPython and compares `ast.dump`.
"""
from __future__ import annotations

import ast
import itertools
import re
from typing import Any, Dict, Iterable, List, Optional, Sequence, Tuple

from ..core import Ctx, enc, dec

USES_TABLES = True

THEOREMS = [
    "Pyval.table_covers",
    "Pyval.paren_table", "Pyval.paren_table_extra", "Pyval.paren_table_oversound",
    "Pyval.paren_table_old_exact", "Pyval.paren_table_old_counterexample",
    "Pyval.toDoc_flatten", "Pyval.parseA_ok", "Pyval.derives_core",
    "Pyval.render_groups_partial", "Pyval.render_groups_counterexample",
    "Pyval.tuple_kept_partial", "Pyval.tuple_kept_counterexample", "Pyval.unstring_counterexample_old",
    "Pyval.render_use_independent",
    "Pyval.storeAll_aug", "Pyval.aug_value_reads_back",
    "Pyval.str_roundtrip", "Pyval.str_roundtrip_lines", "Pyval.strEscape_no_nul",
    "Pyval.str_display_roundtrip", "Pyval.str_constant_display",
    "Pyval.bytes_roundtrip", "Pyval.bytes_roundtrip_lines", "Pyval.bytes_roundtrip_old_counterexample",
    "Pyval.display_eq_render", "Pyval.display_const_full", "Pyval.nul_dropped_old_counterexample",
    "Pyval.output_marked", "Pyval.exec_spec", "Pyval.wrap_marked", "Pyval.wrap_prefix_counterexample",
    "Pyval.trimResult_prefix", "Pyval.cut_shows_written", "Pyval.line_budget_counterexample",
    "Pyval.reLiteral_roundtrip", "Pyval.reLiteral_old_counterexample",
    "Pyval.groupref_reads_back", "Pyval.groupref_old_counterexample",
]
PARTIAL = {
    "Pyval.render_groups_partial": "okTree excludes trees containing a one-element tuple (also as subscript index), an empty tuple as subscript index, a delegated node on which astor raised ('??'); the right-operand and huge-int exclusions are gone with b6b97a7 / 61018a8",
    "Pyval.derives_core": "same exclusions as render_groups_partial (it is its induction core)",
    "Pyval.tuple_kept_partial": "holds only for tuples of length != 1 (the colorizer never writes the trailing comma; the fix is not applied because the test-suite pins '(f)')",
    "Pyval.display_eq_render": "general lemma about result items: needs NUL-free item text; for str/bytes constants this is now a theorem (display_const_full); names, float text and astor text are NUL-free because Python source is",
    "Pyval.line_budget_counterexample": "states what is NOT claimed: after a parenthesised operator charpos/lineno are under-counted, so a line may exceed linelen and a complete result may exceed maxlines lines; no theorem assumes a line budget",
    "Pyval.cut_shows_written": "covers the three ways colorize ends incomplete: _Maxlines, _Linebreak, and (0a8115c) RecursionError - the model's own walk never raises the last one, Prog.fail .recursion stands for the interpreter running out of stack",
    "Pyval.wrap_marked": "full for what the property says (cut => marked, complete => nothing lost); the stronger 'cut output is a prefix of the full text' is false (wrap_prefix_counterexample: the closing parenthesis of an open operator group is still written)",
    "Pyval.paren_table_old_exact": "HISTORICAL: describes the code before b6b97a7 (decisionOld)",
    "Pyval.paren_table_old_counterexample": "HISTORICAL: a-(b-c), a/(b*c), a-(b+c) before b6b97a7",
    "Pyval.bytes_roundtrip_old_counterexample": "HISTORICAL: b\"it's\" before 257fc5a (bytesEscapeOld)",
    "Pyval.reLiteral_old_counterexample": "HISTORICAL: a bare blank / '#' in a verbose pattern before 55809ad (reLiteralOld)",
    "Pyval.groupref_old_counterexample": "HISTORICAL: (a)\\1 followed by the literal 0 written \\10 before fd7f5b9 (reGroupRefOld)",
    "Pyval.groupref_reads_back": "group numbers below 100 (the vendored parser's limit), next element a LITERAL or nothing",
    "Pyval.unstring_counterexample_old": "HISTORICAL: \"a | b\" & c before a1c047d (Expr.unlinked)",
    "Pyval.nul_dropped_old_counterexample": "HISTORICAL: '\\x00' before e938da2 (strEscapeOld)",
}
RULE = ("corpus first (every finding's input, every seeded change's shape: seeded/C15-1, C15-2, C15-r2-1..3, C14-r2-1, C14-r2-3); "
        "exhaustive: every root form (4 unary, 13 binary, and/or with 2 and 3 operands, 10 comparison operators and "
        "chains, conditional, lambda, 7 call shapes, 6 subscript shapes, attribute, tuple/list/set/dict displays of "
        "0-3 items incl. ** and *, 5 starred contexts, await/:=/yield/comprehensions/f-string) with every form in every "
        "operand slot (other slots: names); every pair of operator forms in the slots of every operator root; every chain "
        "(operator, operand position)^2 x operator of depth three; every literal-leaf kind bare and in every context; "
        "linelen 0..40 x maxlines 0..4; a quoted operator expression in every operand slot of every native operator and in "
        "23 typing/Literal wrappers; the same string annotation in every context before/after a bare use, rendered in "
        "documentation and reverse order; X = first; X op= rhs for 13 operators x 27 x 27 operand shapes (sampled in quick), "
        "chains, module and class level; 90 curated + random regular expressions x 8 call shapes x str/bytes; random deeper "
        "trees. Non-trivial = the AST contains an operator node (UnaryOp/BinOp/BoolOp/Compare/IfExp) whose child is an operator node.")
ASSUMPTIONS = [
    "expressions are colourized as pydoctor does it: the node has no expression parent (top level of a default, annotation, decorator, base, constant value)",
    "regex criterion: a displayed pattern is right when CPython's re._parser gives it the same parse tree and flags as the source pattern (so (?P=n) shown as \\1, dropped (?#comments), 'ab|ac' shown as 'a[bc]' pass: same regex, other spelling); the call must keep its flags expression and its * / ** arguments",
    "re.compile(<constant>) goes through the regex colourizer (_colorize_ast_re, _colorize_re_pattern, _colorize_re_tree over pydoctor's vendored sre_parse36): only the LITERAL and GROUPREF branches of _colorize_re_tree are modelled (reLiteral, reGroupRef; re-elements stream against the real method on tiny trees); everything else is NOT modelled: the regex stream checks it with the direct oracle only (same call, same flags expression, pattern constant equal or read as the same regex by CPython's re._parser under the compile flags the flags argument designates - both 0 and re.VERBOSE when it is not a constant; patterns CPython itself rejects are exempt); the other streams never generate re.compile",
    "_storeAttrValue is modelled (storeAttrValue/storeAll); that the builder calls it once per assignment statement of a documented module/class variable, in source order, is what the augassign stream checks",
    "what is delegated to astor outside comparison/conditional expressions over names and operators is an opaque leaf: the model is given astor's two texts (one line, as asked for when no line break is allowed since a5155ca, and astor's default, possibly wrapped); that the text is self-delimiting is checked only by the direct oracle (CPython re-parse)",
    "float/complex constants: the model is given str(value) and applies the inf -> 1e309 replacement itself; numeric formatting is judged by the oracle through the parsed value",
    "string annotations: since a1c047d every node of an unquoted annotation has its parent link, so the model request is the plain tree (the historical `ul` marker is no longer sent); the unstring stream and its oracle stay",
    "lone surrogates in string constants are checked by the direct oracle only (they cannot travel to the Lean model)",
    "PyvalColorizer.LINEWRAP is a shared docutils node that _trim_result can mutate (only reachable with linebreakok=False and a line length, a configuration pydoctor does not use); the harness restores it before every call in that configuration and counts the event",
]
EXPLANATION = ("The model follows _pyval_repr.py helper by helper; the theorems are stated against a grammar reading "
               "(precedence levels and associativity of Python's expression grammar) that is itself compared with "
               "CPython's parser in the `grammar` stream.")

# --------------------------------------------------------------------------- forms

UN = {"USub": "-", "UAdd": "+", "Invert": "~", "Not": "not "}
BIN = {"Add": "+", "Sub": "-", "Mult": "*", "MatMult": "@", "Div": "/", "Mod": "%", "Pow": "**",
       "LShift": "<<", "RShift": ">>", "BitOr": "|", "BitXor": "^", "BitAnd": "&", "FloorDiv": "//"}
BOOL = {"And": "and", "Or": "or"}
CMP = {"Eq": "==", "NotEq": "!=", "Lt": "<", "LtE": "<=", "Gt": ">", "GtE": ">=", "Is": "is",
       "IsNot": "is not", "In": "in", "NotIn": "not in"}
CMP_QUICK = ["Lt", "NotIn"]


class Form:
    __slots__ = ("name", "slots", "tpl", "cat")

    def __init__(self, name: str, slots: int, tpl: str, cat: str) -> None:
        self.name, self.slots, self.tpl, self.cat = name, slots, tpl, cat

    def build(self, kids: Sequence[str]) -> str:
        return self.tpl.format(*kids)


def all_forms() -> List[Form]:
    fs: List[Form] = []
    for n, s in UN.items():
        fs.append(Form("U:" + n, 1, s + "{0}", "unary"))
    for n, s in BIN.items():
        fs.append(Form("B:" + n, 2, "{0} " + s + " {1}", "binary"))
    for n, s in BOOL.items():
        fs.append(Form("L:" + n, 2, "{0} " + s + " {1}", "bool"))
    fs.append(Form("L3:And", 3, "{0} and {1} and {2}", "bool"))
    for n, s in CMP.items():
        fs.append(Form("C:" + n, 2, "{0} " + s + " {1}", "compare"))
    fs.append(Form("C3:Lt,GtE", 3, "{0} < {1} >= {2}", "compare"))
    fs.append(Form("C3:In,Is", 3, "{0} in {1} is {2}", "compare"))
    fs.append(Form("I", 3, "{0} if {1} else {2}", "ifexp"))
    fs.append(Form("lambda0", 1, "lambda: {0}", "lambda"))
    fs.append(Form("lambda2", 1, "lambda p, q=1: {0}", "lambda"))
    fs += [Form("call:f", 2, "{0}({1})", "call"), Form("call:2", 2, "f({0}, {1})", "call"),
           Form("call:kw", 1, "f(k={0})", "call"), Form("call:arg+kw", 2, "f({0}, k={1})", "call"),
           Form("call:star", 1, "f(*{0})", "call"), Form("call:dstar", 1, "f(**{0})", "call"),
           Form("call:0", 0, "f()", "call")]
    fs += [Form("sub", 2, "{0}[{1}]", "subscript"), Form("sub:slice", 2, "v[{0}:{1}]", "subscript"),
           Form("sub:tuple2", 2, "v[{0}, {1}]", "subscript"), Form("sub:tuple1", 1, "v[{0},]", "subscript"),
           Form("sub:slice+1", 3, "v[{0}:{1}, {2}]", "subscript"), Form("sub:empty", 0, "v[()]", "subscript")]
    fs.append(Form("attr", 1, "{0}.attr", "attribute"))
    fs += [Form("tuple0", 0, "()", "container"), Form("tuple1", 1, "({0},)", "container"),
           Form("tuple2", 2, "({0}, {1})", "container"),
           Form("list0", 0, "[]", "container"), Form("list1", 1, "[{0}]", "container"),
           Form("list2", 2, "[{0}, {1}]", "container"),
           Form("set1", 1, "{{{0}}}", "container"), Form("set2", 2, "{{{0}, {1}}}", "container"),
           Form("dict0", 0, "{{}}", "container"), Form("dict1", 2, "{{{0}: {1}}}", "container"),
           Form("dict:dstar", 1, "{{**{0}}}", "container"),
           Form("dict:kv+dstar", 3, "{{{0}: {1}, **{2}}}", "container")]
    fs += [Form("star:list", 1, "[*{0}]", "starred"), Form("star:tuple1", 1, "(*{0},)", "starred"),
           Form("star:tuple2", 2, "(*{0}, {1})", "starred"), Form("star:sub", 1, "v[*{0}]", "starred"),
           Form("star:set", 1, "{{*{0}}}", "starred")]
    fs += [Form("await", 1, "await {0}", "other"), Form("walrus", 1, "(w := {0})", "other"),
           Form("yield", 1, "(yield {0})", "other"), Form("listcomp", 2, "[{0} for i in {1}]", "other"),
           Form("genexp", 2, "({0} for i in {1})", "other"),
           Form("dictcomp", 2, "{{{0}: {1} for i in z}}", "other"),
           Form("fstring", 1, 'f"{{{0}}}"', "other")]
    return fs


FORMS = all_forms()
OP_CATS = ("unary", "binary", "bool", "compare", "ifexp")
OP_FORMS = [f for f in FORMS if f.cat in OP_CATS]
NAMES = ["a", "b", "c", "d", "e", "g", "h", "j", "k", "m", "n", "p", "q", "r", "s", "t", "u"]


def leaf_names():
    for i in itertools.count():
        yield NAMES[i % len(NAMES)] + ("" if i < len(NAMES) else str(i // len(NAMES)))


def paren(src: str, is_leaf: bool) -> str:
    return src if is_leaf else "(" + src + ")"


# --------------------------------------------------------------------------- AST -> model request

class Skip(Exception):
    pass


OPN = {**{getattr(ast, k): k for k in UN}, **{getattr(ast, k): k for k in BIN},
       **{getattr(ast, k): k for k in BOOL}, **{getattr(ast, k): k for k in CMP}}


def dotted(node: ast.AST) -> Optional[List[str]]:
    parts = []
    while isinstance(node, ast.Attribute):
        parts.append(node.attr)
        node = node.value
    if isinstance(node, ast.Name):
        parts.append(node.id)
        return parts[::-1]
    return None


def in_fragment(node: ast.AST) -> bool:
    """the part of astor's language the Lean model renders itself"""
    if isinstance(node, ast.Name):
        return True
    if isinstance(node, ast.UnaryOp):
        return in_fragment(node.operand)
    if isinstance(node, ast.BinOp):
        return in_fragment(node.left) and in_fragment(node.right)
    if isinstance(node, ast.BoolOp):
        return all(in_fragment(v) for v in node.values)
    if isinstance(node, ast.Compare):
        return in_fragment(node.left) and all(in_fragment(v) for v in node.comparators)
    if isinstance(node, ast.IfExp):
        return in_fragment(node.body) and in_fragment(node.test) and in_fragment(node.orelse)
    return False


def atoks(node: ast.AST) -> List[str]:
    if isinstance(node, ast.Name):
        return ["n", enc(node.id)]
    if isinstance(node, ast.UnaryOp):
        return ["U", OPN[type(node.op)]] + atoks(node.operand)
    if isinstance(node, ast.BinOp):
        return ["B", OPN[type(node.op)]] + atoks(node.left) + atoks(node.right)
    if isinstance(node, ast.BoolOp):
        return ["L", OPN[type(node.op)], str(len(node.values))] + [t for v in node.values for t in atoks(v)]
    if isinstance(node, ast.Compare):
        out = ["C"] + atoks(node.left) + [str(len(node.ops))]
        for op, r in zip(node.ops, node.comparators):
            out += [OPN[type(op)]] + atoks(r)
        return out
    if isinstance(node, ast.IfExp):
        return ["I"] + atoks(node.body) + atoks(node.test) + atoks(node.orelse)
    raise AssertionError(node)


def delegated(node: ast.AST, stats: Optional[Dict[str, int]]) -> List[str]:
    import astor
    try:
        one = astor.to_source(node, pretty_source="".join).strip()     # state.linebreakok false (a5155ca)
        wrapped = astor.to_source(node).strip()                         # line breaks allowed: astor may wrap
    except Exception:
        return ["un"]
    if isinstance(node, (ast.Compare, ast.IfExp)) and in_fragment(node) and one == wrapped and "\n" not in one:
        if stats is not None:
            stats["astor-modelled"] = stats.get("astor-modelled", 0) + 1
        return ["A"] + atoks(node)
    if stats is not None:
        stats["opaque:" + type(node).__name__] = stats.get("opaque:" + type(node).__name__, 0) + 1
        if one != wrapped:
            stats["opaque:astor-wraps-it"] = stats.get("opaque:astor-wraps-it", 0) + 1
    return ["o", enc(one), enc(wrapped)]


def etoks(node: ast.AST, stats: Optional[Dict[str, int]] = None) -> List[str]:
    """request tokens for an AST; follows the dispatch of PyvalColorizer._colorize_ast.
    Must be called on a tree that the colorizer does not see (astor leaves `_pp` marks)."""
    r = lambda n: etoks(n, stats)
    if isinstance(node, ast.Constant):
        v = node.value
        if v is None:
            return ["N"]
        if v is True:
            return ["T"]
        if v is False:
            return ["F"]
        if v is Ellipsis:
            return ["E"]
        if type(v) is int:
            return ["i", "%x" % v]
        if type(v) in (float, complex):
            return ["f", enc(str(v))]
        if type(v) is str:
            if any(0xD800 <= ord(c) <= 0xDFFF for c in v):
                raise Skip("surrogate")
            return ["s", enc(v)]
        if type(v) is bytes:
            return ["b", ",".join(str(x) for x in v) or "-"]
        raise Skip("constant " + type(v).__name__)
    if isinstance(node, ast.UnaryOp):
        return ["U", OPN[type(node.op)]] + r(node.operand)
    if isinstance(node, ast.BinOp):
        return ["B", OPN[type(node.op)]] + r(node.left) + r(node.right)
    if isinstance(node, ast.BoolOp):
        return ["L", OPN[type(node.op)], str(len(node.values))] + [t for v in node.values for t in r(v)]
    if isinstance(node, ast.List):
        return ["li", str(len(node.elts))] + [t for v in node.elts for t in r(v)]
    if isinstance(node, ast.Tuple):
        return ["tu", str(len(node.elts))] + [t for v in node.elts for t in r(v)]
    if isinstance(node, ast.Set):
        return ["se", str(len(node.elts))] + [t for v in node.elts for t in r(v)]
    if isinstance(node, ast.Dict):
        out = ["di", str(len(node.keys))]
        for k, v in zip(node.keys, node.values):
            out += (["ab"] if k is None else r(k)) + r(v)
        return out
    if isinstance(node, ast.Name):
        return ["n", enc(node.id)]
    if isinstance(node, ast.Attribute):
        d = dotted(node)
        if d is not None:
            return ["d", str(len(d))] + [enc(p) for p in d]
        return delegated(node, stats)
    if isinstance(node, ast.Subscript):
        return ["su"] + r(node.value) + r(node.slice)
    if isinstance(node, ast.Call):
        if dotted(node.func) == ["re", "compile"]:
            raise Skip("re.compile")
        out = ["ca"] + r(node.func) + [str(len(node.args))] + [t for v in node.args for t in r(v)]
        out.append(str(len(node.keywords)))
        for kw in node.keywords:
            out += [enc(kw.arg) if kw.arg is not None else "-"] + r(kw.value)
        return out
    if isinstance(node, ast.Starred):
        return ["st"] + r(node.value)
    return delegated(node, stats)


# --------------------------------------------------------------------------- implementation adapter

LINEWRAP_CHAR = chr(8629)


def fresh_linewrap():
    from docutils import nodes
    from pydoctor.epydoc.markup._pyval_repr import PyvalColorizer
    PyvalColorizer.LINEWRAP = nodes.inline('', LINEWRAP_CHAR, classes=[PyvalColorizer.LINEWRAP_TAG])


def run_impl(node: ast.AST, linelen: int, maxlines: int, lb: bool):
    """returns (canonical answer, ColorizedPyvalRepr | None)"""
    from pydoctor.epydoc.markup._pyval_repr import colorize_pyval, colorize_inline_pyval, PyvalColorizer
    from pydoctor.node2stan import gettext
    try:
        if (linelen, maxlines, lb) == (0, 1, False):
            r = colorize_inline_pyval(node)
        else:
            r = colorize_pyval(node, linelen=linelen, maxlines=maxlines, linebreakok=lb)
    except Exception as e:
        return "raise " + type(e).__name__, None
    text = "".join(gettext(r.to_node()))
    return "ok %d %s" % (1 if r.is_complete else 0, enc(text)), r


def linewrap_intact() -> bool:
    from pydoctor.epydoc.markup._pyval_repr import PyvalColorizer
    return PyvalColorizer.LINEWRAP.astext() == LINEWRAP_CHAR


# --------------------------------------------------------------------------- direct oracle

class _Norm(ast.NodeTransformer):
    """the documented spelling changes, applied to BOTH sides: set display <-> set([...]);
    quote style and numeric formatting are already gone once CPython has parsed the text
    (constants compare by value); the u'' prefix is a quote-style matter."""

    def visit_Set(self, node: ast.Set) -> ast.AST:
        self.generic_visit(node)
        return ast.Call(func=ast.Name(id="set", ctx=ast.Load()),
                        args=[ast.List(elts=node.elts, ctx=ast.Load())], keywords=[])

    def visit_Constant(self, node: ast.Constant) -> ast.AST:
        node.kind = None
        return node


def _canon(x: Any) -> Any:
    """what ast.dump shows (node types and field values, no positions), as nested tuples;
    huge ints cannot go through repr()"""
    if isinstance(x, ast.AST):
        return (type(x).__name__,) + tuple((f, _canon(getattr(x, f, None))) for f in x._fields)
    if isinstance(x, list):
        return tuple(_canon(v) for v in x)
    if type(x) is int:
        return ("int", hex(x))
    if type(x) is float:
        return ("float", x.hex())
    if type(x) is complex:
        return ("complex", x.real.hex(), x.imag.hex())
    return (type(x).__name__, x)


def norm_dump(tree: ast.AST) -> Any:
    return _canon(_Norm().visit(tree))


def displayed_text(r) -> Tuple[str, bool, bool]:
    """(text with continuation markers removed, truncation marker present, every wrap marked)
    read off the docutils nodes: a continuation is an inline.variable-linewrap followed by '\\n'."""
    from docutils import nodes
    kids = list(r.to_node().children)
    out: List[str] = []
    marked = False
    i = 0
    n = len(kids)
    if not r.is_complete and kids and isinstance(kids[-1], nodes.inline) and \
            "variable-ellipsis" in kids[-1].get("classes", []) and kids[-1].astext() == "...":
        marked = True
        n -= 1
        if n and isinstance(kids[n - 1], nodes.Text) and kids[n - 1].astext() == "\n":
            n -= 1
    while i < n:
        k = kids[i]
        if isinstance(k, nodes.inline) and "variable-linewrap" in k.get("classes", []):
            if i + 1 < n and isinstance(kids[i + 1], nodes.Text) and str(kids[i + 1]) == "\n":
                i += 2
                continue
            i += 1       # dangling marker (cut right after it)
            continue
        out.append(k.astext())
        i += 1
    return "".join(out), marked, True


PREC_CLASS = {ast.BitOr: 1, ast.BitXor: 2, ast.BitAnd: 3, ast.LShift: 4, ast.RShift: 4, ast.Add: 5, ast.Sub: 5,
              ast.Mult: 6, ast.MatMult: 6, ast.Div: 6, ast.Mod: 6, ast.FloorDiv: 6, ast.Pow: 8}


def readback(src: str, cfg: Tuple[int, int, bool]) -> Tuple[str, str, Any]:
    """('ok'|'cut'|'raise:<Exc>'|'syntax'|'differs', displayed text, result) for one source text"""
    tree = ast.parse(src, mode="eval").body
    if cfg[2] is False and cfg[0] != 0:
        fresh_linewrap()
    ans, r = run_impl(tree, *cfg)
    if r is None:
        return "raise:" + ans.split()[1], "", None
    text, marker, _ = displayed_text(r)
    if not r.is_complete:
        return "cut", text, r
    try:
        shown_tree = ast.parse(text, mode="eval").body
    except (SyntaxError, ValueError, MemoryError, RecursionError):
        return "syntax", text, r
    if norm_dump(shown_tree) == norm_dump(ast.parse(src, mode="eval").body):
        return "ok", text, r
    return "differs", text, r


_MIN_CACHE: Dict[Tuple[str, Tuple[int, int, bool]], str] = {}


DELEGATED = (ast.Compare, ast.IfExp, ast.Lambda, ast.Await, ast.NamedExpr, ast.ListComp, ast.SetComp, ast.DictComp,
             ast.GeneratorExp, ast.JoinedStr, ast.Yield, ast.YieldFrom, ast.Attribute)


def leaf_feature(tree: ast.AST) -> Optional[str]:
    for n in ast.walk(tree):
        if isinstance(n, ast.Constant):
            v = n.value
            if type(v) is int and v.bit_length() > 14000:
                return "leaf:huge-int-ValueError"
            if isinstance(v, bytes) and any(b"'" in ln and b'"' not in ln for ln in [v] + v.split(b"\n")):
                # repr() switches to double quotes for the value (or, in the multi-line form, for one line)
                return "leaf:bytes-quote-unescaped"
            if isinstance(v, str) and "\x00" in v:
                return "leaf:nul-dropped"
            if isinstance(v, (float, complex)) and (abs(v) == float("inf") or v != v):
                return "leaf:float-overflow-inf"
    return None


def classify_root(node: ast.AST, verdict: str) -> str:
    """kind of failure of a MINIMAL failing expression (all its proper sub-expressions read back)"""
    if isinstance(node, ast.Constant):
        return leaf_feature(node) or "leaf:" + type(node.value).__name__ + "-changed"
    if isinstance(node, ast.Tuple) and len(node.elts) == 1:
        return "tuple:singleton-comma-lost"
    if isinstance(node, ast.Subscript):
        sl = node.slice
        if isinstance(sl, ast.Tuple) and len(sl.elts) == 0:
            return "tuple:empty-index"
        if isinstance(sl, ast.Tuple) and len(sl.elts) == 1:
            return "tuple:singleton-comma-lost"
    if isinstance(node, ast.BinOp) and not isinstance(node.op, ast.Pow) and isinstance(node.right, ast.BinOp) \
            and PREC_CLASS[type(node.op)] == PREC_CLASS[type(node.right.op)]:
        return "paren:right-operand-equal-precedence"
    if isinstance(node, DELEGATED):       # the whole text of a minimal failing delegated form is astor's
        return "delegated:astor"
    if isinstance(node, ast.Subscript):
        parts = node.slice.elts if isinstance(node.slice, ast.Tuple) else [node.slice]
        if any(isinstance(p, ast.Slice) for p in parts):
            return "delegated:astor"
    f = leaf_feature(node)        # a leaf whose spelling depends on the context (linebreakok)
    if f is not None:
        return f
    return "other:" + verdict + ":" + type(node).__name__


def classify(src: str, cfg: Tuple[int, int, bool], verdict: str) -> str:
    """signature = kind of the smallest failing sub-expression (ast.unparse of every sub-node, shortest
    first, through the real colorizer and CPython's parser again)"""
    key = (src, cfg)
    if key in _MIN_CACHE:
        return _MIN_CACHE[key]
    tree = ast.parse(src, mode="eval").body
    subs: List[Tuple[int, str, ast.AST]] = []
    for n in ast.walk(tree):
        if isinstance(n, ast.expr) and not isinstance(n, (ast.Starred, ast.Slice)):
            try:
                u = ast.unparse(n)
                ast.parse(u, mode="eval")
            except Exception:
                continue
            subs.append((len(u), u, n))
    subs.sort(key=lambda t: (t[0], t[1]))
    sig = None
    for _, u, n in subs:
        k2 = (u, cfg)
        if k2 in _MIN_CACHE:
            if _MIN_CACHE[k2] != "ok":
                sig = _MIN_CACHE[k2]
                break
            continue
        # a literal leaf is spelled differently with and without line breaks: try it both ways
        cfgs = [cfg] + ([(0, 1, False), (0, 0, True)] if isinstance(n, ast.Constant) else [])
        v = "ok"
        shown_u = ""
        for c2 in cfgs:
            v, shown_u, _ = readback(u, c2)
            if v in ("syntax", "differs") or v.startswith("raise:"):
                break
        if v in ("syntax", "differs") or v.startswith("raise:"):
            sig = classify_root(ast.parse(u, mode="eval").body, v)
            if sig == "delegated:astor" and isinstance(n, DELEGATED):
                # astor's own defect only if what is shown IS astor's text; otherwise pydoctor changed it
                import astor
                try:
                    mine = ast.parse(u, mode="eval").body
                    texts = {astor.to_source(mine, pretty_source="".join).strip(), astor.to_source(mine).strip()}
                except Exception:
                    texts = {"??"}
                if shown_u not in texts:
                    sig = "delegated:shown-text-is-not-astor's"
            _MIN_CACHE[k2] = sig
            break
        _MIN_CACHE[k2] = "ok"
    if sig is None:
        sig = classify_root(tree, verdict)
    _MIN_CACHE[key] = sig
    return sig


def strip_cmp(t: str) -> str:
    return re.sub(r"[\s()]", "", t)


def oracle(ctx: Ctx, src: str, src_tree: ast.AST, ans: str, r, cfg: Tuple[int, int, bool]) -> None:
    """the property, judged on the implementation's own output by CPython's parser"""
    inp = {"source": src, "linelen": cfg[0], "maxlines": cfg[1], "linebreakok": cfg[2]}
    if r is None:
        exc = ans.split()[1]
        sig = "leaf:huge-int-ValueError" if exc == "ValueError" and any(
            isinstance(n, ast.Constant) and type(n.value) is int and n.value.bit_length() > 14000
            for n in ast.walk(src_tree)) else "crash:" + exc
        ctx.fail(sig, inp, f"colorize raised {exc} for {src[:60]!r}: nothing is displayed")
        return
    text, marker, _ = displayed_text(r)
    if not r.is_complete:
        if not marker:
            ctx.fail("cut:not-marked", inp, "is_complete is False but the output does not end with the '...' marker")
        elif cfg[2] is False:
            # never shortened in the middle: what is shown is the beginning of the uncut text
            # (closing parentheses of operator groups that were open when the cut happened aside)
            v, full, _ = readback(src, (0, 0, False))
            if v != "cut" and not v.startswith("raise:") and not strip_cmp(full).startswith(strip_cmp(text)):
                ctx.fail("cut:not-a-prefix", inp, f"cut output {text!r} is not the beginning of the full text {full!r}")
        return
    if marker:
        ctx.fail("cut:marker-on-complete", inp, "is_complete is True but a truncation marker is present")
        return
    # complete: the text (continuation markers removed) must read back as the same expression
    try:
        shown_tree = ast.parse(text, mode="eval").body
    except (SyntaxError, ValueError, MemoryError, RecursionError):
        shown_tree = None
    if shown_tree is not None and norm_dump(shown_tree) == norm_dump(ast.parse(src, mode="eval").body):
        return
    verdict = "syntax" if shown_tree is None else "differs"
    sig = classify(src, cfg, verdict)
    ctx.fail(sig, inp, f"{src!r} is displayed as {text!r}, which " +
             ("is not a Python expression" if shown_tree is None else "reads back as a different expression"))


def nontrivial(tree: ast.AST) -> bool:
    ops = (ast.UnaryOp, ast.BinOp, ast.BoolOp, ast.Compare, ast.IfExp)
    for n in ast.walk(tree):
        if isinstance(n, ops) and any(isinstance(c, ops) for c in ast.iter_child_nodes(n)):
            return True
    return False


# --------------------------------------------------------------------------- case runner

class Batch:
    def __init__(self, ctx: Ctx, stream: str) -> None:
        self.ctx, self.stream = ctx, stream
        self.reqs: List[str] = []
        self.impls: List[str] = []
        self.payload: List[Any] = []
        self.stats: Dict[str, int] = {}
        self.seen: set = set()

    def add(self, src: str, cfg: Tuple[int, int, bool] = (0, 1, False), dedupe: bool = True) -> None:
        ctx = self.ctx
        key = (src, cfg)
        if dedupe:
            if key in self.seen:
                return
            self.seen.add(key)
        try:
            tree = ast.parse(src, mode="eval").body
            tree2 = ast.parse(src, mode="eval").body
        except (SyntaxError, ValueError, RecursionError, MemoryError):
            ctx.count(self.stream + ":unparsable-generated")
            return
        if cfg[2] is False and cfg[0] != 0:
            fresh_linewrap()
        ans, r = run_impl(tree, *cfg)
        if cfg[2] is False and cfg[0] != 0 and not linewrap_intact():
            ctx.count("note:shared-LINEWRAP-node-mutated-by-_trim_result")
            fresh_linewrap()
        nt = nontrivial(tree2)
        try:
            toks = etoks(tree2, self.stats)
        except Skip as e:
            ctx.count(self.stream + ":oracle-only:" + str(e))
            toks = None
        if toks is not None:
            req = "pyval render %d %d %d %s" % (cfg[0], cfg[1], 1 if cfg[2] else 0, " ".join(toks))
            self.reqs.append(req)
            self.impls.append(ans)
            self.payload.append({"source": src, "linelen": cfg[0], "maxlines": cfg[1], "linebreakok": cfg[2]})
        canon = "%s|%r" % (src, cfg)
        ctx.case(canon, nt, {"source": src, "cfg": list(cfg), "impl": ans}
                 if nt and len(ctx.samples) < 4 and len(src) > 12 else None)
        ctx.count("stream:" + self.stream)
        oracle(ctx, src, tree2, ans, r, cfg)

    def flush(self) -> None:
        for k, v in self.stats.items():
            self.ctx.count(self.stream + ":" + k, v)
        self.ctx.compare("pyval-" + self.stream, self.reqs, self.impls, self.payload)
        self.reqs, self.impls, self.payload, self.stats = [], [], [], {}


# --------------------------------------------------------------------------- generators

def depth1(form: Form, names) -> str:
    return form.build([next(names) for _ in range(form.slots)])


def gen_depth2(ctx: Ctx) -> Iterable[str]:
    """root form x child forms"""
    leaf = None
    for root in FORMS:
        if root.slots == 0:
            yield root.build([])
            continue
        # (a) one slot takes every form, the others are names
        for i in range(root.slots):
            for child in FORMS:
                names = leaf_names()
                kids = []
                for j in range(root.slots):
                    kids.append(paren(depth1(child, names), False) if j == i else next(names))
                yield root.build(kids)
        # (b) all slots at once
        if ctx.quick:
            pool = OP_FORMS if (root.cat in OP_CATS and root.slots <= 2) else []
        else:
            pool = FORMS if root.slots <= 2 else OP_FORMS
        if pool:
            choices: List[Optional[Form]] = [None] + list(pool)
            for combo in itertools.product(choices, repeat=root.slots):
                names = leaf_names()
                kids = [next(names) if c is None else paren(depth1(c, names), False) for c in combo]
                yield root.build(kids)


def chain_links(quick: bool) -> List[Tuple[Form, int]]:
    links = []
    for f in OP_FORMS:
        if quick and f.cat == "compare" and f.name.split(":")[1] not in CMP_QUICK:
            continue
        for i in range(f.slots):
            links.append((f, i))
    return links


def gen_chain3(ctx: Ctx) -> Iterable[str]:
    links = chain_links(ctx.quick)
    inner = [f for f in OP_FORMS if not (ctx.quick and f.cat == "compare" and f.name.split(":")[1] not in CMP_QUICK)]
    for (f1, i1) in links:
        for (f2, i2) in links:
            for f3 in inner:
                names = leaf_names()
                s3 = depth1(f3, names)
                k2 = [paren(s3, False) if j == i2 else next(names) for j in range(f2.slots)]
                s2 = f2.build(k2)
                k1 = [paren(s2, False) if j == i1 else next(names) for j in range(f1.slots)]
                yield f1.build(k1)


HUGE_OK = "0x" + "f" * 3570          # 4299 decimal digits
HUGE_BAD = "0x1" + "0" * 3580        # 4311 decimal digits: str(int) raises, the colorizer falls back to hex()

LEAVES: List[Tuple[str, str]] = [
    ("int", "0"), ("int", "1"), ("int", "255"), ("int", "0x10"), ("int", "0o17"), ("int", "0b101"), ("int", "1_000"),
    ("int:big", str(10 ** 30)), ("int:big", "0x" + "ff" * 40), ("int:huge", HUGE_OK), ("int:huge", HUGE_BAD),
    ("float", "0.5"), ("float", "1.0"), ("float", "1e16"), ("float", "1e22"), ("float", "1e-7"), ("float", "2.5e-8"),
    ("float", "1.5e300"), ("float", "0.1"), ("float", "1e-400"), ("float", "123456789.123456789"),
    ("float:inf", "1e999"), ("float:inf", "2e308"),
    ("complex", "1j"), ("complex", "2.5j"), ("complex", "0j"), ("complex", "1e-7j"), ("complex:inf", "1e999j"),
    ("str", "''"), ("str", "'abc'"), ("str", '"it\'s"'), ("str", "'say \"hi\"'"), ("str", "'both \\' and \"'"),
    ("str", "'back\\\\slash'"), ("str", "'ends with \\\\'"), ("str", "'nl\\nx'"), ("str", "'tab\\tcr\\rff\\fvt\\v'"),
    ("str", "'''tri'''"), ("str", "'a\\'\\'\\'b'"), ("str", "'\\\\n not newline'"), ("str", "r'raw\\d'"), ("str", "u'uni'"),
    ("str:ctrl", "'bel\\x07esc\\x1bdel\\x7f'"), ("str:ctrl", "'nel\\x85ls\\u2028ps\\u2029'"),
    ("str:nul", "'\\x00'"), ("str:nul", "'a\\x00 b'"), ("str:nul", "'a\\x00\\nb'"),
    ("str:nonascii", "'caf\\xe9 \\u4e2d \\U0001f600'"), ("str:nonascii", "'\\u21b5 arrow'"),
    ("str:concat", "'a' 'b'"), ("str:surrogate", "'\\udc80x'"),
    ("bytes", "b''"), ("bytes", "b'abc'"), ("bytes", "b'both \\' \"'"), ("bytes", "b'dq \"'"),
    ("bytes", "b'\\x00\\xff\\n\\t\\r\\\\'"), ("bytes", "b'nl\\nx'"), ("bytes:quote", 'b"it\'s"'),
    ("const", "None"), ("const", "True"), ("const", "False"), ("const", "..."),
    ("fstring", "f'a{b}c'"), ("fstring", "f'{b!r:>{w}}'"),
]

LEAF_CONTEXTS = ["{0}", "-{0}", "{0} + x", "x ** {0}", "{0} ** x", "not {0}", "x and {0}", "x < {0}", "{0} if x else y",
                 "f({0})", "f(k={0})", "f(*{0})", "v[{0}]", "v[{0}, x]", "v[{0}:x]", "({0},)", "({0}, x)", "[{0}]",
                 "{{{0}}}", "{{{0}: {0}}}", "{{**{0}}}", "[*{0}]", "{0}.real", "{0}[0]", "{0}(x)", "lambda: {0}"]

WRAP_SAMPLE = [
    "(111+222)*333", "12345678901234567890", "[1, 2, 3, 4, 5, 6, 7, 8, 9, 10]", "'a string of some length'",
    "'two\\nlines'", "['x\\ny', 1]", "f(1234, 'abc', k=5.5)", "{'key': [1, 2], 'other': (3, 4)}", "name",
    "a.very.long.dotted.name + 1", "b'bytes\\nvalue'", "-(1+2)**(3*4)", "x[1:2, 'abc']", "(1, (2, (3, (4,))))",
    "lambda x: x + 1", "1 < 2 < 3", "[[1, 'a\\nb'], [2, 'c']]", "f(x)(y)[z]", "'' + ''", "not (1 or 2)",
    "{1, 2, 3}", "'x' * 30", "{**a, 'k': (1+2)*3}", "f(*a, **k)", "(100000+200000)*(300000+400000)",
]


def rand_str(rng) -> str:
    alphabet = ["a", "b", " ", "'", '"', "\\", "\n", "\t", "\r", "\x0b", "\x0c", "\x00", "\x07", "\x7f", "\x85",
                " ", "é", "中", "😀", "↵", "{", "}", "#", "%"]
    return "".join(rng.choice(alphabet) for _ in range(rng.randint(0, 8)))


def rand_leaf(rng) -> str:
    k = rng.random()
    if k < 0.45:
        return rng.choice(NAMES)
    if k < 0.55:
        return rng.choice(["x.y", "m.n.o", "None", "True", "...", "False"])
    if k < 0.70:
        return rng.choice(["0", "7", "42", "1000000", "0xff", "1.5", "1e10", "2.5e-3", "3j", str(rng.getrandbits(70))])
    if k < 0.88:
        return repr(rand_str(rng))
    return repr(rand_str(rng).encode("utf-8", "replace")[:6])


def rand_expr(rng, depth: int) -> str:
    if depth <= 0 or rng.random() < 0.18:
        return rand_leaf(rng)
    f = rng.choice(FORMS) if rng.random() < 0.6 else rng.choice(OP_FORMS)
    kids = []
    for _ in range(f.slots):
        k = rand_expr(rng, depth - 1)
        leafish = re.fullmatch(r"[A-Za-z_][A-Za-z_0-9.]*|\d+", k) is not None
        kids.append(paren(k, leafish))
    return f.build(kids)


# --------------------------------------------------------------------------- grammar stream (spec side vs CPython)

def d_flatten(d) -> str:
    k = d[0]
    J = ", ".join
    if k == "a":
        return d[1]
    if k == "g":
        return "(" + d_flatten(d[1]) + ")"
    if k == "U":
        return UN[d[1]] + d_flatten(d[2])
    if k == "B":
        sym = BIN[d[2]]
        return d_flatten(d[3]) + (" " + sym + " " if d[1] else sym) + d_flatten(d[4])
    if k == "L":
        return (" " + BOOL[d[1]] + " ").join(d_flatten(x) for x in d[2])
    if k == "C":
        return d_flatten(d[1]) + "".join(" " + CMP[o] + " " + d_flatten(x) for o, x in d[2])
    if k == "I":
        return d_flatten(d[1]) + " if " + d_flatten(d[2]) + " else " + d_flatten(d[3])
    if k == "tu":
        return "(" + J(d_flatten(x) for x in d[2]) + ("," if d[1] else "") + ")"
    if k == "ba":
        return J(d_flatten(x) for x in d[1])
    if k == "li":
        return "[" + J(d_flatten(x) for x in d[1]) + "]"
    if k == "sc":
        return "set([" + J(d_flatten(x) for x in d[1]) + "])"
    if k == "di":
        return "{" + J(("**" + d_flatten(v)) if kk is None else (d_flatten(kk) + ": " + d_flatten(v)) for kk, v in d[1]) + "}"
    if k == "ca":
        parts = [d_flatten(x) for x in d[2]] + [("**" if n is None else n + "=") + d_flatten(v) for n, v in d[3]]
        return d_flatten(d[1]) + "(" + J(parts) + ")"
    if k == "su":
        return d_flatten(d[1]) + "[" + d_flatten(d[2]) + "]"
    if k == "st":
        return "*" + d_flatten(d[1])
    raise AssertionError(d)


def d_tokens(d) -> List[str]:
    k = d[0]
    many = lambda xs: [str(len(xs))] + [t for x in xs for t in d_tokens(x)]
    if k == "a":
        return ["a", enc(d[1])]
    if k == "g":
        return ["g"] + d_tokens(d[1])
    if k == "U":
        return ["U", d[1]] + d_tokens(d[2])
    if k == "B":
        return ["B", "1" if d[1] else "0", d[2]] + d_tokens(d[3]) + d_tokens(d[4])
    if k == "L":
        return ["L", d[1]] + many(d[2])
    if k == "C":
        return ["C"] + d_tokens(d[1]) + [str(len(d[2]))] + [t for o, x in d[2] for t in [o] + d_tokens(x)]
    if k == "I":
        return ["I"] + d_tokens(d[1]) + d_tokens(d[2]) + d_tokens(d[3])
    if k == "tu":
        return ["tu", "1" if d[1] else "0"] + many(d[2])
    if k in ("ba", "li", "sc"):
        return [k] + many(d[1])
    if k == "di":
        return ["di", str(len(d[1]))] + [t for kk, v in d[1] for t in (["ab"] if kk is None else d_tokens(kk)) + d_tokens(v)]
    if k == "ca":
        return ["ca"] + d_tokens(d[1]) + many(d[2]) + [str(len(d[3]))] + \
            [t for n, v in d[3] for t in [("-" if n is None else enc(n))] + d_tokens(v)]
    if k == "su":
        return ["su"] + d_tokens(d[1]) + d_tokens(d[2])
    if k == "st":
        return ["st"] + d_tokens(d[1])
    raise AssertionError(d)


def ast_to_doc(n: ast.AST):
    """CPython's tree in the normal form `parseDoc` returns (set([...]) is the set spelling)"""
    r = ast_to_doc
    if isinstance(n, ast.Name):
        return ("a", n.id)
    if isinstance(n, ast.Constant):
        return ("a", "None" if n.value is None else repr(n.value))
    if isinstance(n, ast.UnaryOp):
        return ("U", OPN[type(n.op)], r(n.operand))
    if isinstance(n, ast.BinOp):
        return ("B", False, OPN[type(n.op)], r(n.left), r(n.right))
    if isinstance(n, ast.BoolOp):
        return ("L", OPN[type(n.op)], [r(v) for v in n.values])
    if isinstance(n, ast.Compare):
        return ("C", r(n.left), [(OPN[type(o)], r(c)) for o, c in zip(n.ops, n.comparators)])
    if isinstance(n, ast.IfExp):
        return ("I", r(n.body), r(n.test), r(n.orelse))
    if isinstance(n, ast.Tuple):
        return ("tu", False, [r(v) for v in n.elts])
    if isinstance(n, ast.List):
        return ("li", [r(v) for v in n.elts])
    if isinstance(n, ast.Dict):
        return ("di", [(None if k is None else r(k), r(v)) for k, v in zip(n.keys, n.values)])
    if isinstance(n, ast.Call):
        if isinstance(n.func, ast.Name) and n.func.id == "set" and len(n.args) == 1 and not n.keywords \
                and isinstance(n.args[0], ast.List):
            return ("sc", [r(v) for v in n.args[0].elts])
        return ("ca", r(n.func), [r(v) for v in n.args], [(k.arg, r(k.value)) for k in n.keywords])
    if isinstance(n, ast.Subscript):
        return ("su", r(n.value), r(n.slice))
    if isinstance(n, ast.Starred):
        return ("st", r(n.value))
    raise Skip(type(n).__name__)


def d_erase(d):
    """the tree a concrete syntax tree stands for once its parentheses are forgotten"""
    k = d[0]
    e = d_erase
    if k == "a":
        return d
    if k == "g":
        return e(d[1])
    if k == "U":
        return ("U", d[1], e(d[2]))
    if k == "B":
        return ("B", False, d[2], e(d[3]), e(d[4]))
    if k == "L":
        return ("L", d[1], [e(x) for x in d[2]])
    if k == "C":
        return ("C", e(d[1]), [(o, e(x)) for o, x in d[2]])
    if k == "I":
        return ("I", e(d[1]), e(d[2]), e(d[3]))
    if k == "tu":
        if len(d[2]) == 1 and not d[1]:
            return e(d[2][0])
        return ("tu", False, [e(x) for x in d[2]])
    if k == "ba":
        if len(d[1]) == 1 and d[1][0][0] != "st":
            return e(d[1][0])
        return ("tu", False, [e(x) for x in d[1]])
    if k in ("li", "sc"):
        return (k, [e(x) for x in d[1]])
    if k == "di":
        return ("di", [(None if kk is None else e(kk), e(v)) for kk, v in d[1]])
    if k == "ca":
        return ("ca", e(d[1]), [e(x) for x in d[2]], [(n, e(v)) for n, v in d[3]])
    if k == "su":
        idx = d[2]
        return ("su", e(d[1]), ("tu", False, [e(idx)]) if idx[0] == "st" else e(idx))
    if k == "st":
        return ("st", e(d[1]))
    raise AssertionError(d)


def rand_doc(rng, depth: int, ctx_kind: str = "expr"):
    """random concrete syntax tree; parentheses are placed at random, so many spellings do not
    group the way the tree suggests, and some are not expressions at all"""
    A = lambda: ("a", rng.choice(["a", "b", "c", "d", "e"]))
    if depth <= 0 or rng.random() < 0.2:
        return A()
    sub = lambda: rand_doc(rng, depth - 1)
    k = rng.random()
    if k < 0.14:
        return ("g", sub())
    if k < 0.26:
        return ("U", rng.choice(list(UN)), sub())
    if k < 0.50:
        return ("B", rng.random() < 0.3, rng.choice(list(BIN)), sub(), sub())
    if k < 0.58:
        return ("L", rng.choice(list(BOOL)), [sub() for _ in range(rng.choice([1, 2, 2, 3]))])
    if k < 0.65:
        return ("C", sub(), [(rng.choice(list(CMP)), sub()) for _ in range(rng.choice([1, 1, 2]))])
    if k < 0.70:
        return ("I", sub(), sub(), sub())
    star = lambda: ("st", sub()) if rng.random() < 0.2 else sub()
    if k < 0.77:
        n = rng.choice([0, 1, 1, 2, 3])
        return ("tu", rng.random() < 0.4, [star() for _ in range(n)])
    if k < 0.81:
        return ("li", [star() for _ in range(rng.choice([0, 1, 2]))])
    if k < 0.84:
        return ("sc", [star() for _ in range(rng.choice([1, 2]))])
    if k < 0.88:
        return ("di", [((None if rng.random() < 0.3 else sub()), sub()) for _ in range(rng.choice([0, 1, 2]))])
    if k < 0.93:
        return ("ca", sub(), [star() for _ in range(rng.choice([0, 1, 2]))],
                [((None if rng.random() < 0.3 else rng.choice(["k", "w"])), sub()) for _ in range(rng.choice([0, 0, 1, 2]))])
    if k < 0.98:
        idx = ("ba", [star() for _ in range(rng.choice([0, 1, 2, 3]))]) if rng.random() < 0.5 else star()
        return ("su", sub(), idx)
    return ("st", sub())


def exhaustive_docs() -> Iterable[Any]:
    """every (parent form, operand position, child form), the child bare and in parentheses"""
    x, y, z, w = ("a", "x"), ("a", "y"), ("a", "z"), ("a", "w")
    kids = [("U", o, x) for o in UN] + [("B", False, o, x, y) for o in BIN] + [("L", o, [x, y]) for o in BOOL] + \
           [("C", x, [(o, y)]) for o in CMP] + [("I", x, y, z), ("tu", False, [x, y]), ("tu", False, [x]),
                                                ("tu", True, [x]), ("tu", False, []), ("st", x), x,
                                                ("ca", x, [y], []), ("su", x, y), ("li", [x]), ("di", [(x, y)])]
    for c0 in kids:
        for c in (c0, ("g", c0)):
            for o in UN:
                yield ("U", o, c)
            for o in BIN:
                for sp in (False, True):
                    yield ("B", sp, o, c, w)
                    yield ("B", sp, o, w, c)
            for o in BOOL:
                yield ("L", o, [c, w])
                yield ("L", o, [w, c])
                yield ("L", o, [w, c, w])
            for o in ("Lt", "IsNot", "In"):
                yield ("C", c, [(o, w)])
                yield ("C", w, [(o, c)])
            yield ("I", c, w, w)
            yield ("I", w, c, w)
            yield ("I", w, w, c)
            yield ("tu", False, [c])
            yield ("tu", True, [c])
            yield ("tu", False, [c, w])
            yield ("li", [c])
            yield ("sc", [c])
            yield ("di", [(c, w)])
            yield ("di", [(w, c)])
            yield ("di", [(None, c)])
            yield ("ca", c, [w], [])
            yield ("ca", w, [c], [])
            yield ("ca", w, [], [("k", c)])
            yield ("ca", w, [], [(None, c)])
            yield ("su", c, w)
            yield ("su", w, c)
            yield ("su", w, ("ba", [c]))
            yield ("su", w, ("ba", [c, w]))
            yield ("su", w, ("ba", []))
            yield ("st", c)
            yield ("li", [("st", c)])
            yield c


def grammar_stream(ctx: Ctx) -> None:
    reqs, impls, pay = [], [], []
    docs = list(exhaustive_docs())
    n = 2500 if ctx.quick else 150000
    docs += [rand_doc(ctx.rng, ctx.rng.randint(1, 4)) for _ in range(n)]
    seen = set()
    for d in docs:
        text = d_flatten(d)
        if text in seen and len(text) > 3:
            pass
        seen.add(text)
        req = "pyval parse " + " ".join(d_tokens(d))
        # the spelling reads as the tree it stands for  <=>  CPython parses it to exactly that tree
        try:
            got = ast_to_doc(ast.parse(text, mode="eval").body)
            if got == d_erase(d):
                ans = "ok " + enc(text) + " " + " ".join(d_tokens(got))
                ctx.count("grammar:cpython-same-tree")
            else:
                ans = "none " + enc(text)
                ctx.count("grammar:cpython-other-tree")
        except SyntaxError:
            ans = "none " + enc(text)
            ctx.count("grammar:cpython-rejects")
        except Skip:
            continue
        reqs.append(req)
        impls.append(ans)
        pay.append({"doc": d, "text": text})
        ctx.case("G|" + req, False, None)
        ctx.count("stream:grammar")
    ctx.compare("pyval-grammar-vs-cpython", reqs, impls, pay)


# --------------------------------------------------------------------------- pipeline stream (glue)

def pipeline_stream(ctx: Ctx) -> None:
    """the same expressions where pydoctor shows them: a constant's value (colorize_pyval with the
    configured line length / line count), a parameter default (_ValueFormatter), a decorator and a base
    class (colorize_inline_pyval on the node inside the module tree, whose parent is a statement)"""
    from pydoctor import model
    from pydoctor.epydoc.markup._pyval_repr import colorize_pyval, colorize_inline_pyval
    from pydoctor.node2stan import gettext
    n = 100 if ctx.quick else 2500
    reqs, impls, pay = [], [], []

    def take(node_in_tree: ast.AST, src: str, r, cfg) -> None:
        ans = "ok %d %s" % (1 if r.is_complete else 0, enc("".join(gettext(r.to_node()))))
        tree2 = ast.parse(src, mode="eval").body
        try:
            toks = etoks(tree2)
        except Skip:
            toks = None
        if toks is not None:
            reqs.append("pyval render %d %d %d %s" % (cfg[0], cfg[1], 1 if cfg[2] else 0, " ".join(toks)))
            impls.append(ans)
            pay.append({"source": src, "linelen": cfg[0], "maxlines": cfg[1], "linebreakok": cfg[2], "where": "pipeline"})
        ctx.case("P|%s|%r" % (src, cfg), nontrivial(tree2), None)
        ctx.count("stream:pipeline")
        oracle(ctx, src, tree2, ans, r, cfg)

    for _ in range(n):
        e1, e2, e3, e4 = (rand_expr(ctx.rng, ctx.rng.randint(1, 3)) for _ in range(4))
        src = ("X = %s\n\ndef deco(*a): return lambda f: f\n\n@deco(%s)\ndef f(p=%s):\n    pass\n\n"
               "class Base: pass\n\nclass C(Base[%s]):\n    pass\n") % (e1, e2, e3, e4)
        try:
            ast.parse(src)
        except SyntaxError:
            ctx.count("pipeline:unparsable-generated")
            continue
        linelen = ctx.rng.choice([0, 20, 40, 80])
        maxlines = ctx.rng.choice([0, 1, 3, 7])
        try:
            system = model.System()
            system.options.pyvalreprlinelen = linelen
            system.options.pyvalreprmaxlines = maxlines
            builder = system.systemBuilder(system)
            builder.addModuleString(src, "m")
            builder.buildModules()
            mod = system.allobjects["m"]
            x, f, c = mod.contents.get("X"), mod.contents["f"], mod.contents["C"]
            got = []
            if x is not None and getattr(x, "value", None) is not None:
                got.append((x.value, e1, colorize_pyval(x.value, linelen=system.options.pyvalreprlinelen,
                                                       maxlines=system.options.pyvalreprmaxlines),
                            (linelen, maxlines, True)))
            else:
                ctx.count("pipeline:X-is-an-alias-not-an-attribute")
            got += [
                (None, e3, f.signature.parameters["p"].default._colorized, (0, 1, False)),
                (f.decorators[0], "deco(%s)" % e2, colorize_inline_pyval(f.decorators[0]), (0, 1, False)),
                (c.rawbases[0][1], "Base[%s]" % e4, colorize_inline_pyval(c.rawbases[0][1]), (0, 1, False)),
            ]
        except Exception as ex:
            sig = "leaf:huge-int-ValueError" if isinstance(ex, ValueError) and "digits" in str(ex) else \
                "pipeline-crash:" + type(ex).__name__
            ctx.fail(sig, {"module": src}, f"building / colorizing raised {type(ex).__name__}: {str(ex)[:80]}")
            continue
        for node, esrc, r, cfg in got:
            take(node, esrc, r, cfg)
    ctx.compare("pyval-pipeline", reqs, impls, pay)


# --------------------------------------------------------------------------- unstring stream (string annotations)

_ALIASES: Dict[str, str] = {}      # local name -> typing name, set by the streams whose modules import aliases


def _is_typing(v: ast.AST, name: str) -> bool:
    """spelled <name>, <anything>.<name>, or a local alias the module imported from typing"""
    if isinstance(v, ast.Name):
        return v.id == name or _ALIASES.get(v.id) == name
    return isinstance(v, ast.Attribute) and v.attr == name


def _is_literal(v: ast.AST) -> bool:
    return _is_typing(v, "Literal")


def unstring_expected(node: ast.expr) -> ast.expr:
    """The documented unquoting of string annotations, written independently of astutils: every str
    constant is replaced by the expression it spells (recursively), except the arguments of
    Literal[...] and the metadata of Annotated[T, ...] (values, they stay strings)."""
    class T(ast.NodeTransformer):
        def visit_Subscript(self, n: ast.Subscript) -> ast.AST:
            n.value = self.visit(n.value)
            if _is_literal(n.value):
                return n
            if _is_typing(n.value, "Annotated") and isinstance(n.slice, ast.Tuple) and n.slice.elts:
                n.slice.elts[0] = self.visit(n.slice.elts[0])
                return n
            n.slice = self.visit(n.slice)
            return n

        def visit_Constant(self, n: ast.Constant) -> ast.AST:
            if isinstance(n.value, str):
                return self.visit(ast.parse(n.value, mode="eval").body)
            return n
    return T().visit(node)


class _Mark(ast.expr):
    """a node the colourizer reaches without a parent link (`Expr.unlinked` in the model)"""
    _fields = ("inner",)


def _splice(n: ast.AST, relinked: bool) -> ast.AST:
    """unquote, wrapping in _Mark the root of every parsed string that has no re-linked ancestor: a
    parsed string or a Subscript above it (unstring_annotation re-builds every Subscript node, and
    the colourizer re-links the whole sub-tree of the first parent-less node it meets)"""
    if isinstance(n, ast.Constant) and isinstance(n.value, str):
        inner = _splice(ast.parse(n.value, mode="eval").body, True)
        if relinked:
            return inner
        m = _Mark()
        m.inner = inner
        return m
    if isinstance(n, ast.Subscript):
        # the re-built (parent-less) Subscript re-links everything below it, value and slice
        n.value = _splice(n.value, True)
        if _is_literal(n.value):
            return n
        if _is_typing(n.value, "Annotated") and isinstance(n.slice, ast.Tuple) and n.slice.elts:
            n.slice.elts[0] = _splice(n.slice.elts[0], True)
            return n
        n.slice = _splice(n.slice, True)
        return n
    for f, val in ast.iter_fields(n):
        if isinstance(val, list):
            setattr(n, f, [_splice(x, relinked) if isinstance(x, ast.AST) else x for x in val])
        elif isinstance(val, ast.AST):
            setattr(n, f, _splice(val, relinked))
    return n


def unstring_tokens(node: ast.expr) -> List[str]:
    """request tokens of the annotation as the colourizer meets it"""
    def rec(n: ast.AST) -> List[str]:
        if isinstance(n, _Mark):
            return ["ul"] + rec(n.inner)
        # natively coloured forms with this recursion; anything else must be marker-free
        if isinstance(n, ast.UnaryOp):
            return ["U", OPN[type(n.op)]] + rec(n.operand)
        if isinstance(n, ast.BinOp):
            return ["B", OPN[type(n.op)]] + rec(n.left) + rec(n.right)
        if isinstance(n, ast.BoolOp):
            return ["L", OPN[type(n.op)], str(len(n.values))] + [t for v in n.values for t in rec(v)]
        if isinstance(n, ast.List):
            return ["li", str(len(n.elts))] + [t for v in n.elts for t in rec(v)]
        if isinstance(n, ast.Tuple):
            return ["tu", str(len(n.elts))] + [t for v in n.elts for t in rec(v)]
        if isinstance(n, ast.Subscript):
            return ["su"] + rec(n.value) + rec(n.slice)
        if isinstance(n, ast.Call):
            out = ["ca"] + rec(n.func) + [str(len(n.args))] + [t for v in n.args for t in rec(v)]
            out.append(str(len(n.keywords)))
            for kw in n.keywords:
                out += [enc(kw.arg) if kw.arg is not None else "-"] + rec(kw.value)
            return out
        if isinstance(n, ast.Starred):
            return ["st"] + rec(n.value)
        if any(isinstance(x, _Mark) for x in ast.walk(n)):
            raise Skip("marker inside a delegated form")
        return etoks(n)
    # since a1c047d unstring_annotation re-links the whole annotation: no node is reached parent-less
    return rec(_splice(node, True))


UNSTRING_WRAPS = ["{0}", "Optional[{0}]", "List[{0}] | None", "Dict[str, {0}]", "Callable[[{0}], x]", "f({0})",
                  "({0}, x)", "[{0}]", "Literal[{0}]", "-{0}", "x & {0}", "{0} | x", "not {0}", "x or {0}",
                  "X[{0}] & y", "-{0}[k]",
                  # Literal through every spelling accepted today: its arguments are values, they stay quoted
                  "typing.Literal[{0}]", "typing_extensions.Literal[{0}]", "t.Literal[{0}]", "te.Literal[{0}, 'w']",
                  "Optional[t.Literal[{0}, 'c']]", "Literal[{0}] | None", "x.y.Literal[{0}]",
                  # Annotated[T, metadata...]: T is unquoted, the metadata are values
                  "Annotated[{0}, 'meta data']", "t.Annotated[int, {0}]", "Annotated[{0}, {0}]", "Optional[Annotated[{0}, 'x y', 3]]"]
UNSTRING_LITS = ['"a | b"', '"Foo"', '"a or b"', '"-a"', '"List[\'a | b\']"', '"a + b" * "c - d"', '"x[a, b]"',
                 '"a if b else c"', '"(a, b)"', '"\'nested | s\' & z"', '"a < b"', '"r"', '"a b"', '"r+"']


def unstring_stream(ctx: Ctx, only: Optional[List[str]] = None, stream: str = "unstring") -> None:
    """string annotations: a string-literal sub-annotation spelling an operator expression in every
    operand slot of every operator (and in the usual typing wrappers); displayed through the real
    unstring_annotation + colorize_inline_pyval (parent links as in a built module);
    oracle: the text re-parsed by CPython == the source after the documented unquoting."""
    from pydoctor import astutils, model
    from pydoctor.epydoc.markup._pyval_repr import colorize_inline_pyval
    from pydoctor.node2stan import gettext
    system = model.System()
    mod = system.Module(system, "m")
    native = [f for f in OP_FORMS if f.cat in ("unary", "binary", "bool")]
    inner_forms = native + [f for f in OP_FORMS if f.name in ("C:Lt", "C:NotIn", "I")]
    anns: List[str] = []
    for outer in native:
        for i in range(outer.slots):
            for inner in inner_forms:
                names = leaf_names()
                istr = repr(depth1(inner, names))
                anns.append(outer.build([istr if j == i else next(names) for j in range(outer.slots)]))
    for w in UNSTRING_WRAPS:
        for lit in UNSTRING_LITS:
            anns.append(w.format(lit))
    pool = native + [fm for fm in FORMS if fm.name in ("sub", "sub:tuple2", "list2", "tuple2", "call:2")]

    def quoted(depth: int) -> str:
        if depth <= 0 or ctx.rng.random() < 0.25:
            return ctx.rng.choice(NAMES)
        f = ctx.rng.choice(pool)
        ks = []
        for _j in range(f.slots):
            k = quoted(depth - 1)
            k = k if re.fullmatch(r"\w+", k) else "(" + k + ")"
            if ctx.rng.random() < 0.3 and "'" not in k and '"' not in k:
                k = repr(k)
            ks.append(k)
        return f.build(ks)
    for _ in range(300 if ctx.quick else 5000):
        anns.append(quoted(ctx.rng.randint(2, 4)))
    if only is not None:
        anns = list(only)
    reqs, impls, pay = [], [], []
    seen = set()
    for ann in anns:
        if ann in seen:
            continue
        seen.add(ann)
        try:
            tree = ast.parse("x: %s = 1" % ann)
            expected = unstring_expected(ast.parse(ann, mode="eval").body)
            toks = unstring_tokens(ast.parse(ann, mode="eval").body)
        except (SyntaxError, Skip):
            ctx.count("unstring:skipped-generated")
            continue
        astutils.Parentage().visit(tree)                 # what astbuilder does for every module
        node = astutils.unstring_annotation(tree.body[0].annotation, mod)
        try:
            r = colorize_inline_pyval(node)
            text = "".join(gettext(r.to_node()))
            ans = "ok %d %s" % (1 if r.is_complete else 0, enc(text))
        except Exception as e:
            ctx.fail("crash:" + type(e).__name__, {"annotation": ann}, f"colorizing the annotation {ann!r} raised")
            continue
        reqs.append("pyval render 0 1 0 " + " ".join(toks))
        impls.append(ans)
        pay.append({"annotation": ann})
        nt = nontrivial(expected)
        ctx.case("U|" + ann, nt, None)
        ctx.count("stream:" + stream)
        if "Literal" in ann:
            ctx.count(stream + ":with-Literal")
        if not r.is_complete:
            continue
        v = annotation_verdict(ann, text)
        if v is not None:
            ctx.fail(v[0], {"annotation": ann}, v[1])
    ctx.compare("pyval-" + stream, reqs, impls, pay)


# --------------------------------------------------------------------------- annotation sequences (several uses of one string)

SEQ_STRINGS = ["Read | Write", "a + b", "x or y", "-n", "p if q else r", "m < n", "List[a | b]", "Foo"]
SEQ_CONTEXTS = ["Flags & {0}", "{0} & Flags", "{0}", "-{0}", "not {0}", "{0} and z", "z or {0}", "Optional[{0}]",
                "({0}, z)", "{0} ** 2", "2 ** {0}", "Literal[{0}]", "t.Literal[{0}, 'w']", "Lit[{0}, 'a b']",
                "Ann[{0}, 'meta data']", "Ann[int, {0}]"]
SEQ_HEADER = "import typing as t\nfrom typing import *\nfrom typing import Literal as Lit, Annotated as Ann\n"


def _count_strs(tree: ast.AST) -> int:
    return sum(1 for n in ast.walk(tree) if isinstance(n, ast.Constant) and isinstance(n.value, str))


def annotation_verdict(ann: str, text: str) -> Optional[Tuple[str, str]]:
    """None when the displayed `text` reads back as the annotation `ann` after the documented unquoting
    (Literal arguments stay strings); else (signature, explanation)"""
    expected = unstring_expected(ast.parse(ann, mode="eval").body)
    try:
        shown = ast.parse(text, mode="eval").body
    except SyntaxError:
        shown = None
    if shown is not None and norm_dump(shown) == norm_dump(expected):
        return None
    plain = ast.unparse(unstring_expected(ast.parse(ann, mode="eval").body))
    what = f"the annotation {ann} is displayed as {text!r}, which " + \
        ("is not an expression" if shown is None else f"reads back as {ast.unparse(shown)!r}, not {plain!r}")
    if shown is not None and _count_strs(shown) < _count_strs(expected):
        return "annotation:literal-arguments-unquoted", what
    v, _, _ = readback(plain, (0, 1, False))
    if v == "ok":
        return "annotation:unstringed-subtree-loses-parens", what
    return classify(plain, (0, 1, False), v), what


def sequence_stream(ctx: Ctx, only: Optional[List[Any]] = None, stream: str = "sequence") -> None:
    """The SAME string-annotation text used several times — in one function, across functions, across
    modules, as parameter / return / attribute annotation — in different operator contexts and orders,
    built from text by the real builder and rendered as the templates do (pages.format_signature,
    get_parsed_type) in documentation order and in reverse order.  Per use: the model renders a FRESH
    tree (Pyval.render_use_independent), and the oracle re-parses what the reader sees."""
    from pydoctor import model, epydoc2stan
    from pydoctor.templatewriter import pages
    from pydoctor.stanutils import flatten_text
    from pydoctor.node2stan import gettext
    reqs, impls, pay = [], [], []
    _ALIASES.clear()
    _ALIASES.update({"Lit": "Literal", "Ann": "Annotated"})      # what SEQ_HEADER imports
    plans: List[Tuple[str, List[List[str]]]] = []
    # every string under an operator first and bare later, and the reverse; then random sequences
    for s in SEQ_STRINGS:
        q = repr(s)
        for c in SEQ_CONTEXTS:
            if c == "{0}":
                continue
            plans.append((s, [[c.format(q)], [q]]))
            plans.append((s, [[q], [c.format(q)]]))
            plans.append((s, [[c.format(q), q]]))
            plans.append((s, [[q, c.format(q)]]))
    for _ in range(40 if ctx.quick else 600):
        s = ctx.rng.choice(SEQ_STRINGS)
        q = repr(s)
        plans.append((s, [[ctx.rng.choice(SEQ_CONTEXTS).format(q) for _a in range(ctx.rng.randint(1, 3))]
                          for _f in range(ctx.rng.randint(1, 3))]))
    if ctx.quick:
        nfix = 4 * (len(SEQ_CONTEXTS) - 1) * 2
        fixed = plans[:nfix]             # two strings exhaustively …
        rest = plans[nfix:]
        ctx.rng.shuffle(rest)
        plans = fixed + rest[:120]      # … and a sample of the others
    if only is not None:
        plans = list(only)
    for s, funcs in plans:
        # module m1: the functions; module m2: an attribute and a function using the same text again
        src1 = SEQ_HEADER
        uses: List[Tuple[str, str, str, str]] = []      # (module, object, slot, annotation source)
        for fi, anns in enumerate(funcs):
            params = ", ".join("p%d: %s" % (i, a) for i, a in enumerate(anns))
            src1 += "def f%d(%s) -> %s:\n    pass\n" % (fi, params, anns[-1])
            for i, a in enumerate(anns):
                uses.append(("m1", "f%d" % fi, "p%d" % i, a))
            uses.append(("m1", "f%d" % fi, "return", anns[-1]))
        src2 = SEQ_HEADER + "attr: %s = None\ndef g(p0: %s) -> None:\n    pass\n" % (
            repr(s), funcs[0][0])
        uses.append(("m2", "attr", "attr", repr(s)))
        uses.append(("m2", "g", "p0", funcs[0][0]))
        try:
            ast.parse(src1)
            ast.parse(src2)
        except SyntaxError:
            ctx.count("sequence:unparsable-generated")
            continue
        shown_by_order: Dict[str, Dict[Tuple[str, str, str], str]] = {}
        for order in ("doc", "reverse"):
            system = model.System()
            builder = system.systemBuilder(system)
            builder.addModuleString(src1, "m1")
            builder.addModuleString(src2, "m2")
            builder.buildModules()
            objs = [system.allobjects["m1"].contents["f%d" % fi] for fi in range(len(funcs))] + \
                   [system.allobjects["m2"].contents["attr"], system.allobjects["m2"].contents["g"]]
            if order == "reverse":
                objs = objs[::-1]
            sigs: Dict[str, str] = {}
            per_use: Dict[Tuple[str, str, str], str] = {}
            for o in objs:
                modname = o.parent.name
                if isinstance(o, model.Function):
                    sigs[modname + "." + o.name] = flatten_text(pages.format_signature(o))   # what the page shows
                    for pname, prm in o.signature.parameters.items():
                        per_use[(modname, o.name, pname)] = "".join(gettext(prm.annotation._colorized.to_node()))
                    ra = o.signature.return_annotation
                    if hasattr(ra, "_colorized"):
                        per_use[(modname, o.name, "return")] = "".join(gettext(ra._colorized.to_node()))
                else:
                    pt = epydoc2stan.get_parsed_type(o)
                    per_use[(modname, o.name, "attr")] = "".join(gettext(pt.to_node()))
            shown_by_order[order] = per_use
            for (m, oname, slot, ann) in uses:
                key = (m, oname, slot)
                if key not in per_use:
                    continue
                text = per_use[key]
                ctx.case("S|%s|%s|%s" % (order, src1, key), True, None)
                ctx.count("stream:" + stream)
                ctx.count(stream + ":slot:" + ("param" if slot.startswith("p") else slot))
                try:
                    toks = unstring_tokens(ast.parse(ann, mode="eval").body)
                    reqs.append("pyval render 0 1 0 " + " ".join(toks))
                    impls.append("ok 1 " + enc(text))
                    pay.append({"modules": {"m1": src1, "m2": src2}, "order": order, "use": list(key), "annotation": ann})
                except Skip:
                    pass
                v = annotation_verdict(ann, text)
                # the signature as the page shows it must carry the same annotation
                if v is None and slot.startswith("p") and (m + "." + oname) in sigs:
                    try:
                        fa = ast.parse("def f%s: pass" % sigs[m + "." + oname]).body[0].args
                        got = {a.arg: a.annotation for a in fa.posonlyargs + fa.args + fa.kwonlyargs}.get(slot)
                        exp = unstring_expected(ast.parse(ann, mode="eval").body)
                        if got is None or norm_dump(got) != norm_dump(exp):
                            v = ("annotation:signature-text-differs",
                                 f"the signature {sigs[m + '.' + oname]!r} does not carry the annotation {ann} of {slot}")
                    except SyntaxError:
                        v = ("annotation:signature-text-differs", f"the signature {sigs[m + '.' + oname]!r} is not a parameter list")
                if v is not None:
                    ctx.fail(v[0], {"modules": {"m1": src1, "m2": src2}, "order": order, "use": list(key), "annotation": ann},
                             f"[{order} order, {m}.{oname} {slot}] " + v[1])
        d, r = shown_by_order.get("doc", {}), shown_by_order.get("reverse", {})
        for key in d:
            if key in r and d[key] != r[key]:
                ctx.fail("annotation:display-depends-on-other-uses",
                         {"modules": {"m1": src1, "m2": src2}, "use": list(key)},
                         f"{key} is displayed as {d[key]!r} when rendered in documentation order and as {r[key]!r} in reverse order")
    _ALIASES.clear()
    ctx.compare("pyval-" + stream, reqs, impls, pay)


# --------------------------------------------------------------------------- augmented assignments (builder-made BinOp)

AUG_OPS = {"Add": "+=", "Sub": "-=", "Mult": "*=", "MatMult": "@=", "Div": "/=", "Mod": "%=", "Pow": "**=",
           "LShift": "<<=", "RShift": ">>=", "BitOr": "|=", "BitXor": "^=", "BitAnd": "&=", "FloorDiv": "//="}


def augassign_stream(ctx: Ctx, only: Optional[List[Any]] = None, stream: str = "augassign") -> None:
    """`X = first` followed by `X <op>= rhs` (and chains of them), at module and class level, through
    the real astbuilder: `_storeAttrValue` builds a synthetic BinOp(first, op, rhs) whose operands still
    belong to their statements.  `attr.value` as the builder stored it is rendered by the real colorizer
    (inline, and with the constant-value configuration); expected = the BinOp built independently."""
    from pydoctor import model
    from pydoctor.epydoc.markup._pyval_repr import colorize_pyval, colorize_inline_pyval
    from pydoctor.node2stan import gettext
    native = [f for f in OP_FORMS if f.cat in ("unary", "binary", "bool")]
    operands: List[str] = ["a", "100"] + [depth1(f, leaf_names()) for f in native] + \
        ["x < y", "p if q else r", "[u, v]", "(s, t)", "f(n)", "m[k]"]
    cases: List[List[Tuple[str, str]]] = []          # [(first, ''), (rhs, opname), (rhs2, opname2)…]
    for opn in AUG_OPS:
        for e1 in operands:
            for e2 in operands:
                cases.append([(e1, ""), (e2, opn)])
    if ctx.quick:
        keep = [c for c in cases if c[0][0] in ("a", "a + b", "a ** b", "-a", "a or b") or c[1][0] in ("a", "a - b", "a * b")]
        rest = [c for c in cases if c not in keep]
        ctx.rng.shuffle(rest)
        cases = keep + rest[:500]
    for _ in range(150 if ctx.quick else 4000):      # chains of several augmented assignments
        steps = [(ctx.rng.choice(operands), "")]
        for _k in range(ctx.rng.randint(2, 3)):
            steps.append((ctx.rng.choice(operands), ctx.rng.choice(list(AUG_OPS))))
        cases.append(steps)
    cases.append([("['x']", ""), ("['y', 'z']", "Add")])          # __all__-like lists
    cases.append([("['x']", ""), ("['y']", "Add"), ("other.names", "Add")])
    if only is not None:
        cases = list(only)
    reqs, impls, pay = [], [], []
    CH = 120
    for base in range(0, len(cases), CH):
        chunk = cases[base:base + CH]
        lines_mod: List[str] = []
        lines_cls: List[str] = ["class K:"]
        for i, steps in enumerate(chunk):
            for (e, opn) in steps:
                stmt = "V%d %s %s" % (i, AUG_OPS[opn] if opn else "=", e)
                lines_mod.append(stmt)
                lines_cls.append("    " + stmt)
        src = "\n".join(lines_mod + lines_cls) + "\n"
        system = model.System()
        b = system.systemBuilder(system)
        b.addModuleString(src, "m")
        b.buildModules()
        mod = system.allobjects["m"]
        for where, holder in (("module", mod), ("class", mod.contents["K"])):
            for i, steps in enumerate(chunk):
                attr = holder.contents.get("V%d" % i)
                if attr is None or getattr(attr, "value", None) is None:
                    ctx.count("augassign:not-an-attribute")
                    continue
                # expected: ((first op1 rhs1) op2 rhs2) …, built independently of the builder
                exp: ast.expr = ast.parse(steps[0][0], mode="eval").body
                for (e, opn) in steps[1:]:
                    exp = ast.BinOp(left=exp, op=getattr(ast, opn)(), right=ast.parse(e, mode="eval").body)
                esrc = ast.unparse(exp)
                for cfg in ((0, 1, False), (80, 7, True)):
                    try:
                        r = colorize_inline_pyval(attr.value) if cfg == (0, 1, False) else \
                            colorize_pyval(attr.value, linelen=cfg[0], maxlines=cfg[1])
                        ans = "ok %d %s" % (1 if r.is_complete else 0, enc("".join(gettext(r.to_node()))))
                    except Exception as ex:
                        r, ans = None, "raise " + type(ex).__name__
                    tree2 = ast.parse(esrc, mode="eval").body
                    try:
                        # the model gets the STATEMENTS and folds them with its transcription of _storeAttrValue
                        stoks = [t for (e, opn) in steps
                                 for t in [opn or "="] + etoks(ast.parse(e, mode="eval").body)]
                        reqs.append("pyval aug %d %d %d %d %s" % (cfg[0], cfg[1], 1 if cfg[2] else 0, len(steps),
                                                                " ".join(stoks)))
                        impls.append(ans)
                        pay.append({"statements": ["V %s %s" % (AUG_OPS[o] if o else "=", e) for e, o in steps],
                                    "where": where, "source": esrc, "linelen": cfg[0], "maxlines": cfg[1],
                                    "linebreakok": cfg[2]})
                    except Skip:
                        pass
                    ctx.case("A|%s|%r|%r" % (where, steps, cfg), nontrivial(tree2), None)
                    ctx.count("stream:" + stream)
                    ctx.count(stream + ":steps:%d" % (len(steps) - 1))
                    ctx.count(stream + ":op:" + steps[1][1])
                    known = {f["signature"] for f in ctx.failures}
                    oracle(ctx, esrc, tree2, ans, r, cfg)
                    for f in ctx.failures:            # a failure first seen here: say which statements made the value
                        if f["signature"] not in known:
                            f["input"] = dict(f["input"], where=where,
                                              statements=["V %s %s" % (AUG_OPS[o] if o else "=", e) for e, o in steps])
    ctx.compare("pyval-" + stream, reqs, impls, pay)


# --------------------------------------------------------------------------- regular expressions (oracle only)

RE_PATTERNS = [
    r"abc", r"a.b*c+d?", r"(a|b)", r"(?:a|b)+", r"(?P<n>x)\1", r"[a-z0-9_]", r"[^abc]", r"\d+\s\w\W\D\S", r"^a$",
    r"\Aa\Z", r"a{2,3}b{2,}c{,3}d{4}", r"a*?b+?c??", r"(?i)abc", r"(?ms)a.b", r"it's", r'say "x"', r"a\.b", r"\\",
    r"\t\n\r\f\v", r"[\]]", r"(?=a)(?!b)(?<=c)(?<!d)", r"\bword\B", r"a|b|c", r"(a)(b)\2", r"\x41\x00\x7f", "é中",
    r"[\d\s]", r"(?P<a>x)(?P=a)", r"(?x) a b # c", r"a{3}?", r"\.", r"x**", r"(", r"[a", r"(?i:a)b", r"(?-i:a)b",
    r"(?s:.)x", r"a++", r"(?>ab)c", r"", r" ", r"a{1}", r"a{0,1}", r"a{1,}", r"a{0,}", r"[a-]", r"[-a]", r"[\-]",
    r"[a\]b]", r"[\^a]", r"[^^]", r"\$\^\*\+\?\{\}\[\]\|\(\)", r"(a)|b", r"((a))", r"(a(b)c)", r"()", r"(?:)",
    r"a|", r"|a", r"(|a)", r"foo|foobar", r"(foo|foobar)", r"^ab$|^ac$", r"ab|ac", r"xa|xb|xc", r"abc|abd|x",
    r" (?!b)x| ", r"ab|a", r"(?:ab|a)c", r"a(b|bc)d", r"ab|cb",
    r"[a\-z]", r"[\w\-.]", r"[+\-*]", r"[a\-]", r"[\-a]", r"[a\-z0-9]", r"[^a\-z]", r"[\]\-a]", r"[\^\-\\]", r"[a\\-z]",
    # verbose mode: escaped / bracketed whitespace and '#'
    r"(?x)\#\d+", r"(?x)a[ ]b", r"(?x)a\ b", r"(?x:a\ b)c d", r"hello\ world", r"a\#b", r"a[ ]b", r"a[#]b", "a b", "a # b",
    r"(?x) \# [ ] \  # c", r"(?ix)a\ b", r"a(?x: b\ c )d", r"(?x)[ #]+",
    # a group reference followed by a literal digit
    r"(\d)\1[0]", r"(?P<d>\d)(?P=d)0", r"(a)\1\x31", r"(a)(b)\2[3]", r"(a)\1 0", r"(a)\1[0-9]", r"(a)\1b", r"(a)\1{2}0",
    r"[\\]", r"[\]]", r"[\^]", r"[a\^]", r"[]a]", r"[^]a]", r"[a-z\-]", r"[--a]", r"[+--]", r"[\--a]", r"[\d\-x]", r"a\-b", r"[\w.]+@[\w.]+", r"^\s*(\w+)\s*=\s*(.*?)\s*$", r"\d{1,3}(?:\.\d{1,3}){3}", r"[A-Fa-f0-9]{8}",
    r"(?u)\w", r"(?a)\w", r"(?L)x", r"\u00e9", r"\U0001f600", r"\N{DIGIT ONE}", r"\0", r"\07", r"\101", r"[\0-\x1f]",
    r"[\b]", r"\A\Z\b\B", r"a{2}{3}", r"(?P<x>a)(?(x)b|c)", r"(?#comment)a", r"\'", r"'", r"''", r"\"", "a\nb", "a\\\nb",
]
RE_FORMS = ["re.compile({p})", "re.compile({p}, re.I | re.M)", "re.compile({p}, flags=re.X)", "re.compile(pattern={p})",
            "re.compile(flags=re.S, pattern={p})", "[re.compile({p}), 1]", "f(re.compile({p}))", "re.compile({p}).match",
            "re.compile({p}, **options)", "re.compile({p}, re.I, **o)", "re.compile({p}, *args)",
            "re.compile({p}, re.VERBOSE)", "re.compile({p}, re.X | re.I)", "re.compile({p}, flags)"]


def _re_tree(pat, flags: int = 0):
    """CPython's own parse of a pattern under the given compile flags: (structure, flags) or the error class"""
    import re._parser as sp
    import warnings
    with warnings.catch_warnings():
        warnings.simplefilter("ignore")
        try:
            t = sp.parse(pat, flags)
            return (repr(t), t.state.flags)
        except Exception as e:
            return "error:" + type(e).__name__


def _re_flag_values(fa: Optional[ast.AST]) -> List[int]:
    """the compile flags a flags argument can stand for, as far as the READING of the pattern goes: its value
    when it is a constant expression over `re.<FLAG>`; both `0` and `re.VERBOSE` when it is not known (a
    variable): the displayed pattern must then mean the same either way"""
    if fa is None:
        return [0]
    try:
        v = eval(compile(ast.Expression(body=fa), "<flags>", "eval"), {"re": re, "__builtins__": {}})
        return [int(v)]
    except Exception:
        return [0, int(re.VERBOSE)]


def _re_signature(pat, verbose_arg: bool = False) -> str:
    """which feature of the source pattern the display lost (coarse)"""
    p = pat.decode("latin1") if isinstance(pat, bytes) else pat
    if re.search(r"(\\[1-9]|\(\?P=\w+\))(\d|\[\d\]|\\x3\d)", p):
        return "regex:groupref-glued-to-digit"
    if re.search(r"\\[ #]|\[[ #]+\]", p) and re.search(r"\(\?[a-zA-Z]*x", p):
        return "regex:verbose-inline-escapes-dropped"
    if re.search(r"\(\?(?:[aiLmsux]+(?:-[imsx]+)?|-[imsx]+):", p):
        return "regex:scoped-inline-flags-dropped"
    if re.search(r"\[.*\\-", p):
        return "regex:set-literal-hyphen-unescaped"
    if "|" in p:
        return "regex:alternation-common-prefix-ungrouped"
    return "regex:pattern-means-something-else"


def _re_calls(tree: ast.AST):
    return [n for n in ast.walk(tree) if isinstance(n, ast.Call) and dotted(n.func) == ["re", "compile"]]


def _re_bound(call: ast.Call):
    """(pattern node, flags node) of a re.compile call, by the signature of re.compile"""
    import inspect
    import re as _re
    sig = inspect.signature(_re.compile)
    try:
        b = sig.bind(*call.args, **{k.arg: k.value for k in call.keywords if k.arg})
    except TypeError:
        return None
    return b.arguments.get("pattern"), b.arguments.get("flags")


def regex_stream(ctx: Ctx, only: Optional[List[str]] = None, stream: str = "regex") -> None:
    """`re.compile(<constant pattern>[, flags])` goes through `_colorize_ast_re` / `_colorize_re_pattern`,
    which re-spells the pattern from pydoctor's vendored sre_parse36 tree.  Not modelled; direct oracle:
    the displayed text is an expression, it is the same expression outside the `re.compile` calls, every
    call binds the same flags expression, and its pattern constant is the source pattern or one that
    CPython's regex parser reads as the same regex (same parse tree, same inline flags)."""
    from pydoctor.epydoc.markup._pyval_repr import colorize_inline_pyval, colorize_pyval
    from pydoctor.node2stan import gettext
    pats: List[Any] = list(RE_PATTERNS)
    atoms = ["a", "b", ".", r"\d", r"\w", "[ab]", "[^a-c]", "0", "[1]", r"\ ", r"\#", "[ ]", "#", "(?x)", r"[a\-c]", r"[\w\-]", r"[\]a]", r"[\\a]", r"[\^]", "(a)", "(?:b)", "(?P<g>c)", "^", "$", r"\b", "|", "*", "+", "?",
             "{2}", "{1,3}", "*?", r"\.", r"\\", "'", '"', " ", "é", r"\n", "(?i)", "(?=a)", "(?!b)", r"\1", "-", "]", "x{,2}"]
    for _ in range(60 if ctx.quick else 6000):
        pats.append("".join(ctx.rng.choice(atoms) for _ in range(ctx.rng.randint(1, 6))))
    n_eq = n_same = 0
    srcs: List[str] = []
    for pat in pats:
        variants = [repr(pat)]
        if pat.isascii():
            variants.append(repr(pat.encode("ascii")))
        for pv in variants:
            for form in (RE_FORMS if pat in RE_PATTERNS else [RE_FORMS[0], RE_FORMS[1], RE_FORMS[-3]]):
                srcs.append(form.format(p=pv))
    if only is not None:
        srcs = list(only)
    if True:
        if True:
            for src in srcs:
                for cfg in ((0, 1, False), (80, 7, True)):
                    try:
                        tree = ast.parse(src, mode="eval").body
                    except SyntaxError:
                        continue
                    inp = {"source": src, "linelen": cfg[0], "maxlines": cfg[1], "linebreakok": cfg[2]}
                    ctx.case("R|%s|%r" % (src, cfg), False, None)
                    ctx.count("stream:" + stream)
                    try:
                        r = colorize_inline_pyval(tree) if cfg == (0, 1, False) else \
                            colorize_pyval(tree, linelen=cfg[0], maxlines=cfg[1])
                    except Exception as e:
                        ctx.fail("regex:crash:" + type(e).__name__, inp, f"colorizing {src!r} raised {type(e).__name__}: {e}")
                        continue
                    text, marker, _ = displayed_text(r)
                    if not r.is_complete:
                        if not marker:
                            ctx.fail("cut:not-marked", inp, "is_complete is False but there is no '...' marker")
                        ctx.count("regex:cut")
                        continue
                    try:
                        shown = ast.parse(text, mode="eval").body
                    except SyntaxError:
                        ctx.fail("regex:not-an-expression", inp, f"{src!r} is displayed as {text!r}, which is not a Python expression")
                        continue
                    want = ast.parse(src, mode="eval").body
                    wc, sc = _re_calls(want), _re_calls(shown)
                    bad = None
                    if len(wc) != len(sc):
                        bad = ("regex:call-lost", "the re.compile call is not shown as one")
                    else:
                        for a, b in zip(wc, sc):
                            ba, bb = _re_bound(a), _re_bound(b)
                            if ba is None or bb is None:
                                bad = ("regex:arguments", "the arguments do not bind")
                                break
                            (pa, fa), (pb, fb) = ba, bb
                            da = [norm_dump(k.value) for k in a.keywords if k.arg is None]
                            db = [norm_dump(k.value) for k in b.keywords if k.arg is None]
                            if da != db:
                                bad = ("regex:double-star-arguments-dropped", "the ** arguments of the call differ")
                                break
                            if (fa is None) != (fb is None) or (fa is not None and norm_dump(fa) != norm_dump(fb)):
                                bad = ("regex:flags-changed", "the flags argument differs")
                                break
                            if not (isinstance(pb, ast.Constant) and isinstance(pb.value, (str, bytes))):
                                bad = ("regex:pattern-not-a-constant", "the pattern is not shown as a constant")
                                break
                            if type(pa.value) is not type(pb.value):
                                bad = ("regex:pattern-type-changed", "str/bytes pattern type changed")
                                break
                            if pa.value == pb.value:
                                n_eq += 1
                            else:
                                lost = None
                                for fv in _re_flag_values(fa):
                                    ta, tb = _re_tree(pa.value, fv), _re_tree(pb.value, fv)
                                    if isinstance(ta, str):
                                        # the source pattern is not a regex for this interpreter (pydoctor's
                                        # vendored 3.6 parser is more lenient): nothing to preserve
                                        ctx.count("regex:source-pattern-invalid-for-cpython-respelled")
                                    elif ta != tb:    # (tb may be an error: the shown pattern is not a regex)
                                        lost = fv
                                        break
                                if lost is not None:
                                    t0 = _re_tree(pa.value, lost & ~re.VERBOSE)
                                    if lost & re.VERBOSE and (isinstance(t0, str) or t0 == _re_tree(pb.value, lost & ~re.VERBOSE)):
                                        # right without re.VERBOSE, wrong with it: the argument was not taken into account
                                        sig = "regex:verbose-flag-argument-ignored"
                                    else:
                                        sig = _re_signature(pa.value)
                                    bad = (sig, f"the pattern {pa.value!r} is shown as {pb.value!r}, which CPython's regex parser "
                                                f"reads differently (compile flags {lost})")
                                    break
                                n_same += 1
                            # neutralise the call for the comparison of the surrounding expression
                            for c in (a, b):
                                c.args, c.keywords = [], []
                        if bad is None and norm_dump(shown) != norm_dump(want):
                            bad = ("regex:context-changed", "the expression around the re.compile call differs")
                    if bad is not None:
                        ctx.fail(bad[0], inp, f"{src!r} is displayed as {text!r}: " + bad[1])
    ctx.count("regex:pattern-shown-verbatim", n_eq)
    ctx.count("regex:pattern-respelled-same-regex", n_same)


# --------------------------------------------------------------------------- regex colourizer, element level (modelled)

def re_element_stream(ctx: Ctx) -> None:
    """the two transcribed branches of `_colorize_re_tree` against the real method, called on tiny sre trees:
    [(LITERAL, c)] for every code point 0..0x2ff and samples above, inside / outside a set, with and without the
    verbose escapes; [(GROUPREF, n)] alone and followed by a LITERAL (digit, letter, blank, backslash)"""
    from pydoctor.epydoc.markup._pyval_repr import PyvalColorizer, _ColorizerState
    from pydoctor.epydoc import sre_constants36 as sc
    from pydoctor.node2stan import gettext

    def real(tree, in_set: bool, verbose: bool) -> str:
        col = PyvalColorizer(linelen=None, maxlines=1, linebreakok=False)
        col._re_keep_verbose_escapes = verbose
        st = _ColorizerState()
        st.linebreakok = False
        col._colorize_re_tree(tree, st, True, {}, in_set=in_set)
        return "".join(gettext(st.result))

    reqs, impls, pay = [], [], []
    cps = list(range(0, 0x300)) + [0x3a9, 0x2028, 0xd7ff, 0xe000, 0xfffd, 0xffff, 0x10000, 0x1f600, 0x10ffff] + \
        [ctx.rng.randrange(0x300, 0xd800) for _ in range(60)]
    for cp in cps:
        for ins in (False, True):
            for vb in (False, True):
                text = real([(sc.LITERAL, cp)], ins, vb)
                reqs.append("pyval relit %d %d %d" % (ins, vb, cp))
                impls.append("ok " + enc(text))
                pay.append({"element": "LITERAL", "codepoint": cp, "in_set": ins, "verbose": vb})
                ctx.case("RL|%d|%d|%d" % (cp, ins, vb), False, None)
                ctx.count("stream:re-elements")
                ctx.count("re-elements:LITERAL")
    nexts = [None] + [ord(c) for c in "0123456789a \\#-"]
    for n in list(range(1, 100)):
        for nx in nexts:
            tree = [(sc.GROUPREF, n)] + ([] if nx is None else [(sc.LITERAL, nx)])
            text = real(tree, False, False)
            # the model renders the reference; what follows is the literal's own text
            tail = "" if nx is None else real([(sc.LITERAL, nx)], False, False)
            assert text.endswith(tail)
            reqs.append("pyval reref %d %s" % (n, "-" if nx is None else nx))
            impls.append("ok " + enc(text[:len(text) - len(tail)] if tail else text))
            pay.append({"element": "GROUPREF", "group": n, "next": nx})
            ctx.case("RR|%d|%s" % (n, nx), False, None)
            ctx.count("stream:re-elements")
            ctx.count("re-elements:GROUPREF")
    ctx.compare("pyval-re-elements", reqs, impls, pay)


# --------------------------------------------------------------------------- corpus: runs FIRST on every run

def corpus_stream(ctx: Ctx) -> None:
    """every past finding's input and every seeded change's needed shape (seeded/C15*, seeded/C14-r2-1,-3),
    deterministic, so that detection never depends on the seed"""
    inl, cv = (0, 1, False), (80, 7, True)
    b = Batch(ctx, "corpus")
    sources = [
        # findings (fixed and open)
        "a - (b - c)", "a / (b * c)", "a - (b + c)", "(a,)", "x[1,]", "f((1,))", "Tuple[()]", "(*a,)", "((a,),)",
        "1e999", "1e999j", "-1e999", "'\\x00'", "'a\\x00 b'", "'a\\x00\\nb'", 'b"it\'s"', "[b\"'\\nA\"]", HUGE_BAD, "x < " + HUGE_BAD,
        "v[(a, b):c]", "x[(a,):b]", "x[a:(b, c)]", "f\"{lambda: a}\"", "f\"{ {a} }\"", "{k: {**(a in b)} for i in z}",
        # seeded/C15-1: right operand of + or * of the same precedence level
        "2 * (7 // 2)", "a + (b - c)", "a + (b + c)", "A * (B // C)", "A * (B % C)", "A * (B @ C)", "a + (b - c) * d",
        # seeded/C15-r2-1: a tuple display that is itself subscripted
        "(a, b)[0]", "(1, 2)[0]", "table[(1, 2)[0], 3]", "f(p=(1, 2)[0])", "(a, b)[0][1]", "x[a, b]", "x[(a, b)]",
    ]
    for s in sources:
        b.add(s, inl)
        b.add(s, cv)
    # seeded/C15-2 and C15-r2-3: a breakable token starting on an exactly full line, at every small width
    wraps = ["1234567 + 'abcdef'", "'Hello, ' + 'world'", "'" + "x" * 76 + "' + name", "name_of_19_chars_ab + 12345",
             "name_of_19_chars_ab * 'text'", "[1, 'abc', name + 22]", "aaaa + 1234 + 'zz' * 3"]
    for s in wraps:
        for ll in list(range(1, 30)) + [78, 79, 80, 81]:
            for ml in (0, 2, 7):
                b.add(s, (ll, ml, True))
    b.flush()
    # a value nested too deeply for the recursive walk (0a8115c): not modelled (the Lean walk has no stack limit);
    # oracle only: it must come back complete and right, or visibly truncated - never raise
    for cfg in (inl, cv):
        deep = " + ".join(["a"] * 400)
        tree = ast.parse(deep, mode="eval").body
        ans, r = run_impl(tree, *cfg)
        ctx.case("D|%r" % (cfg,), True, None)
        ctx.count("corpus:deep-chain:" + ("raised" if r is None else "complete" if r.is_complete else "cut-and-marked"))
        oracle(ctx, deep, ast.parse(deep, mode="eval").body, ans, r, cfg)
    # string annotations (findings + seeded/C14-r2-3)
    unstring_stream(ctx, only=['"A | B" & C', 'C & "A | B"', '-"A + B"', 'not "A or B"', '"A or B" and C', '"Foo" | None',
                               'Optional["A | B"]', 't.Literal["r", "w"]', 'te.Literal["a | b"]', 'typing.Literal["a b", "c"]',
                               'Optional[t.Literal["a b", "c"]]', 'Literal["r+"] | None'], stream="corpus-unstring")
    # seeded/C14-r2-1: the same string under an operator first and bare later, and the reverse
    q = repr("Read | Write")
    sequence_stream(ctx, only=[("Read | Write", [["Flags & " + q], [q]]), ("Read | Write", [[q], ["Flags & " + q]]),
                               ("Read | Write", [["Flags & " + q, q]]), ("Read | Write", [[q, "Flags & " + q]]),
                               ("Read | Write", [["-" + q], ["Optional[%s]" % q], [q]])], stream="corpus-sequence")
    # regex findings
    regex_stream(ctx, only=["re.compile(r'(?x)\\#\\d+')", "re.compile(r'hello\\ world', re.VERBOSE)", "re.compile(r'(?x)a[ ]b')",
                            "re.compile('a b', re.X)", "re.compile(r'a\\ b', flags)",
                            "re.compile(r'(?P<d>\\d)(?P=d)0')", "re.compile(r'(\\d)\\1[0]')",
                            "re.compile('a', **options)", "re.compile('a', re.I, **o)", "re.compile('[a\\-z]')",
                            "re.compile('[\\w\\-.]')", "re.compile('[+\\-*]')",
                            # same regex, different spelling: these must PASS (criterion: CPython's parse tree)
                            "re.compile('(?P<n>x)(?P=n)')", "re.compile('a(?#comment)b')", "re.compile('ab|ac')",
                            "re.compile('(?i:a)b')", "re.compile('(?s-i:.)x', re.M)", "re.compile('foo|foobar')",
                            "re.compile('^ab$|^ac$')", "re.compile(b'(foo|foobar)', re.I)", "re.compile(pattern='a|b')",
                            "re.compile(' (?!b)x{,2}| ')"], stream="corpus-regex")
    # seeded/C15-r2-2: plain assignment then augmented assignment
    augassign_stream(ctx, only=[[("BASE + 1", ""), ("2", "Mult")], [("100", ""), ("a - b", "Sub")],
                                [("a + b", ""), ("2", "Mult")], [("a", ""), ("b", "Add")], [("100", ""), ("a * b", "Div")],
                                [("2", ""), ("a ** b", "Pow")], [("a or b", ""), ("c", "BitAnd")],
                                [("1", ""), ("2", "Add"), ("3", "Mult"), ("a - b", "Sub")],
                                [("['x']", ""), ("['y', 'z']", "Add")]], stream="corpus-augassign")


# --------------------------------------------------------------------------- run

def run(ctx: Ctx) -> None:
    import sys
    import warnings
    sys.setrecursionlimit(10000)
    warnings.simplefilter("ignore", SyntaxWarning)     # displayed text with stray backslashes is re-parsed
    # 0. the corpus of past failures and seeded shapes, first
    corpus_stream(ctx)
    # 1. exhaustive depth 2
    b = Batch(ctx, "depth2")
    for src in gen_depth2(ctx):
        b.add(src)
    b.flush()
    # 2. operator chains of depth 3
    b = Batch(ctx, "chain3")
    for src in gen_chain3(ctx):
        b.add(src)
    b.flush()
    ctx.exhaustive = True
    # 3. literal leaves
    b = Batch(ctx, "leaves")
    for kind, lit in LEAVES:
        for c in LEAF_CONTEXTS:
            src = c.format(lit)
            ctx.count("leaf-kind:" + kind)
            b.add(src)
            if c in ("{0}", "[{0}]", "{0} + x", "f(k={0})"):
                b.add(src, (80, 7, True))
    nstr = 250 if ctx.quick else 6000
    for _ in range(nstr):
        s = rand_str(ctx.rng)
        b.add(repr(s), (0, 1, False))
        b.add(repr(s), (ctx.rng.choice([0, 5, 80]), ctx.rng.choice([0, 1, 2, 7]), True))
        bs = bytes(ctx.rng.choice([0, 9, 10, 13, 34, 39, 92, 65, 66, 127, 128, 255]) for _ in range(ctx.rng.randint(0, 6)))
        b.add(repr(bs), (0, 1, False))
        b.add("[%r, %r]" % (s, bs), (ctx.rng.choice([0, 6, 80]), ctx.rng.choice([0, 2, 7]), True))
    b.flush()
    # 4. wrapping / truncation: all linelen 0..40 x maxlines 0..4
    b = Batch(ctx, "wrap")
    sample = WRAP_SAMPLE if not ctx.quick else WRAP_SAMPLE[:12]
    for src in sample:
        for ll in range(0, 41):
            for ml in range(0, 5):
                b.add(src, (ll, ml, True))
                ctx.count("wrap:linebreakok")
        for ll in (0, 3, 7, 12, 25):
            for ml in (1, 2):
                b.add(src, (ll, ml, False))      # summary-style configuration (tests only)
                ctx.count("wrap:no-linebreak")
    b.flush()
    # 5. random deeper trees
    b = Batch(ctx, "random")
    n = 1000 if ctx.quick else 60000
    for _ in range(n):
        src = rand_expr(ctx.rng, ctx.rng.randint(3, 5))
        if len(src) > 400:
            continue
        b.add(src)
        if ctx.rng.random() < 0.4:
            b.add(src, (ctx.rng.choice([0, 10, 20, 40, 80]), ctx.rng.choice([0, 1, 3, 7]), True))
    b.flush()
    # 6. the grammar reading used by the theorems, against CPython's parser
    grammar_stream(ctx)
    # 7. the expressions where pydoctor really shows them
    pipeline_stream(ctx)
    # 8. string annotations (unstring_annotation splices parsed sub-trees in)
    unstring_stream(ctx)
    # 9. the same string annotation used several times, rendered in the real order
    sequence_stream(ctx)
    # 10. values the builder assembles from several statements (augmented assignments)
    augassign_stream(ctx)
    # 11. re.compile(...) constants (regex colourizer; oracle only)
    regex_stream(ctx)
    # 12. the two transcribed branches of the regex colourizer against the real method
    re_element_stream(ctx)
    ctx.extra["forms"] = len(FORMS)


def replay(ctx: Ctx, obj) -> int:
    inp = obj.get("input") or obj.get("request") or {}
    if isinstance(inp, dict) and "modules" in inp:
        from pydoctor import model, epydoc2stan
        from pydoctor.templatewriter import pages
        from pydoctor.stanutils import flatten_text
        from pydoctor.node2stan import gettext
        m, oname, slot = inp["use"]
        bad = 0
        for order in ("doc", "reverse"):
            system = model.System()
            b = system.systemBuilder(system)
            for name, src in inp["modules"].items():
                b.addModuleString(src, name)
            b.buildModules()
            objs = [o for name in inp["modules"] for o in system.allobjects[name].contents.values()
                    if isinstance(o, (model.Function, model.Attribute))]
            for o in (objs if order == "doc" else objs[::-1]):
                if isinstance(o, model.Function):
                    flatten_text(pages.format_signature(o))
            o = system.allobjects[m].contents[oname]
            if slot == "attr":
                text = "".join(gettext(epydoc2stan.get_parsed_type(o).to_node()))
            elif slot == "return":
                text = "".join(gettext(o.signature.return_annotation._colorized.to_node()))
            else:
                text = "".join(gettext(o.signature.parameters[slot].annotation._colorized.to_node()))
            v = annotation_verdict(inp["annotation"], text) if "annotation" in inp else None
            print(f"{order:8s}: {m}.{oname} {slot}: {inp.get('annotation')} -> {text!r}  oracle:",
                  "holds" if v is None else v[0])
            bad += v is not None
        return 1 if bad else 0
    if isinstance(inp, dict) and "annotation" in inp:
        from pydoctor import astutils, model
        from pydoctor.epydoc.markup._pyval_repr import colorize_inline_pyval
        from pydoctor.node2stan import gettext
        ann = inp["annotation"]
        system = model.System()
        tree = ast.parse("x: %s = 1" % ann)
        astutils.Parentage().visit(tree)
        node = astutils.unstring_annotation(tree.body[0].annotation, system.Module(system, "m"))
        text = "".join(gettext(colorize_inline_pyval(node).to_node()))
        expected = unstring_expected(ast.parse(ann, mode="eval").body)
        print("annotation:", ann)
        print("impl      :", repr(text))
        try:
            req = "pyval render 0 1 0 " + " ".join(unstring_tokens(ast.parse(ann, mode="eval").body))
            print("model     :", repr(dec(ctx.driver.run([req])[0].split()[2])))
        except Exception as e:
            print("model     : unavailable:", e)
        try:
            ok = norm_dump(ast.parse(text, mode="eval").body) == norm_dump(expected)
        except SyntaxError:
            ok = False
        print("oracle    :", "property holds on this input" if ok else
              "annotation:unstringed-subtree-loses-parens / read-back differs from " + ast.unparse(expected))
        return 0 if ok else 1
    if isinstance(inp, dict) and "source" in inp:
        src = inp["source"]
        cfg = (inp.get("linelen", 0), inp.get("maxlines", 1), bool(inp.get("linebreakok", False)))
        tree = ast.parse(src, mode="eval").body
        tree2 = ast.parse(src, mode="eval").body
        ans, r = run_impl(tree, *cfg)
        print("source :", src, " cfg(linelen, maxlines, linebreakok) =", cfg)
        print("impl   :", ans, "" if r is None else repr(displayed_text(r)[0]))
        try:
            req = "pyval render %d %d %d %s" % (cfg[0], cfg[1], 1 if cfg[2] else 0, " ".join(etoks(tree2)))
            print("model  :", ctx.driver.run([req])[0])
        except Exception as e:
            print("model  : unavailable:", e)
        before = len(ctx.failures)
        oracle(ctx, src, tree2, ans, r, cfg)
        bad = ctx.failures[before:]
        print("oracle :", bad[0]["signature"] + " — " + bad[0]["what"] if bad else "property holds on this input")
        return 1 if bad else 0
    print(obj)
    return 0
