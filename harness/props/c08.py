"""C08 — any docstring in any format is rendered; markup errors degrade to plain text."""
from __future__ import annotations

import ast
import contextlib
import html as htmlmod
import io
import itertools
import re
import signal
from typing import Any, Dict, List, Optional, Tuple

from ..core import Ctx, REPO, enc

THEOREMS = [
    "Docstring.ensure_total", "Docstring.doc_total", "Docstring.summary_total", "Docstring.extract_total",
    "Docstring.toc_total_partial", "Docstring.total_partial", "Docstring.total_counterexample",
    "Docstring.base_get_summary_total",
    "Docstring.parse_fallback_full_text", "Docstring.ensure_fallback_full_text",
    "Docstring.render_fallback_full_text", "Docstring.unreported_parse_error_counterexample",
    "Docstring.render_failure_reported", "Docstring.render_failure_masked_counterexample",
    "Docstring.recovered_errors_reported",
    "Docstring.reported_once", "Docstring.second_call_silent", "Docstring.isolation",
    "Docstring.summary_fallback_touches_source",
    "Docstring.epytext_raises_iff_fatal",
]
PARTIAL = {
    "Docstring.toc_total_partial": "format_toc returns for every behaviour of the parameters EXCEPT: to_node of the object's "
        "parsed docstring raising something other than NotImplementedError, or build_table_of_content raising "
        "(get_toc is called outside safe_to_stan; Docstring.total_counterexample is the witness)",
    "Docstring.total_partial": "same exclusion, all five entry points together",
    "Docstring.parse_fallback_full_text": "the 'exactly one report group' half needs: the parser stored at least one error "
        "before raising ParseError (epytext does: epytext_raises_iff_fatal) and the object was not reported before",
    "Docstring.render_failure_reported": "needs: the object was not reported before in this section "
        "(render_failure_masked_counterexample: an earlier docutils warning hides the renderer failure from the log)",
}
RULE = ("fault stream: the real epydoc2stan/markup functions run over stub parsers / stub ParsedDocstrings realising every "
        "outcome of every parameter (parser x processtypes step x to_stan x to_node x summary walk x toc builder x field "
        "bodies) x 5 docformats x process-types x object kind (Module, Class, Function, Attribute) x first/second call, "
        "plus random multi-object op sequences (inherited docstrings, split fields, empty docstrings, module docformat "
        "overrides, unknown docformat); real stream: markup-fragment grammar for each format, mutated docstrings of "
        "/repo/pydoctor and /repo/docs, arbitrary Unicode incl. control characters, each under every docformat with "
        "process-types and object kind cycling (full product in the thorough tier); oracle-only stream: lone surrogates "
        "through the AST builder. Non-trivial = the parser or a renderer step fails/falls back (fault stream) / the real "
        "parser reports at least one error (real stream).")
ASSUMPTIONS = [
    "parameters are deterministic functions (a to_stan that raises once raises again); the _stan/_summary caches of "
    "ParsedDocstring are therefore not observable and not modelled",
    "parsers, to_stan, to_node raise only Exception subclasses (KeyboardInterrupt/SystemExit/MemoryError are not handled by "
    "parse_docstring/safe_to_stan and are outside the property); to_stan returns a Tag",
    "termination and exception behaviour INSIDE the epytext/docutils/napoleon parsers and twisted's flattener is not proved; "
    "it is exercised by the real stream with a per-case alarm",
    "no ParsedDocstring subclass in /repo overrides get_summary/get_toc (checked by introspection each run)",
    "objects have distinct full names (System.parse_errors is keyed by fullName())",
    "in format_docstring every field body is formatted once, in handler call order; the FieldHandler dispatch itself is C09's",
    "the docstring linker (switch_context, link_xref) does not raise outside to_stan",
    "real stream, model side: the parser composed with processtypes is ONE observed parameter (pt=0 is sent to the model); the "
    "processtypes composition itself is tied by the fault stream",
]
EXPLANATION = ("The wrapper logic around the parsers is modelled literally with the parsers/renderers as parameters; theorems hold "
               "for every behaviour of those parameters. Fault injection ties the model to the real wrappers on the whole finite "
               "outcome space; the real-parser stream checks the property itself (direct oracle) on generated docstrings.")

FMTS = {"epytext": "e", "restructuredtext": "r", "google": "g", "numpy": "n", "plaintext": "p"}
FMT_OF = {v: k for k, v in FMTS.items()}
FMT_OF["u"] = "nosuchformat"

SRC_M = '''
class B:
    def f(self, a, b=1):
        pass
    a = 1
def g(x: int) -> str:
    pass
v = 2
'''
SRC_N = '''
from m import B
class C(B):
    def f(self, a, b=1):
        pass
    a = 1
'''
NAMES = ["m", "m.B", "m.B.f", "m.B.a", "m.g", "m.v", "n", "n.C", "n.C.f", "n.C.a"]
PARENT = [None, 0, 1, 1, 0, 0, None, 6, 7, 7]
INHERITED = {8: [2], 9: [3]}
MODULE_OF = [0, 0, 0, 0, 0, 0, 6, 6, 6, 6]
KINDS = {0: "Module", 1: "Class", 2: "Function", 3: "Attribute"}


class Hang(BaseException):
    pass


def _alarm(signum, frame):
    raise Hang()


@contextlib.contextmanager
def time_limit(seconds: float):
    old = signal.signal(signal.SIGALRM, _alarm)
    signal.setitimer(signal.ITIMER_REAL, seconds)
    try:
        yield
    finally:
        signal.setitimer(signal.ITIMER_REAL, 0)
        signal.signal(signal.SIGALRM, old)


@contextlib.contextmanager
def quiet():
    buf = io.StringIO()
    with contextlib.redirect_stdout(buf), contextlib.redirect_stderr(buf):
        yield buf


# ------------------------------------------------------------------ the world: one System, reset per case

class World:
    def __init__(self) -> None:
        from pydoctor import model
        s = model.System()
        b = s.systemBuilder(s)
        b.addModuleString(SRC_M, "m")
        b.addModuleString(SRC_N, "n")
        with quiet():
            b.buildModules()
        self.system = s
        self.objs = [s.allobjects[n] for n in NAMES]
        self.ids = {n: i for i, n in enumerate(NAMES)}
        self.reports: List[Tuple[int, str, str, int]] = []
        self.field_log: List[Any] = []
        self.field_bodies: List[Any] = []
        self.spec: Dict[str, Any] = {}
        self.records: Dict[int, Any] = {}

    def oid(self, obj) -> int:
        return self.ids[obj.fullName()]

    def reset(self, sysfmt: str, pt: bool, td: int, modfmt: Dict[int, Optional[str]]) -> None:
        s = self.system
        s.options.docformat = FMT_OF.get(sysfmt, sysfmt)
        s.options.processtypes = bool(pt)
        s.options.sidebartocdepth = td
        s.parse_errors.clear()
        s.once_msgs.clear()
        s.violations = 0
        for i, o in enumerate(self.objs):
            o.docstring = None
            o.parsed_docstring = None
            o.parsed_summary = None
            o.parsed_type = None
            o.docstring_lineno = 0
        for mi in (0, 6):
            f = modfmt.get(mi)
            self.objs[mi].docformat = None if f is None else FMT_OF[f]
        self.reports = []
        self.records = {}


@contextlib.contextmanager
def instrument(w: World):
    """record Documentable.report and Field.format calls (both still run)"""
    from pydoctor import model, epydoc2stan
    real_report = model.Documentable.report
    real_format = epydoc2stan.Field.format

    def report(self, descr, section="parsing", lineno_offset=0, thresh=-1):
        w.reports.append((w.oid(self), descr, section, lineno_offset))
        return real_report(self, descr, section=section, lineno_offset=lineno_offset, thresh=thresh)

    def fmt(self):
        r = real_format(self)
        w.field_log.append(r)
        w.field_bodies.append(self.body)
        return r
    model.Documentable.report = report
    epydoc2stan.Field.format = fmt
    try:
        yield
    finally:
        model.Documentable.report = real_report
        epydoc2stan.Field.format = real_format


# ------------------------------------------------------------------ exceptions / tokens

def mkexc(tok: str) -> Exception:
    from pydoctor.epydoc.markup import ParseError
    if tok == "ni":
        return NotImplementedError()
    if tok[0] == "p":
        return ParseError("P" + tok[1:])
    return ValueError("E" + tok[1:])


def exc_token(e: BaseException) -> str:
    from pydoctor.epydoc.markup import ParseError
    if isinstance(e, ParseError):
        m = re.fullmatch(r"P(\d+)", e.descr())
        return "p" + m.group(1) if m else "p?"
    if isinstance(e, NotImplementedError):
        return "ni"
    if isinstance(e, AssertionError):
        return "as"
    m = re.fullmatch(r"E(\d+)", str(e)) if isinstance(e, ValueError) else None
    return "o" + m.group(1) if m else "?" + type(e).__name__


def descr_token_fault(d: str) -> str:
    m = re.fullmatch(r"M(\d+)", d)
    if m:
        return "m" + m.group(1)
    m = re.fullmatch(r"ValueError: E(\d+)", d)
    if m:
        return "xo" + m.group(1)
    m = re.fullmatch(r"ParseError: P(\d+)", d)
    if m:
        return "xp" + m.group(1)
    if d == "NotImplementedError: ":
        return "xni"
    return "other:" + d[:40].replace(" ", "_")


def flatten_safely(stan) -> Tuple[Optional[str], Optional[str]]:
    """(html, None) or (None, short error class); never lets twisted's tree dump escape"""
    from pydoctor.stanutils import flatten
    try:
        with quiet():
            return flatten(stan), None
    except Hang:
        raise
    except BaseException as e:  # FlattenerError carries the whole tree in its message
        inner = e.args[0] if e.args and isinstance(e.args[0], BaseException) else e
        return None, type(inner).__name__


def canon_stan(st, role: Optional[str] = None) -> str:
    from pydoctor import epydoc2stan
    from twisted.web.template import Tag
    if st is None:
        return "N"
    if st is epydoc2stan.BROKEN:
        return "broken"
    if isinstance(st, Tag):
        cls = st.attributes.get("class")
        kids = st.children
        if st.tagName == "p" and cls == "pre" and len(kids) == 1 and isinstance(kids[0], str):
            try:
                return "pre:" + enc(kids[0])
            except Exception:
                return "pre:?"
        if cls == "undocumented" and len(kids) >= 1 and isinstance(kids[0], str):
            t = kids[0]
            if st.tagName == "p":
                return {"Undocumented": "undoc", "Broken description": "broken"}.get(t, "p-undoc?")
            if st.tagName == "span":
                return {"Broken summary": "brokensum", "No summary": "nosum"}.get(t, "undocsum")
    h, err = flatten_safely(st)
    if h is None:
        return "unflattenable:" + str(err)
    m = re.search(r"STAN(\d+)", h)
    if m:
        return "o" + m.group(1)
    return role if role is not None else "real"


# ------------------------------------------------------------------ stubs (fault stream)

def default_pd(k: int) -> Dict[str, Any]:
    return {"S": "r%d" % k, "N": "r", "W": "n", "T": "e", "F": []}


def default_ty(k: int) -> Dict[str, Any]:
    return {"M": "r-", "S": "r%d" % (1000 + k)}


class FakeDoc:
    def __init__(self, pd) -> None:
        self.pd = pd

    def walk(self, visitor) -> None:
        wtok = self.pd.spec["W"]
        if wtok[0] == "x":
            raise mkexc(wtok[1:])
        if wtok[0] == "s":
            visitor.summary = make_stub(self.pd.w, int(wtok[1:]))


class _StubVisitor:
    summary = None


_STUBS: Dict[str, Any] = {}


def stub_classes():
    """built lazily: they subclass pydoctor classes"""
    if _STUBS:
        return _STUBS
    from pydoctor.epydoc.markup import ParsedDocstring, Field as MField
    from pydoctor.epydoc.markup import _types
    from twisted.web.template import tags

    class StubPD(ParsedDocstring):
        def __init__(self, w: World, k: int) -> None:
            self.w, self.k = w, k
            self.spec = w.spec.get("pd", {}).get(k) or default_pd(k)
            fields = [MField("rtype" if t else "warns", None, StubPD(w, bk), ln) for (t, bk, ln) in self.spec["F"]]
            ParsedDocstring.__init__(self, fields)

        @property
        def has_body(self) -> bool:
            return True

        def to_stan(self, linker):
            s = self.spec["S"]
            if s[0] == "x":
                raise mkexc(s[1:])
            return tags.p("STAN" + s[1:])

        def to_node(self):
            n = self.spec["N"]
            if n[0] == "x":
                raise mkexc(n[1:])
            return FakeDoc(self)

    class StubTyped(ParsedDocstring):
        FIELDS = _types.ParsedTypeDocstring.FIELDS

        def __init__(self, node, warns_on_unknown_tokens: bool = False, lineno: int = 0) -> None:
            ParsedDocstring.__init__(self, ())
            if not isinstance(node, FakeDoc):
                raise TypeError("stub ParsedTypeDocstring got a real node")
            self.k = node.pd.k
            self.spec = node.pd.w.spec.get("ty", {}).get(self.k) or default_ty(self.k)
            m = self.spec["M"]
            if m[0] == "x":
                raise mkexc(m[1:])
            self.warnings = [] if m[1:] == "-" else ["M" + x for x in m[1:].split(",")]

        @property
        def has_body(self) -> bool:
            return True

        def to_stan(self, linker):
            s = self.spec["S"]
            if s[0] == "x":
                raise mkexc(s[1:])
            return tags.p("STAN" + s[1:])

        def to_node(self):
            raise NotImplementedError()

    _STUBS.update(StubPD=StubPD, StubTyped=StubTyped)
    return _STUBS


def make_stub(w: World, k: int):
    return stub_classes()["StubPD"](w, k)


@contextlib.contextmanager
def fault_patches(w: World):
    from pydoctor import epydoc2stan
    from pydoctor.epydoc import markup
    from pydoctor.epydoc.markup import _types, plaintext, ParseError
    from docutils import nodes
    st = stub_classes()
    real_get = epydoc2stan.get_parser_by_name
    real_se = markup.SummaryExtractor
    real_toc = markup.build_table_of_content
    real_typed = _types.ParsedTypeDocstring

    class poison(nodes.General, nodes.Element):
        pass

    def get_parser(docformat, obj=None):
        if docformat not in FMTS:
            return real_get(docformat, obj)
        p = w.spec.get("par", {}).get((FMTS[docformat], w.oid(obj)))

        def parser(doc, errs):
            if p is None:
                return plaintext.ParsedPlaintextDocstring(doc)
            kind, arg, errlist = p
            for (n, ln, fatal) in errlist:
                errs.append(ParseError("M%d" % n, ln, bool(fatal)))
            if kind == "raise":
                raise mkexc(arg)
            return plaintext.ParsedPlaintextDocstring(doc) if arg == "plain" else make_stub(w, arg)
        return parser

    def summary_extractor(doc, *a, **kw):
        return _StubVisitor() if isinstance(doc, FakeDoc) else real_se(doc, *a, **kw)

    def build_toc(document, depth, level=0):
        if not isinstance(document, FakeDoc):
            return real_toc(document, depth=depth, level=level)
        t = document.pd.spec["T"]
        if t[0] == "x":
            raise mkexc(t[1:])
        if t == "e":
            return None
        k = int(t[1:])
        s = (w.spec.get("pd", {}).get(k) or default_pd(k))["S"]
        return [poison()] if s[0] == "x" else [nodes.paragraph("", "STAN" + s[1:])]

    epydoc2stan.get_parser_by_name = get_parser
    markup.SummaryExtractor = summary_extractor
    markup.build_table_of_content = build_toc
    _types.ParsedTypeDocstring = st["StubTyped"]
    try:
        yield
    finally:
        epydoc2stan.get_parser_by_name = real_get
        markup.SummaryExtractor = real_se
        markup.build_table_of_content = real_toc
        _types.ParsedTypeDocstring = real_typed


# ------------------------------------------------------------------ spec -> model request

def errs_tok(errs) -> str:
    return ";".join("%d/%s/%d" % (n, "n" if ln is None else ln, int(f)) for (n, ln, f) in errs) or "-"


def fields_tok(fs) -> str:
    return ",".join("%d/%d/%d" % (int(t), k, ln) for (t, k, ln) in fs) or "-"


def request_of(spec: Dict[str, Any]) -> str:
    t = ["docstring", "run", "pt=%d" % int(spec["pt"]), "td=%d" % spec["td"], "sys=" + spec["sys"]]
    for k, p in sorted(spec.get("pd", {}).items()):
        t += ["pd", str(k), p["S"], p["N"], p["W"], p["T"], fields_tok(p["F"])]
    for k, p in sorted(spec.get("ty", {}).items()):
        t += ["ty", str(k), p["M"], p["S"]]
    if "plain" in spec:
        t += ["plain"] + list(spec["plain"])
    for text, p in spec.get("plainfor", {}).items():
        t += ["plainfor", enc(text)] + list(p)
    for i in range(len(NAMES)):
        o = spec["objs"].get(i, {})
        doc = o.get("doc")
        parsed = o.get("parsed")
        mf = spec.get("modfmt", {}).get(MODULE_OF[i])
        t += ["obj", str(i), "-" if PARENT[i] is None else str(PARENT[i]),
              ",".join(map(str, INHERITED.get(i, []))) or "-", mf or "-",
              "N" if doc is None else enc(doc),
              "N" if parsed is None else "user:%d" % parsed]
    for (f, i), (kind, arg, errs) in sorted(spec.get("par", {}).items()):
        if kind == "ret":
            t += ["par", f, str(i), "ret", "plain" if arg == "plain" else "user:%d" % arg, errs_tok(errs)]
        else:
            t += ["par", f, str(i), "raise", arg, errs_tok(errs)]
    t.append("ops")
    t += ["%s:%d" % (op, i) for op, i in spec["ops"]]
    return " ".join(t)


# ------------------------------------------------------------------ running the real entry points

def run_ops(w: World, ops, stan_role=None, limit: float = 20.0):
    """returns (out tokens, trace); trace entries: op, obj, raised, stan, flat_err, nreports"""
    from pydoctor import epydoc2stan as E
    outs: List[str] = []
    trace: List[Dict[str, Any]] = []
    for op, i in ops:
        o = w.objs[i]
        w.field_log = []
        w.field_bodies = []
        ent: Dict[str, Any] = {"op": op, "obj": i, "raised": None, "stan": None, "flat_err": None, "hang": False}
        role = (lambda r: stan_role(i, r)) if stan_role else (lambda r: None)
        try:
            with time_limit(limit), quiet():
                if op == "e":
                    r = E.ensure_parsed_docstring(o)
                    tok = "src=" + ("N" if r is None else str(w.oid(r)))
                elif op == "d":
                    r = E.format_docstring(o)
                    ent["stan"] = r
                    body = r.children[0] if r.children else None
                    ent["body"] = canon_stan(body, role("body"))
                    ent["fields"] = [canon_stan(x, role("field%d" % j)) for j, x in enumerate(w.field_log)]
                    ent["field_bodies"] = list(w.field_bodies)
                    tok = "doc=%s[%s]" % (ent["body"], ",".join(ent["fields"]))
                elif op == "s":
                    r = E.format_summary(o)
                    ent["stan"] = r
                    tok = "sum=" + canon_stan(r, role("summary"))
                elif op == "t":
                    r = E.format_toc(o)
                    ent["stan"] = r
                    tok = "toc=" + canon_stan(r, role("toc"))
                else:
                    E.extract_fields(o)
                    tok = "ext=ok"
                if ent["stan"] is not None:
                    _, ent["flat_err"] = flatten_safely(ent["stan"])
        except Hang:
            ent["hang"] = True
            tok = "hang"
        except Exception as e:
            ent["raised"] = e
            tok = "raise:" + exc_token(e)
        ent["tok"] = tok
        ent["nreports"] = len(w.reports)
        outs.append(tok)
        trace.append(ent)
    return outs, trace


def canon_pd(w: World, pd, pdname=None) -> str:
    from pydoctor.epydoc.markup.plaintext import ParsedPlaintextDocstring
    from pydoctor.epydoc2stan import ParsedStanOnly
    st = stub_classes()
    if pd is None:
        return "N"
    if isinstance(pd, ParsedPlaintextDocstring):
        return "plain:" + enc(pd._text)
    if isinstance(pd, ParsedStanOnly):
        return "so:" + canon_stan(pd._fromstan)
    if isinstance(pd, st["StubPD"]):
        fs = []
        for f in pd.fields:
            b = f.body()
            bt = "t%d" % b.k if isinstance(b, st["StubTyped"]) else "u%d" % b.k if isinstance(b, st["StubPD"]) else "?"
            fs.append("%d/%s/%d" % (int(f.tag() in st["StubTyped"].FIELDS), bt, f.lineno))
        return "user%d[%s]" % (pd.k, ";".join(fs) or "-")
    if pdname is not None:
        return pdname(pd)
    return "real:" + type(pd).__name__


def canon_state(w: World, descr_token, pdname=None, only_report_errors: bool = False) -> str:
    s = w.system
    errs = []
    for sec, names in s.parse_errors.items():
        for n in names:
            errs.append(((0 if sec == "docstring" else 1), sec, w.ids.get(n, 99)))
    errs.sort(key=lambda x: (x[0], x[2]))
    etok = ",".join(("0" if sec == "docstring" else sec) + "." + str(i) for _, sec, i in errs) or "-"
    rt = []
    for (i, descr, section, off) in w.reports:
        if section == "docstring" and descr.startswith("bad docstring: "):
            rt.append("%d.0.%s.%d" % (i, descr_token(descr[len("bad docstring: "):]), off))
        elif not only_report_errors:
            rt.append("%d.%s.other" % (i, section))
    m = "1" if any(sec == "epydoc2stan" for sec, _ in s.once_msgs) else "0"
    ot = " ".join("%d=%s/%s" % (i, canon_pd(w, o.parsed_docstring, pdname), canon_pd(w, o.parsed_summary, pdname))
                  for i, o in enumerate(w.objs))
    return " | E " + etok + " | R " + (",".join(rt) or "-") + " | M " + m + " | O " + ot


def apply_spec(w: World, spec: Dict[str, Any]) -> None:
    w.reset(spec["sys"], spec["pt"], spec["td"], spec.get("modfmt", {}))
    w.spec = spec
    for i, o in spec["objs"].items():
        w.objs[i].docstring = o.get("doc")
        if o.get("parsed") is not None:
            w.objs[i].parsed_docstring = make_stub(w, o["parsed"])


def run_fault_case(w: World, spec: Dict[str, Any]):
    apply_spec(w, spec)
    # the only real (non-stub) renderable in this stream is the summary of a plaintext docstring
    outs, trace = run_ops(w, spec["ops"], stan_role=lambda i, r: "o%d" % PLAIN_K if r == "summary" else None)
    line = "ok " + " ; ".join(outs) + canon_state(
        w, descr_token_fault, pdname=lambda pd: "user%d[-]" % PLAIN_K if type(pd).__name__ == "ParsedRstDocstring" else "real:" + type(pd).__name__)
    return line, trace


# ------------------------------------------------------------------ fault stream: generators

PLAIN_K = 9000
BYSTANDER = 4
BYST_TEXT = "Bystander  text.\n\n  second <p> & more"
TEXTS = ["Some text.\n\n  indented <b>&amp;</b>\n\ttab\n", "x", "Line one\nline two.  Two spaces\n\n\nend ", " lead and trail \n"]

PARSER_OUTCOMES = [
    ("ret", 1, []),
    ("ret", 1, [(1, 2, 0), (2, None, 0)]),
    ("ret", 1, [(3, 0, 1)]),
    ("ret", "plain", []),
    ("raise", "p1", [(1, 2, 0), (4, 5, 1)]),
    ("raise", "p1", []),
    ("raise", "o7", []),
    ("raise", "o7", [(1, 0, 0)]),
    ("raise", "ni", []),
]


def field_variants() -> List[Tuple[List[Tuple[int, int, int]], Dict[int, Any], Dict[int, Any]]]:
    """(fields of pd 1, extra pd specs, ty specs)"""
    d = default_pd
    return [
        ([], {}, {}),
        ([(0, 10, 1)], {}, {}),
        ([(1, 10, 1)], {}, {}),
        ([(1, 10, 3)], {}, {10: {"M": "r501,502", "S": "r1010"}}),
        ([(1, 10, 1)], {10: dict(d(10), N="xni")}, {}),
        ([(1, 10, 1)], {}, {10: {"M": "xo8", "S": "r1010"}}),
        ([(0, 10, 1)], {10: dict(d(10), S="xo9")}, {}),
        ([(0, 10, 1), (1, 11, 2), (0, 12, 4)], {10: dict(d(10), S="xo9"), 11: dict(d(11), S="xo6")},
         {11: {"M": "r-", "S": "xo6"}}),
        ([(1, 10, 1), (1, 11, 2)], {11: dict(d(11), N="xo4")}, {}),
    ]


NODE_WALK = [
    ({"N": "xni"}, {}),
    ({"N": "xo3"}, {}),
    ({"N": "r", "W": "n"}, {}),
    ({"N": "r", "W": "xo4"}, {}),
    ({"N": "r", "W": "s2"}, {2: dict(default_pd(2))}),
    ({"N": "r", "W": "s2"}, {2: dict(default_pd(2), S="xo5")}),
]
TOCS = [
    ({"T": "e"}, {}),
    ({"T": "xo6"}, {}),
    ({"T": "c3"}, {3: dict(default_pd(3))}),
    ({"T": "c3"}, {3: dict(default_pd(3), S="xo7")}),
]
ORDERS = ["edst", "sdte", "tsde"]


def ops_for(x: int, order: str, extract_first: bool) -> List[Tuple[str, int]]:
    y = BYSTANDER
    ops = [("d", y), ("s", y)]
    if extract_first and x in (0, 1):
        ops.append(("x", x))
    ops += [(c, x) for c in order] * 2
    ops += [("d", y), ("s", y), ("t", y)]
    return ops


def base_spec(fmt: str, pt: int, td: int, x: int, text: str) -> Dict[str, Any]:
    return {"kind": "fault", "pt": pt, "td": td, "sys": fmt, "x": x,
            "objs": {x: {"doc": text}, BYSTANDER: {"doc": BYST_TEXT}},
            "pd": {}, "ty": {}, "par": {}, "plain": ("r", "s%d" % PLAIN_K, "e")}


def exhaustive_fault_cases(quick: bool):
    n = 0
    fvs = field_variants()
    # A: parser x processtypes x fields x body to_stan
    for fmt in "ergnp":
        for pt in (0, 1):
            for x in (0, 1, 2, 3):
                for po in PARSER_OUTCOMES:
                    returns_user = po[0] == "ret" and po[1] == 1
                    for (fs, pds, tys) in (fvs if returns_user else fvs[:1]):
                        for bs in (("r1", "xo2") if returns_user else ("r1",)):
                            n += 1
                            sp = base_spec(fmt, pt, 1 + n % 2, x, TEXTS[n % len(TEXTS)])
                            sp["par"][(fmt, x)] = po
                            sp["pd"] = {1: dict(default_pd(1), S=bs, F=list(fs)), **{k: dict(v) for k, v in pds.items()}}
                            sp["ty"] = {k: dict(v) for k, v in tys.items()}
                            sp["ops"] = ops_for(x, ORDERS[n % 3], n % 2 == 0)
                            yield sp
    # B: to_node x summary walk x summary to_stan x toc builder x toc to_stan x toc depth
    combos = list(itertools.product((0, 1), ("r1", "xo2"), range(len(NODE_WALK)), range(len(TOCS)), (0, 1, 2)))
    for ci, (poi, bs, nw, tc, td) in enumerate(combos):
        pairs = list(itertools.product("ergnp", (0, 1, 2, 3)))
        if quick:
            pairs = [pairs[(ci * 7 + j * 5) % len(pairs)] for j in range(4)]
        for fmt, x in pairs:
            n += 1
            sp = base_spec(fmt, n % 2, td, x, TEXTS[n % len(TEXTS)])
            sp["par"][(fmt, x)] = PARSER_OUTCOMES[poi]
            pd1 = dict(default_pd(1), S=bs)
            pd1.update(NODE_WALK[nw][0])
            pd1.update(TOCS[tc][0])
            sp["pd"] = {1: pd1, **NODE_WALK[nw][1], **TOCS[tc][1]}
            sp["ops"] = ops_for(x, ORDERS[n % 3], n % 2 == 0)
            yield sp


def rand_text(rng) -> str:
    alphabet = "ab c\n\n  .<&>`{}@:*"
    return "".join(rng.choice(alphabet) for _ in range(rng.randint(1, 14)))


def random_fault_case(rng) -> Dict[str, Any]:
    fmts = "ergnp"
    sysf = rng.choice(fmts)
    sp: Dict[str, Any] = {"kind": "fault", "pt": rng.randint(0, 1), "td": rng.choice([0, 1, 1, 3]), "sys": sysf,
                          "objs": {}, "pd": {}, "ty": {}, "par": {}, "plain": ("r", "s%d" % PLAIN_K, "e"), "modfmt": {}}
    for mi in (0, 6):
        r = rng.random()
        if r < 0.35:
            sp["modfmt"][mi] = rng.choice(fmts)
        elif r < 0.45:
            sp["modfmt"][mi] = "u"
    nextk = [20]

    def new_pd(depth=0) -> int:
        k = nextk[0]
        nextk[0] += 1
        p = default_pd(k)
        p["S"] = rng.choice(["r%d" % k, "r%d" % k, "xo%d" % rng.randint(1, 9), "xni", "xp3"])
        p["N"] = rng.choice(["r", "r", "r", "xni", "xo%d" % rng.randint(1, 9)])
        if depth == 0:
            w_ = rng.random()
            if w_ < 0.4:
                p["W"] = "s%d" % new_pd(1)
            elif w_ < 0.55:
                p["W"] = "xo%d" % rng.randint(1, 9)
            t_ = rng.random()
            if t_ < 0.4:
                p["T"] = "c%d" % new_pd(1)
            elif t_ < 0.55:
                p["T"] = rng.choice(["xo%d" % rng.randint(1, 9), "xni"])
            for _ in range(rng.choice([0, 0, 1, 2, 3])):
                b = new_pd(1)
                isty = rng.randint(0, 1)
                p["F"].append((isty, b, rng.randint(0, 9)))
                if isty and rng.random() < 0.6:
                    sp["ty"][b] = {"M": rng.choice(["r-", "r%d" % rng.randint(500, 520), "r501,502", "xo%d" % rng.randint(1, 9), "xni"]),
                                   "S": rng.choice(["r%d" % (1000 + b), "xo%d" % rng.randint(1, 9)])}
        sp["pd"][k] = p
        return k
    for i in range(len(NAMES)):
        r = rng.random()
        o: Dict[str, Any] = {}
        if r < 0.55:
            o["doc"] = rand_text(rng)
        elif r < 0.65:
            o["doc"] = ""
        if rng.random() < 0.12:
            o["parsed"] = new_pd()
        if o:
            sp["objs"][i] = o
        for f in set([sysf] + [v for v in sp["modfmt"].values() if v and v != "u"] + ["p"]):
            if rng.random() < 0.8:
                c = rng.random()
                errs = [(rng.randint(1, 30), rng.choice([None, 0, 1, 7]), rng.randint(0, 1)) for _ in range(rng.choice([0, 0, 1, 2]))]
                if c < 0.5:
                    sp["par"][(f, i)] = ("ret", new_pd(), errs)
                elif c < 0.6:
                    sp["par"][(f, i)] = ("ret", "plain", errs)
                else:
                    sp["par"][(f, i)] = ("raise", rng.choice(["p1", "p2", "o%d" % rng.randint(1, 9), "ni"]), errs)
    focus = rng.sample(range(len(NAMES)), 3) + [2, 8, 3, 9]
    sp["ops"] = [(rng.choice("eddsstx") if True else "d", rng.choice(focus)) for _ in range(rng.randint(4, 14))]
    sp["ops"] = [(op, i) for op, i in sp["ops"] if not (op == "x" and sp["objs"].get(i, {}).get("doc") is None and rng.random() < 0.8)]
    return sp
