"""C08 — any docstring in any format is rendered; markup errors degrade to plain text."""
from __future__ import annotations

import ast
import contextlib
import html as htmlmod
import io
import itertools
import re
import signal
from typing import Any, Dict, List, Optional, Tuple

from ..core import Ctx, REPO, enc

THEOREMS = [
    # totality of the five docstring entry points (full; C01 builds on `total` and `frame_step`)
    "Docstring.ensure_total", "Docstring.doc_total", "Docstring.summary_total", "Docstring.extract_total",
    "Docstring.toc_total", "Docstring.total", "Docstring.total_old_counterexample", "Docstring.toc_old_spec",
    "Docstring.base_get_summary_total", "Docstring.toc_spec", "Docstring.toc_none_when_render_fails", "Docstring.frame_step",
    # fallback text / reporting
    "Docstring.fallback_full_text", "Docstring.fallback_uses_source_text", "Docstring.isolation_source",
    "Docstring.parse_fallback_full_text", "Docstring.ensure_fallback_full_text",
    "Docstring.render_fallback_full_text", "Docstring.unreported_parse_error_counterexample",
    "Docstring.render_failure_reported", "Docstring.render_failure_after_warning_reported",
    "Docstring.render_failure_masked_old_counterexample", "Docstring.reported_once_phase",
    "Docstring.recovered_errors_reported",
    "Docstring.reported_once", "Docstring.second_call_silent", "Docstring.doc_second_call", "Docstring.isolation",
    "Docstring.summary_failure_stays_local", "Docstring.extract_spec",
    # historical, about format_summary before c070c47 (`formatSummaryOld`)
    "Docstring.summary_fallback_touches_source", "Docstring.summary_fallback_overwrites_class_summary",
    "Docstring.summary_failure_unreported_counterexample", "Docstring.blanked_docstring_fallback_counterexample",
    "Docstring.field_failure_shows_text", "Docstring.field_fallback_shows_text", "Docstring.field_failure_text_lost_old_counterexample",
    "Docstring.registry_restored", "Docstring.parse_independent_of_previous", "Docstring.registry_leak_old_counterexample",
    # the further wrappers (round 3)
    "Docstring.pyval_total", "Docstring.pyval_failure_reported", "Docstring.signature_total",
    "Docstring.signature_failure_reported", "Docstring.type_total", "Docstring.constant_total",
    "Docstring.class_signature_total", "Docstring.decorators_total", "Docstring.search_total",
    "Docstring.xtotal", "Docstring.xrun_total", "Docstring.getParsedType_cached",
    "Docstring.loose_xstep", "Docstring.x_isolation", "Docstring.x_reported_once",
    # historical, about the code before 4caea46 / e1378c4 (`…Old` definitions)
    "Docstring.pyval_old_raises_iff", "Docstring.typed_failure_escaped_old", "Docstring.type_old_counterexample",
    "Docstring.search_old_raises_iff", "Docstring.search_old_counterexample",
    # epytext pieces
    "Docstring.epytext_raises_iff_fatal",
    "Docstring.slugify_terminates", "Docstring.slugify_loops_without_distinct_candidates",
]
PARTIAL = {
    "Docstring.slugify_terminates": "hypothesis: the candidates slugify(text), slugify(text-1), … are pairwise distinct (true of the real "
        "slugify, checked per case by the harness; slugify_loops_without_distinct_candidates shows it is needed)",
    "Docstring.parse_fallback_full_text": "the 'exactly one report group' half needs: the parser stored at least one error "
        "before raising ParseError (epytext does: epytext_raises_iff_fatal) and the object was not reported before",
    "Docstring.render_failure_reported": "needs: no RENDERING failure of the object was reported before in this section (one group per "
        "(section, object, phase) since 4690c0c; an earlier parse warning no longer hides it: render_failure_after_warning_reported; "
        "render_failure_masked_old_counterexample is historical)",
}
RULE = ("fault stream: the real epydoc2stan/markup functions run over stub parsers / stub ParsedDocstrings realising every "
        "outcome of every parameter (parser x processtypes step x to_stan x to_node x summary walk x toc builder x field "
        "bodies) x 5 docformats x process-types x object kind (Module, Class, Function, Attribute) x first/second call, "
        "plus random multi-object op sequences (inherited docstrings, split fields, empty docstrings, module docformat "
        "overrides, unknown docformat, `type`/`ivar` fields split by extract_fields, type2stan / constant value / signature / "
        "class signature / decorators / search text with every (to_stan, to_node) outcome of the colorized value); real stream: markup-fragment grammar for each format, mutated docstrings of "
        "/repo/pydoctor and /repo/docs, arbitrary Unicode incl. control characters, each under every docformat with "
        "process-types and object kind cycling (full product in the thorough tier); oracle-only stream: lone surrogates "
        "through the AST builder. Non-trivial = the parser or a renderer step fails/falls back (fault stream) / the real "
        "parser reports at least one error (real stream).")
ASSUMPTIONS = [
    "parameters are deterministic functions (a to_stan/to_node that raises once raises again — true of the epytext renderer "
    "since a0ab2a9; the oracle re-renders a fresh parse to check it); the _stan/_summary caches of ParsedDocstring are "
    "therefore not observable and not modelled",
    "parsers, to_stan, to_node raise only Exception subclasses (KeyboardInterrupt/SystemExit/MemoryError are not handled by "
    "parse_docstring/safe_to_stan and are outside the property); to_stan returns a Tag",
    "termination and exception behaviour INSIDE the epytext/docutils/napoleon parsers and twisted's flattener is not proved; "
    "it is exercised by the real stream with a per-case alarm",
    "no ParsedDocstring subclass in /repo overrides get_summary/get_toc (checked by introspection each run)",
    "objects are identities, in the model and (since b867a76) in the key of reportErrors; parse_errors still lists names",
    "in format_docstring every field body whose handler formats it is formatted once, in call order; `type` fields: stored as "
    "parsed_type for an Attribute, formatted only with an argument elsewhere; `ivar/cvar/var` not formatted. The rest of the "
    "FieldHandler dispatch and the warnings filed through Field.report / 'Missing field name' are C09's (generators avoid "
    "`type` fields in Function docstrings, where handle_type files such a warning)",
    "extract_fields: the attribute a field names exists (creating a new Attribute for an unknown name is the registry's business, C02); "
    "field bodies carry no fields of their own",
    "`parent` and the docsources order are parameters of the model; the harness checks them against the real objects each run",
    "the once-only import message is modelled as a flag (one message per distinct unknown docformat name in the code)",
    "the docstring linker (switch_context, link_xref) does not raise outside to_stan",
    "real stream, model side: the parser composed with processtypes is ONE observed parameter (pt=0 is sent to the model); the "
    "processtypes composition itself is tied by the fault stream",
]
EXPLANATION = ("The wrapper logic around the parsers is modelled literally with the parsers/renderers as parameters; theorems hold "
               "for every behaviour of those parameters. Fault injection ties the model to the real wrappers on the whole finite "
               "outcome space; the real-parser stream checks the property itself (direct oracle) on generated docstrings.")

FMTS = {"epytext": "e", "restructuredtext": "r", "google": "g", "numpy": "n", "plaintext": "p"}
FMT_OF = {v: k for k, v in FMTS.items()}
FMT_OF["u"] = "nosuchformat"

SRC_M = '''
class B:
    def f(self, a, b=1):
        pass
    a = 1
def g(x: int) -> str:
    pass
v = 2
'''
SRC_N = '''
from m import B
class C(B):
    def f(self, a, b=1):
        pass
    a = 1
class D(C, B):
    pass
def dec1(f): return f
def dec2(f): return f
@dec1
@dec2(1)
def h(y):
    pass
'''
NAMES = ["m", "m.B", "m.B.f", "m.B.a", "m.g", "m.v", "n", "n.C", "n.C.f", "n.C.a", "n.D", "n.h"]
PARENT = [None, 0, 1, 1, 0, 0, None, 6, 7, 7, 6, 6]
INHERITED = {8: [2], 9: [3]}
MODULE_OF = [0, 0, 0, 0, 0, 0, 6, 6, 6, 6, 6, 6]
ATTRS = (3, 5, 9)          # Attribute objects (all have an inferred annotation and a value)
FUNCS = (2, 4, 8, 11)
SEC_NAMES = {"docstring": 0, "annotation": 1, "rendering of constant": 2, "signature": 3,
             "rendering of class signature": 4, "rendering of decorators": 5}
KINDS = {0: "Module", 1: "Class", 2: "Function", 3: "Attribute", 8: "Function inheriting the docstring of m.B.f (other module)"}
XS = (0, 1, 2, 3, 8)


def holder_of(x: int) -> int:
    """the object that carries the docstring text in a single-object case"""
    return INHERITED[x][0] if x in INHERITED else x


class Hang(BaseException):
    pass


def _alarm(signum, frame):
    raise Hang()


@contextlib.contextmanager
def time_limit(seconds: float):
    old = signal.signal(signal.SIGALRM, _alarm)
    signal.setitimer(signal.ITIMER_REAL, seconds)
    try:
        yield
    finally:
        signal.setitimer(signal.ITIMER_REAL, 0)
        signal.signal(signal.SIGALRM, old)


@contextlib.contextmanager
def quiet():
    buf = io.StringIO()
    with contextlib.redirect_stdout(buf), contextlib.redirect_stderr(buf):
        yield buf


# ------------------------------------------------------------------ the world: one System, reset per case

class World:
    def __init__(self) -> None:
        from pydoctor import model
        s = model.System()
        b = s.systemBuilder(s)
        b.addModuleString(SRC_M, "m")
        b.addModuleString(SRC_N, "n")
        with quiet():
            b.buildModules()
        self.system = s
        self.objs = [s.allobjects[n] for n in NAMES]
        self.ids = {n: i for i, n in enumerate(NAMES)}
        # the model takes `parent` and the docsources order as parameters: tie them to the real objects
        self.param_mismatch: List[str] = []
        for i, o in enumerate(self.objs):
            par = None if o.parent is None else self.ids.get(o.parent.fullName())
            if par != PARENT[i]:
                self.param_mismatch.append("parent of %s is %r, the harness assumes %r" % (NAMES[i], par, PARENT[i]))
            src = [self.ids.get(d.fullName()) for d in o.docsources()]
            if src != [i] + INHERITED.get(i, []):
                self.param_mismatch.append("docsources of %s are %r, the harness assumes %r" % (NAMES[i], src, [i] + INHERITED.get(i, [])))
        self.signatures = {i: self.objs[i].signature for i in FUNCS}
        from docutils.parsers.rst import roles as _roles
        self._rst_roles = dict(_roles._roles)     # docutils' module-level registry of document-defined roles
        self.iso: Optional[Tuple[str, str]] = None
        self.node_stubs: Dict[int, int] = {}
        self.sig_now: Optional[str] = None
        self.stan_log: List[Any] = []
        self.reports: List[Tuple[int, str, str, int]] = []
        self.field_log: List[Any] = []
        self.field_bodies: List[Any] = []
        self.spec: Dict[str, Any] = {}
        self.records: Dict[int, Any] = {}

    def oid(self, obj) -> int:
        return self.ids[obj.fullName()]

    def reset(self, sysfmt: str, pt: bool, td: int, modfmt: Dict[int, Optional[str]]) -> None:
        s = self.system
        s.options.docformat = FMT_OF.get(sysfmt, sysfmt)
        s.options.processtypes = bool(pt)
        s.options.sidebartocdepth = td
        s.parse_errors.clear()
        if hasattr(s, "reported_errors"):      # absent before 4690c0c (the check must still run there and fail properly)
            s.reported_errors.clear()
        s.once_msgs.clear()
        s.violations = 0
        for i, o in enumerate(self.objs):
            o.docstring = None
            o.parsed_docstring = None
            o.parsed_summary = None
            o.parsed_type = None
            o.docstring_lineno = 0
        for mi in (0, 6):
            f = modfmt.get(mi)
            # 'u': a name that is no parser — a missing module (ImportError) or, for module n, an existing markup
            # module without get_parser (AttributeError, handled since 3d65cd1)
            self.objs[mi].docformat = None if f is None else ("doctest" if f == "u" and mi == 6 else FMT_OF[f])
        for i in FUNCS:
            self.objs[i].signature = self.signatures[i]
        from docutils.parsers.rst import roles as _roles
        _roles._roles.clear()                     # a leak from one CASE into the next must not blur the cases
        _roles._roles.update(self._rst_roles)
        self.iso = None
        self.iso_roles = []
        self.node_stubs = {}
        self.sig_now = None
        self.reports = []
        self.records = {}
        self.handed: Dict[int, List[Tuple[int, str]]] = {}
        self.handed_now: List[Tuple[int, str]] = []
        self.handed_depth = 0


@contextlib.contextmanager
def instrument(w: World):
    """record Documentable.report and Field.format calls (both still run)"""
    from pydoctor import model, epydoc2stan
    real_report = model.Documentable.report
    real_format = epydoc2stan.Field.format

    def report(self, descr, section="parsing", lineno_offset=0, thresh=-1):
        w.reports.append((w.oid(self), descr, section, lineno_offset))
        return real_report(self, descr, section=section, lineno_offset=lineno_offset, thresh=thresh)

    def fmt(self):
        r = real_format(self)
        w.field_log.append(r)
        w.field_bodies.append(self.body)
        return r
    real_safe = epydoc2stan.safe_to_stan

    def safe(*a, **kw):
        r = real_safe(*a, **kw)
        w.stan_log.append(r)
        return r
    model.Documentable.report = report
    epydoc2stan.Field.format = fmt
    epydoc2stan.safe_to_stan = safe
    try:
        yield
    finally:
        model.Documentable.report = real_report
        epydoc2stan.Field.format = real_format
        epydoc2stan.safe_to_stan = real_safe


# ------------------------------------------------------------------ exceptions / tokens

def mkexc(tok: str) -> Exception:
    from pydoctor.epydoc.markup import ParseError
    if tok == "ni":
        return NotImplementedError()
    if tok == "as":
        return AssertionError()
    if tok[0] == "p":
        return ParseError("P" + tok[1:])
    return ValueError("E" + tok[1:])


def exc_token(e: BaseException) -> str:
    from pydoctor.epydoc.markup import ParseError
    if isinstance(e, ParseError):
        m = re.fullmatch(r"P(\d+)", e.descr())
        return "p" + m.group(1) if m else "p?"
    if isinstance(e, NotImplementedError):
        return "ni"
    if isinstance(e, AssertionError):
        return "as"
    m = re.fullmatch(r"E(\d+)", str(e)) if isinstance(e, ValueError) else None
    return "o" + m.group(1) if m else "?" + type(e).__name__


def descr_token_fault(d: str) -> str:
    m = re.fullmatch(r"M(\d+)", d)
    if m:
        return "m" + m.group(1)
    m = re.fullmatch(r"ValueError: E(\d+)", d)
    if m:
        return "xo" + m.group(1)
    m = re.fullmatch(r"ParseError: P(\d+)", d)
    if m:
        return "xp" + m.group(1)
    if d == "NotImplementedError: ":
        return "xni"
    if d == "AssertionError: ":
        return "xas"
    return "other:" + d[:40].replace(" ", "_")


def flatten_safely(stan) -> Tuple[Optional[str], Optional[str]]:
    """(html, None) or (None, short error class); never lets twisted's tree dump escape"""
    from pydoctor.stanutils import flatten
    try:
        with quiet():
            return flatten(stan), None
    except Hang:
        raise
    except BaseException as e:  # FlattenerError carries the whole tree in its message
        inner = e.args[0] if e.args and isinstance(e.args[0], BaseException) else e
        return None, type(inner).__name__


def safe_text(st) -> Optional[str]:
    from pydoctor.stanutils import flatten_text
    try:
        with quiet():
            return flatten_text(st)
    except Hang:
        raise
    except BaseException:
        return None


def canon_stan(st, role: Optional[str] = None) -> str:
    from pydoctor import epydoc2stan
    from twisted.web.template import Tag
    if st is None:
        return "N"
    if st is epydoc2stan.BROKEN:
        return "broken"
    if isinstance(st, str):
        return "sigbroken" if st == "(...)" else "str?"
    if isinstance(st, Tag) and st.tagName == "code" and not st.attributes:
        return "code"
    if isinstance(st, Tag):
        cls = st.attributes.get("class")
        kids = st.children
        if st.tagName == "p" and cls == "pre" and len(kids) == 1 and isinstance(kids[0], str):
            try:
                return "pre:" + enc(kids[0])
            except Exception:
                return "pre:?"
        if cls == "undocumented" and len(kids) >= 1 and isinstance(kids[0], str):
            t = kids[0]
            if st.tagName == "p":
                return {"Undocumented": "undoc", "Broken description": "broken"}.get(t, "p-undoc?")
            if st.tagName == "span":
                return {"Broken summary": "brokensum", "No summary": "nosum"}.get(t, "undocsum")
    h, err = flatten_safely(st)
    if h is None:
        return "unflattenable:" + str(err)
    m = re.search(r"STAN(\d+)", h)
    if m:
        return "o" + m.group(1)
    return role if role is not None else "real"


# ------------------------------------------------------------------ stubs (fault stream)

TAG_NAMES = ["warns", "rtype", "type", "ivar"]
TAG_CODE = {"warns": 0, "rtype": 1, "type": 2, "ivar": 3}


def default_pd(k: int) -> Dict[str, Any]:
    return {"S": "r%d" % k, "N": "r", "W": "n", "T": "e", "F": []}


def default_ty(k: int) -> Dict[str, Any]:
    return {"M": "r-", "S": "r%d" % (1000 + k)}


class FakeDoc(list):
    """what a stub's to_node() returns; as a list of docutils Text nodes it is readable by node2stan.gettext"""

    def __init__(self, pd) -> None:
        from docutils import nodes
        text = pd.spec.get("X", "")
        list.__init__(self, [nodes.Text(text)] if text else [])
        self.pd = pd

    def walk(self, visitor) -> None:
        wtok = self.pd.spec["W"]
        if wtok[0] == "x":
            raise mkexc(wtok[1:])
        if wtok[0] == "s":
            visitor.summary = make_stub(self.pd.w, int(wtok[1:]))


class _StubVisitor:
    summary = None


_STUBS: Dict[str, Any] = {}


def stub_classes():
    """built lazily: they subclass pydoctor classes"""
    if _STUBS:
        return _STUBS
    from pydoctor.epydoc.markup import ParsedDocstring, Field as MField
    from pydoctor.epydoc.markup import _types
    from twisted.web.template import tags

    class StubPD(ParsedDocstring):
        def __init__(self, w: World, k: int) -> None:
            self.w, self.k = w, k
            self.spec = w.spec.get("pd", {}).get(k) or default_pd(k)
            fields = [MField(TAG_NAMES[f[0]], None if len(f) < 4 or f[3] is None else NAMES[f[3]].rsplit(".", 1)[-1],
                             StubPD(w, f[1]), f[2]) for f in self.spec["F"]]
            ParsedDocstring.__init__(self, fields)
            self.warnings: List[str] = []

        @property
        def has_body(self) -> bool:
            return True

        def to_stan(self, linker):
            s = self.spec["S"]
            if s[0] == "x":
                raise mkexc(s[1:])
            return tags.p("STAN" + s[1:])

        def to_node(self):
            n = self.spec["N"]
            if n[0] == "x":
                raise mkexc(n[1:])
            return FakeDoc(self)

    class StubTyped(ParsedDocstring):
        FIELDS = _types.ParsedTypeDocstring.FIELDS

        def __init__(self, node, warns_on_unknown_tokens: bool = False, lineno: int = 0) -> None:
            ParsedDocstring.__init__(self, ())
            if not isinstance(node, FakeDoc):
                raise TypeError("stub ParsedTypeDocstring got a real node")
            self.k = node.pd.k
            self.spec = node.pd.w.spec.get("ty", {}).get(self.k) or default_ty(self.k)
            m = self.spec["M"]
            if m[0] == "x":
                raise mkexc(m[1:])
            self.warnings = [] if m[1:] == "-" else ["M" + x for x in m[1:].split(",")]

        @property
        def has_body(self) -> bool:
            return True

        def to_stan(self, linker):
            s = self.spec["S"]
            if s[0] == "x":
                raise mkexc(s[1:])
            return tags.p("STAN" + s[1:])

        def to_node(self):
            raise NotImplementedError()

    _STUBS.update(StubPD=StubPD, StubTyped=StubTyped)
    return _STUBS


def make_stub(w: World, k: int):
    return stub_classes()["StubPD"](w, k)


@contextlib.contextmanager
def fault_patches(w: World):
    from pydoctor import epydoc2stan
    from pydoctor.epydoc import markup
    from pydoctor.epydoc.markup import _types, plaintext, ParseError
    from docutils import nodes
    st = stub_classes()
    real_get = epydoc2stan.get_parser_by_name
    real_se = markup.SummaryExtractor
    real_toc = markup.build_table_of_content
    real_typed = _types.ParsedTypeDocstring

    class poison(nodes.General, nodes.Element):
        pass

    def get_parser(docformat, obj=None):
        if docformat not in FMTS:
            return real_get(docformat, obj)   # raises ImportError / AttributeError
        p = w.spec.get("par", {}).get((FMTS[docformat], w.oid(obj)))

        def parser(doc, errs):
            if p is None:
                return plaintext.ParsedPlaintextDocstring(doc)
            kind, arg, errlist = p
            for (n, ln, fatal) in errlist:
                errs.append(ParseError("M%d" % n, ln, bool(fatal)))
            if kind == "raise":
                raise mkexc(arg)
            return plaintext.ParsedPlaintextDocstring(doc) if arg == "plain" else make_stub(w, arg)
        return parser

    def summary_extractor(doc, *a, **kw):
        return _StubVisitor() if isinstance(doc, FakeDoc) else real_se(doc, *a, **kw)

    def build_toc(document, depth, level=0):
        if not isinstance(document, FakeDoc):
            return real_toc(document, depth=depth, level=level)
        t = document.pd.spec["T"]
        if t[0] == "x":
            raise mkexc(t[1:])
        if t == "e":
            return None
        k = int(t[1:])
        s = (w.spec.get("pd", {}).get(k) or default_pd(k))["S"]
        return [poison()] if s[0] == "x" else [nodes.paragraph("", "STAN" + s[1:])]

    from pydoctor.templatewriter import pages
    real_e_inline, real_e_pyval = epydoc2stan.colorize_inline_pyval, epydoc2stan.colorize_pyval
    real_p_inline, real_p_html2stan = pages.colorize_inline_pyval, pages.html2stan

    def stub_or(real):
        def f(pyval, *a, **kw):
            k = w.node_stubs.get(id(pyval))
            return real(pyval, *a, **kw) if k is None else make_stub(w, k)
        return f

    def html2stan(text):
        if w.sig_now is None:
            return real_p_html2stan(text)
        if w.sig_now[0] == "x":
            raise mkexc(w.sig_now[1:])
        return _tags.p("STAN" + w.sig_now[1:])   # `_tags.p` makes a fresh Tag on every attribute access
    from twisted.web.template import tags as _tags
    epydoc2stan.get_parser_by_name = get_parser
    markup.SummaryExtractor = summary_extractor
    markup.build_table_of_content = build_toc
    _types.ParsedTypeDocstring = st["StubTyped"]
    epydoc2stan.colorize_inline_pyval = stub_or(real_e_inline)
    epydoc2stan.colorize_pyval = stub_or(real_e_pyval)
    pages.colorize_inline_pyval = stub_or(real_p_inline)
    pages.html2stan = html2stan
    try:
        yield
    finally:
        epydoc2stan.get_parser_by_name = real_get
        markup.SummaryExtractor = real_se
        markup.build_table_of_content = real_toc
        _types.ParsedTypeDocstring = real_typed
        epydoc2stan.colorize_inline_pyval, epydoc2stan.colorize_pyval = real_e_inline, real_e_pyval
        pages.colorize_inline_pyval, pages.html2stan = real_p_inline, real_p_html2stan


# ------------------------------------------------------------------ spec -> model request

def errs_tok(errs) -> str:
    return ";".join("%d/%s/%d" % (n, "n" if ln is None else ln, int(f)) for (n, ln, f) in errs) or "-"


def fields_tok(fs) -> str:
    return ",".join("%d/%d/%d" % (int(f[0]), f[1], f[2]) + ("" if len(f) < 4 else "/%s" % ("-" if f[3] is None else f[3]))
                    for f in fs) or "-"


def xo_of(spec: Dict[str, Any], i: int) -> Dict[str, Any]:
    """the colorizer / signature parameters of object i: what the spec says, else the defaults the stubs realise"""
    d = {"ann": 800 + i if i in ATTRS else None, "const": 820 + i if i in ATTRS else None, "sig": None,
         "bases": {7: [847], 10: [850, 851]}.get(i, []), "decs": [860, 861] if i == 11 else []}
    if i in FUNCS:
        d["sig"] = "r%d" % (840 + i)
    d.update(spec.get("xo", {}).get(i, {}))
    return d


def request_of(spec: Dict[str, Any]) -> str:
    t = ["docstring", "run", "pt=%d" % int(spec["pt"]), "td=%d" % spec["td"], "sys=" + spec["sys"]]
    for k, p in sorted(spec.get("pd", {}).items()):
        t += ["pd", str(k), p["S"], p["N"], p["W"], p["T"], fields_tok(p["F"])]
    for k, p in sorted(spec.get("ty", {}).items()):
        t += ["ty", str(k), p["M"], p["S"]]
    for k, p in sorted(spec.get("pd", {}).items()):
        if p.get("X"):
            t += ["nt", str(k), enc(p["X"])]
    if "plain" in spec:
        t += ["plain"] + list(spec["plain"])
    for text, p in spec.get("plainfor", {}).items():
        t += ["plainfor", enc(text)] + list(p)
    for i in range(len(NAMES)):
        o = spec["objs"].get(i, {})
        doc = o.get("doc")
        parsed = o.get("parsed")
        mf = spec.get("modfmt", {}).get(MODULE_OF[i])
        t += ["obj", str(i), "-" if PARENT[i] is None else str(PARENT[i]),
              ",".join(map(str, INHERITED.get(i, []))) or "-", mf or "-",
              "N" if doc is None else enc(doc),
              "N" if parsed is None else "user:%d" % parsed]
    for (f, i), (kind, arg, errs) in sorted(spec.get("par", {}).items()):
        if kind == "ret":
            t += ["par", f, str(i), "ret", "plain" if arg == "plain" else "user:%d" % arg, errs_tok(errs)]
        else:
            t += ["par", f, str(i), "raise", arg, errs_tok(errs)]
    for i in range(len(NAMES)):
        x = xo_of(spec, i)
        t += ["xo", str(i), "1" if i in ATTRS else "0", "-" if x["ann"] is None else str(x["ann"]),
              "-" if x["const"] is None else str(x["const"]), x["sig"] or "-",
              ",".join(map(str, x["bases"])) or "-", ",".join(map(str, x["decs"])) or "-"]
    t.append("ops")
    t += ["%s:%d" % (op, i) for op, i in spec["ops"]]
    return " ".join(t)


# ------------------------------------------------------------------ running the real entry points

def run_ops(w: World, ops, stan_role=None, limit: float = 20.0):
    """returns (out tokens, trace); trace entries: op, obj, raised, stan, flat_err, nreports"""
    from pydoctor import epydoc2stan as E
    outs: List[str] = []
    trace: List[Dict[str, Any]] = []
    for op, i in ops:
        o = w.objs[i]
        w.field_log = []
        w.field_bodies = []
        ent: Dict[str, Any] = {"op": op, "obj": i, "raised": None, "stan": None, "flat_err": None, "hang": False}
        role = (lambda r: stan_role(i, r)) if stan_role else (lambda r: None)
        try:
            with time_limit(limit), quiet():
                if op == "e":
                    r = E.ensure_parsed_docstring(o)
                    tok = "src=" + ("N" if r is None else str(w.oid(r)))
                elif op == "d":
                    r = E.format_docstring(o)
                    ent["stan"] = r
                    body = r.children[0] if r.children else None
                    ent["body"] = canon_stan(body, role("body"))
                    ent["fields"] = [canon_stan(x, role("field%d" % j)) for j, x in enumerate(w.field_log)]
                    ent["field_bodies"] = list(w.field_bodies)
                    tok = "doc=%s[%s]" % (ent["body"], ",".join(ent["fields"]))
                elif op == "s":
                    r = E.format_summary(o)
                    ent["stan"] = r
                    tok = "sum=" + canon_stan(r, role("summary"))
                elif op == "t":
                    r = E.format_toc(o)
                    ent["stan"] = r
                    tok = "toc=" + canon_stan(r, role("toc"))
                elif op == "x":
                    E.extract_fields(o)
                    tok = "ext=ok"
                elif op == "y":
                    r = E.type2stan(o)
                    ent["stan"] = r
                    tok = "typ=" + canon_stan(r, role("type"))
                elif op == "c":
                    w.stan_log = []
                    r = E.format_constant_value(o)
                    ent["stan"] = r
                    tok = "st=" + canon_stan(w.stan_log[-1] if w.stan_log else None, role("const"))
                elif op == "g":
                    from pydoctor.templatewriter import pages
                    w.sig_now = xo_of(w.spec, i)["sig"] if w.spec.get("kind") == "fault" else None
                    try:
                        r = pages.format_signature(o)
                    finally:
                        w.sig_now = None
                    ent["stan"] = r
                    tok = "st=" + canon_stan(r, role("sig"))
                elif op in "br":
                    from pydoctor.templatewriter import pages
                    w.stan_log = []
                    r = pages.format_class_signature(o) if op == "b" else list(pages.format_decorators(o))
                    ent["stan"] = r
                    tok = "sts=[%s]" % ",".join(canon_stan(x, role("pyval%d" % j)) for j, x in enumerate(w.stan_log))
                else:
                    from pydoctor.templatewriter import search
                    r = search.LunrIndexWriter.format_docstring(None, o)
                    src = E.ensure_parsed_docstring(o)
                    # the text of the node tree and the raw docstring cannot be told apart from outside: "some text"
                    tok = "srch=N" if r is None else "srch=text"
                if ent["stan"] is not None:
                    _, ent["flat_err"] = flatten_safely(ent["stan"])
        except Hang:
            ent["hang"] = True
            tok = "hang"
        except Exception as e:
            ent["raised"] = e
            tok = "raise:" + exc_token(e)
        ent["tok"] = tok
        if ent["hang"]:
            ent["nreports"] = 0
            outs.append(tok)
            trace.append(ent)
            break   # the object's state is undefined now and the next call would hang as well
        ent["nreports"] = sum(1 for r in w.reports if r[2] == "docstring" and r[1].startswith("bad docstring: "))
        outs.append(tok)
        trace.append(ent)
    return outs, trace


def canon_pd(w: World, pd, pdname=None) -> str:
    from pydoctor.epydoc.markup.plaintext import ParsedPlaintextDocstring
    from pydoctor.epydoc2stan import ParsedStanOnly
    st = stub_classes()
    if pd is None:
        return "N"
    if isinstance(pd, ParsedPlaintextDocstring):
        return "plain:" + enc(pd._text)
    if isinstance(pd, ParsedStanOnly):
        return "so:" + canon_stan(pd._fromstan)
    if isinstance(pd, st["StubPD"]):
        fs = []
        for f in pd.fields:
            b = f.body()
            bt = "t%d" % b.k if isinstance(b, st["StubTyped"]) else "u%d" % b.k if isinstance(b, st["StubPD"]) else "?"
            fs.append("%d/%s/%d" % (TAG_CODE.get(f.tag(), 0), bt, f.lineno))
        return "user%d[%s]" % (pd.k, ";".join(fs) or "-")
    if pdname is not None:
        return pdname(pd)
    return "real:" + type(pd).__name__


def canon_ptype(w: World, b, pdname=None) -> str:
    st = stub_classes()
    if b is None:
        return "N"
    if isinstance(b, st["StubTyped"]):
        return "t%d" % b.k
    if isinstance(b, st["StubPD"]):
        return "u%d" % b.k
    return pdname(b) if pdname is not None else "real:" + type(b).__name__


def canon_state(w: World, descr_token, pdname=None, only_report_errors: bool = True) -> str:
    """parse_errors, the reports filed through reportErrors ('bad <section>: …'), the import message, every object's
    cached forms.  Other warnings (Field.report, linker, 'Missing field name') belong to C09/C16 and are left out."""
    s = w.system
    errs = []
    for sec, names in s.parse_errors.items():
        for n in names:
            errs.append((SEC_NAMES.get(sec, 99), w.ids.get(n, 99)))
    errs.sort()
    etok = ",".join("%d.%d" % e for e in errs) or "-"
    rt = []
    for (i, descr, section, off) in w.reports:
        pre = "bad %s: " % section
        if section in SEC_NAMES and descr.startswith(pre):
            rt.append("%d.%d.%s.%d" % (i, SEC_NAMES[section], descr_token(descr[len(pre):]), off))
        elif not only_report_errors:
            rt.append("%d.%s.other" % (i, section))
    keys = sorted((SEC_NAMES.get(sec, 99), w.ids.get(n if isinstance(n, str) else n.fullName(), 99), 0 if ph == "parsing" else 1)
                  for (sec, n, ph) in getattr(s, "reported_errors", ()))
    ptok = ",".join("%d.%d.%s" % (a, b, "pr"[c]) for a, b, c in keys) or "-"
    m = "1" if any(sec == "epydoc2stan" for sec, _ in s.once_msgs) else "0"
    ot = " ".join("%d=%s/%s/%s" % (i, canon_pd(w, o.parsed_docstring, pdname), canon_pd(w, o.parsed_summary, pdname),
                                   canon_ptype(w, o.parsed_type, pdname))
                  for i, o in enumerate(w.objs))
    return " | E " + etok + " | R " + (",".join(rt) or "-") + " | P " + ptok + " | M " + m + " | O " + ot


def apply_spec(w: World, spec: Dict[str, Any]) -> None:
    w.reset(spec["sys"], spec["pt"], spec["td"], spec.get("modfmt", {}))
    w.spec = spec
    for i, o in spec["objs"].items():
        w.objs[i].docstring = o.get("doc")
        if o.get("parsed") is not None:
            w.objs[i].parsed_docstring = make_stub(w, o["parsed"])
    for i, o in enumerate(w.objs):
        x = xo_of(spec, i)
        if x["ann"] is not None:
            w.node_stubs[id(o.annotation)] = x["ann"]
        if x["const"] is not None:
            w.node_stubs[id(o.value)] = x["const"]
        for (sb, node), k in zip(getattr(o, "rawbases", []) or [], x["bases"]):
            w.node_stubs[id(node)] = k
        for node, k in zip(getattr(o, "decorators", None) or [], x["decs"]):
            w.node_stubs[id(node)] = k
        if i in FUNCS and x["sig"] is None:
            o.signature = None


def run_fault_case(w: World, spec: Dict[str, Any]):
    apply_spec(w, spec)
    # the only real (non-stub) renderable in this stream is the summary of a plaintext docstring
    outs, trace = run_ops(w, spec["ops"], stan_role=lambda i, r: "o%d" % PLAIN_K if r == "summary" else None)
    line = "ok " + " ; ".join(outs) + canon_state(
        w, descr_token_fault, pdname=lambda pd: "user%d[-]" % PLAIN_K if type(pd).__name__ == "ParsedRstDocstring" else "real:" + type(pd).__name__)
    return line, trace


# ------------------------------------------------------------------ fault stream: generators

PLAIN_K = 9000
BYSTANDER = 4
BYST_TEXT = "Bystander  text.\n\n  second <p> & more"
TEXTS = ["Some text.\n\n  indented <b>&amp;</b>\n\ttab\n", "x", "Line one\nline two.  Two spaces\n\n\nend ", " lead and trail \n"]

PARSER_OUTCOMES = [
    ("ret", 1, []),
    ("ret", 1, [(1, 2, 0), (2, None, 0)]),
    ("ret", 1, [(3, 0, 1)]),
    ("ret", "plain", []),
    ("raise", "p1", [(1, 2, 0), (4, 5, 1)]),
    ("raise", "p1", []),
    ("raise", "o7", []),
    ("raise", "o7", [(1, 0, 0)]),
    ("raise", "ni", []),
]


def field_variants() -> List[Tuple[List[Tuple[int, int, int]], Dict[int, Any], Dict[int, Any]]]:
    """(fields of pd 1, extra pd specs, ty specs)"""
    d = default_pd
    return [
        ([], {}, {}),
        ([(0, 10, 1)], {}, {}),
        ([(1, 10, 1)], {}, {}),
        ([(1, 10, 3)], {}, {10: {"M": "r501,502", "S": "r1010"}}),
        ([(1, 10, 1)], {10: dict(d(10), N="xni")}, {}),
        ([(1, 10, 1)], {}, {10: {"M": "xo8", "S": "r1010"}}),
        ([(0, 10, 1)], {10: dict(d(10), S="xo9")}, {}),
        ([(0, 10, 1)], {10: dict(d(10), S="xo9", X="the separator, a form feed")}, {}),
        ([(0, 10, 1), (0, 11, 2)], {10: dict(d(10), S="xo9", X="  \n "), 11: dict(d(11), S="xo6", N="xni", X="unreachable")}, {}),
        ([(0, 10, 1), (1, 11, 2), (0, 12, 4)], {10: dict(d(10), S="xo9"), 11: dict(d(11), S="xo6")},
         {11: {"M": "r-", "S": "xo6"}}),
        ([(1, 10, 1), (1, 11, 2)], {11: dict(d(11), N="xo4")}, {}),
    ]


NODE_WALK = [
    ({"N": "xni"}, {}),
    ({"N": "xo3"}, {}),
    ({"N": "r", "W": "n"}, {}),
    ({"N": "r", "W": "xo4"}, {}),
    ({"N": "r", "W": "s2"}, {2: dict(default_pd(2))}),
    ({"N": "r", "W": "s2"}, {2: dict(default_pd(2), S="xo5")}),
]
TOCS = [
    ({"T": "e"}, {}),
    ({"T": "xo6"}, {}),
    ({"T": "c3"}, {3: dict(default_pd(3))}),
    ({"T": "c3"}, {3: dict(default_pd(3), S="xo7")}),
]
ORDERS = ["edst", "sdte", "tsde"]


def ops_for(x: int, order: str, extract_first: bool) -> List[Tuple[str, int]]:
    y = BYSTANDER
    ops = [("d", y), ("s", y)]
    if extract_first and x in (0, 1):
        ops.append(("x", x))
    h = holder_of(x)
    if h != x:
        ops.append(("s", h))      # the summary of the object the docstring is written on, before …
    ops += [(c, x) for c in order] * 2
    if h != x:
        ops.append(("s", h))      # … and after the inheriting object has been rendered
    ops += [("d", y), ("s", y), ("t", y)]
    return ops


def base_spec(fmt: str, pt: int, td: int, x: int, text: str) -> Dict[str, Any]:
    return {"kind": "fault", "pt": pt, "td": td, "sys": fmt, "x": x,
            "objs": {holder_of(x): {"doc": text}, BYSTANDER: {"doc": BYST_TEXT}},
            "pd": {}, "ty": {}, "par": {}, "plain": ("r", "s%d" % PLAIN_K, "e")}


def exhaustive_fault_cases(quick: bool):
    n = 0
    fvs = field_variants()
    # A: parser x processtypes x fields x body to_stan
    for fmt in "ergnp":
        for pt in (0, 1):
            for x in XS:
                for po in PARSER_OUTCOMES:
                    returns_user = po[0] == "ret" and po[1] == 1
                    for (fs, pds, tys) in (fvs if returns_user else fvs[:1]):
                        for bs in (("r1", "xo2") if returns_user else ("r1",)):
                            n += 1
                            sp = base_spec(fmt, pt, 1 + n % 2, x, TEXTS[n % len(TEXTS)])
                            sp["par"][(fmt, x)] = po
                            sp["pd"] = {1: dict(default_pd(1), S=bs, F=list(fs)), **{k: dict(v) for k, v in pds.items()}}
                            sp["ty"] = {k: dict(v) for k, v in tys.items()}
                            sp["ops"] = ops_for(x, ORDERS[n % 3], n % 2 == 0)
                            yield sp
    # B: to_node x summary walk x summary to_stan x toc builder x toc to_stan x toc depth
    combos = list(itertools.product((0, 1), ("r1", "xo2"), range(len(NODE_WALK)), range(len(TOCS)), (0, 1, 2)))
    for ci, (poi, bs, nw, tc, td) in enumerate(combos):
        pairs = list(itertools.product("ergnp", XS))
        if quick:
            pairs = [pairs[(ci * 7 + j * 5) % len(pairs)] for j in range(4)]
        for fmt, x in pairs:
            n += 1
            sp = base_spec(fmt, n % 2, td, x, TEXTS[n % len(TEXTS)])
            sp["par"][(fmt, x)] = PARSER_OUTCOMES[poi]
            pd1 = dict(default_pd(1), S=bs)
            pd1.update(NODE_WALK[nw][0])
            pd1.update(TOCS[tc][0])
            sp["pd"] = {1: pd1, **NODE_WALK[nw][1], **TOCS[tc][1]}
            sp["ops"] = ops_for(x, ORDERS[n % 3], n % 2 == 0)
            yield sp


def wrapper_fault_cases():
    """exhaustive sets for the further wrappers: type2stan / get_parsed_type, format_constant_value, format_signature,
    format_class_signature, format_decorators, search.format_docstring, and the field splitting of extract_fields"""
    n = 0
    d = default_pd
    SN = [("r", "r"), ("x", "r"), ("x", "xni"), ("x", "xo4")]        # (to_stan, to_node) of a colorized value / field body
    # C: the type shown for an Attribute: from a `type` field of its own docstring (typed under --process-types), or from the annotation
    for x in ATTRS:
        src = holder_of(x)
        for fmt in "eg":
            for pt in (0, 1):
                for source in ("field", "two-fields", "annotation", "preset-doc-none"):
                    for (sk, nk) in SN:
                        for tys in ("r", "x"):
                            if tys == "x" and not (pt and fmt == "e" and source in ("field", "two-fields")):
                                continue
                            n += 1
                            sp = base_spec(fmt, pt, 1, x, TEXTS[n % len(TEXTS)])
                            body = dict(d(10), S=("r10" if sk == "r" else "xo7"), N=("r" if nk == "r" else nk))
                            sp["pd"] = {10: body, 11: dict(d(11))}
                            sp["ty"] = {10: {"M": "r-", "S": "r1010" if tys == "r" else "xo6"}}
                            if source in ("field", "two-fields"):
                                fs = [(2, 11, 0, None), (0, 12, 1), (2, 10, 2, None)] if source == "two-fields" else [(2, 10, 0, None)]
                                sp["pd"][1] = dict(d(1), F=fs)
                                sp["par"][(fmt, x)] = ("ret", 1, [])
                            elif source == "annotation":
                                sp["par"][(fmt, x)] = ("ret", 1, [])
                                sp["pd"][1] = d(1)
                                sp["xo"] = {x: {"ann": 10}}
                            else:
                                sp["objs"][src] = {"doc": None}
                                sp["xo"] = {x: {"ann": 10}}
                            sp["xo"] = dict(sp.get("xo", {}))
                            sp["xo"].setdefault(x, {})["const"] = 13
                            sp["pd"][13] = dict(d(13), S=("r13" if sk == "r" else "xo8"), N=nk if nk != "r" else "r")
                            order = [["y", "y", "d", "y", "c", "q"], ["d", "y", "c", "q", "y"], ["q", "c", "y", "d"]][n % 3]
                            sp["ops"] = [("d", BYSTANDER)] + [(c, x) for c in order] + [("d", BYSTANDER), ("y", BYSTANDER)]
                            yield sp
    # D: signatures, class signatures, decorators
    for x in FUNCS:
        for sig in ("r5", "xo3", None):
            n += 1
            sp = base_spec("e", 0, 1, x, "doc")
            sp["xo"] = {x: {"sig": sig}}
            sp["ops"] = [("g", x), ("g", x), ("d", x), ("g", x)]
            yield sp
    for x, nb in ((7, 1), (10, 2), (11, 2)):
        for combo in itertools.product(SN, repeat=nb):
            n += 1
            sp = base_spec("e", 0, 1, x, "doc")
            ks = [870 + j for j in range(nb)]
            sp["pd"] = {k: dict(d(k), S=("r%d" % k if sk == "r" else "xo%d" % (j + 1)), N=nk) for j, (k, (sk, nk)) in enumerate(zip(ks, combo))}
            sp["xo"] = {x: ({"decs": ks} if x == 11 else {"bases": ks})}
            op = "r" if x == 11 else "b"
            sp["ops"] = [(op, x), (op, x), ("d", x)]
            yield sp
    # search text: to_node outcomes x parser outcomes x kinds
    for x in XS:
        for nk in ("r", "xni", "xo3", "xas"):
            for po in (0, 4, 6):
                n += 1
                sp = base_spec("er"[n % 2], n % 2, 1, x, TEXTS[n % len(TEXTS)])
                sp["par"][(sp["sys"], x)] = PARSER_OUTCOMES[po]
                sp["pd"] = {1: dict(d(1), N=nk)}
                sp["ops"] = [("q", x), ("d", x), ("q", x), ("s", x), ("t", x)] if n % 2 else [("s", x), ("q", x), ("d", x)]
                yield sp
    # E: extract_fields splits ivar/type fields onto the attributes; rendering those attributes afterwards
    for x, child in ((0, 5), (1, 3)):
        for pt in (0, 1):
            for fs in ([(3, 10, 1, child)], [(2, 10, 1, child)], [(3, 10, 1, None)], [(2, 10, 3, None), (0, 12, 4)],
                       [(3, 10, 1, child), (2, 11, 2, child)], [(3, 10, 1, child), (3, 11, 5, child)]):
                for (sk, nk) in SN[:3]:
                    n += 1
                    sp = base_spec("e", pt, 1, x, TEXTS[n % len(TEXTS)])
                    sp["par"][("e", x)] = PARSER_OUTCOMES[n % 2]
                    sp["pd"] = {1: dict(d(1), F=list(fs)), 10: dict(d(10), S=("r10" if sk == "r" else "xo7"), N=nk), 11: dict(d(11))}
                    sp["ops"] = [("x", x), ("s", x), ("d", child), ("s", child), ("y", child), ("t", child), ("q", child), ("d", x), ("d", child), ("s", x)]
                    yield sp


def rand_text(rng) -> str:
    alphabet = "ab c\n\n  .<&>`{}@:*"
    return "".join(rng.choice(alphabet) for _ in range(rng.randint(1, 14)))


def random_fault_case(rng) -> Dict[str, Any]:
    fmts = "ergnp"
    sysf = rng.choice(fmts)
    sp: Dict[str, Any] = {"kind": "fault", "pt": rng.randint(0, 1), "td": rng.choice([0, 1, 1, 3]), "sys": sysf,
                          "objs": {}, "pd": {}, "ty": {}, "par": {}, "plain": ("r", "s%d" % PLAIN_K, "e"), "modfmt": {}}
    for mi in (0, 6):
        r = rng.random()
        if r < 0.35:
            sp["modfmt"][mi] = rng.choice(fmts)
        elif r < 0.45:
            sp["modfmt"][mi] = "u"
    nextk = [20]

    def new_pd(depth=0) -> int:
        k = nextk[0]
        nextk[0] += 1
        p = default_pd(k)
        p["S"] = rng.choice(["r%d" % k, "r%d" % k, "xo%d" % rng.randint(1, 9), "xni", "xp3"])
        p["N"] = rng.choice(["r", "r", "r", "xni", "xo%d" % rng.randint(1, 9)])
        if depth == 0:
            w_ = rng.random()
            if w_ < 0.4:
                p["W"] = "s%d" % new_pd(1)
            elif w_ < 0.55:
                p["W"] = "xo%d" % rng.randint(1, 9)
            t_ = rng.random()
            if t_ < 0.4:
                p["T"] = "c%d" % new_pd(1)
            elif t_ < 0.55:
                p["T"] = rng.choice(["xo%d" % rng.randint(1, 9), "xni"])
            for _ in range(rng.choice([0, 0, 1, 2, 3])):
                b = new_pd(1)
                isty = rng.randint(0, 1)
                p["F"].append((isty, b, rng.randint(0, 9)))
                if isty and rng.random() < 0.6:
                    sp["ty"][b] = {"M": rng.choice(["r-", "r%d" % rng.randint(500, 520), "r501,502", "xo%d" % rng.randint(1, 9), "xni"]),
                                   "S": rng.choice(["r%d" % (1000 + b), "xo%d" % rng.randint(1, 9)])}
            p["_split"] = rng.random() < 0.3    # may get type/ivar fields once it is known which object it documents
        sp["pd"][k] = p
        return k
    for i in range(len(NAMES)):
        r = rng.random()
        o: Dict[str, Any] = {}
        if r < 0.55:
            o["doc"] = rand_text(rng)
        elif r < 0.65:
            o["doc"] = ""
        if rng.random() < 0.12:
            o["parsed"] = new_pd()
        if o:
            sp["objs"][i] = o
        for f in sorted(set([sysf] + [v for v in sp["modfmt"].values() if v and v != "u"] + ["p"])):
            if rng.random() < 0.8:
                c = rng.random()
                errs = [(rng.randint(1, 30), rng.choice([None, 0, 1, 7]), rng.randint(0, 1)) for _ in range(rng.choice([0, 0, 1, 2]))]
                if c < 0.5:
                    sp["par"][(f, i)] = ("ret", new_pd(), errs)
                elif c < 0.6:
                    sp["par"][(f, i)] = ("ret", "plain", errs)
                else:
                    sp["par"][(f, i)] = ("raise", rng.choice(["p1", "p2", "o%d" % rng.randint(1, 9), "ni"]), errs)
    # `type` / `ivar` fields only where the handlers file no warning of their own: `type` without argument in an
    # Attribute's docstring; `type`/`ivar` naming a child attribute (or nothing) in a class / module docstring
    children = {0: [5], 1: [3], 7: [9]}
    for (f, i), (kind, arg, errs) in list(sp["par"].items()):
        if kind == "ret" and arg != "plain" and sp["pd"][arg].pop("_split", False):
            if i in ATTRS:
                sp["pd"][arg]["F"].append((2, new_pd(1), rng.randint(0, 5), None))
            elif i in children:
                for _ in range(rng.randint(1, 2)):
                    sp["pd"][arg]["F"].append((rng.choice([2, 3]), new_pd(1), rng.randint(0, 5), rng.choice(children[i] + [None])))
    for p in sp["pd"].values():
        p.pop("_split", None)
    sp["xo"] = {}
    for i in range(len(NAMES)):
        x: Dict[str, Any] = {}
        if i in ATTRS and rng.random() < 0.5:
            x["ann"] = new_pd(1)
            x["const"] = new_pd(1)
        if i in FUNCS:
            x["sig"] = rng.choice(["r%d" % (840 + i), "xo2", None])
        if i in (7, 10) and rng.random() < 0.6:
            x["bases"] = [new_pd(1) for _ in xo_of({}, i)["bases"]]
        if i == 11 and rng.random() < 0.6:
            x["decs"] = [new_pd(1), new_pd(1)]
        if x:
            sp["xo"][i] = x
    focus = rng.sample(range(len(NAMES)), 3) + [2, 8, 3, 9, 5]
    sp["ops"] = []
    for _ in range(rng.randint(4, 14)):
        i = rng.choice(focus)
        ops = "eddsstxq" + ("yyc" if i in ATTRS else "") + ("g" if i in FUNCS else "") + ("b" if i in (7, 10) else "") + ("r" if i == 11 else "")
        sp["ops"].append((rng.choice(ops), i))
    sp["ops"] = [(op, i) for op, i in sp["ops"] if not (op == "x" and sp["objs"].get(i, {}).get("doc") is None and rng.random() < 0.8)]
    # the search text of an object with an EMPTY docstring cannot be told from "to_node gave no text": not asked for
    sp["ops"] = [(op, i) for op, i in sp["ops"] if not (op == "q" and any(sp["objs"].get(j, {}).get("doc") == "" for j in [i] + INHERITED.get(i, [])))]
    return sp


# ------------------------------------------------------------------ fault stream: direct oracle (no Lean model involved)

def spec_source(spec: Dict[str, Any], i: int) -> Optional[int]:
    """the first object among i and the objects it inherits from that has a docstring (model.get_docstring's `source`;
    an empty docstring still makes its owner the source)"""
    for s in [i] + INHERITED.get(i, []):
        d = spec["objs"].get(s, {}).get("doc")
        if d is not None:
            return s
    return None


def spec_docformat(spec: Dict[str, Any], src: int) -> str:
    if spec["sys"] == "p":
        return "p"
    return spec.get("modfmt", {}).get(MODULE_OF[src]) or spec["sys"]


def injected_outcome(spec: Dict[str, Any], fmt: str, i: int):
    """what was injected for the parser of object i: ('ret', pd k | 'plain', errs) or ('raise', contract_ok)"""
    if fmt == "u":
        return ("ret", "plain", [])
    par = spec.get("par", {}).get((fmt, i))
    if par is None:
        return ("ret", "plain", [])
    kind, arg, errs = par
    if kind == "raise":
        return ("raise", not (arg[0] == "p" and not errs))
    if arg != "plain" and spec["pt"] and fmt not in "gnp":
        pd = spec.get("pd", {}).get(arg) or default_pd(arg)
        for f in pd["F"]:
            t, bk = f[0] in (1, 2), f[1]
            if t:
                b = spec.get("pd", {}).get(bk) or default_pd(bk)
                ty = spec.get("ty", {}).get(bk) or default_ty(bk)
                if b["N"][0] == "x" or ty["M"][0] == "x":
                    return ("raise", True)
    return ("ret", arg, errs)


OP_NAMES = {"e": "ensure", "d": "docstring", "s": "summary", "t": "toc", "x": "extract", "y": "type", "c": "constant", "g": "signature", "b": "class-signature", "r": "decorators", "q": "search"}


def wrapper_failure(ctx: Ctx, t, inp, injected_pyval: bool) -> bool:
    """an exception out of one of the further wrappers; returns True when it was classified here"""
    e = t["raised"]
    if t["op"] == "q":
        ctx.fail("search:to_node-exception-escapes", inp, "search.format_docstring raised %s: to_node() of the parsed docstring "
                 "failed and only NotImplementedError is handled there — the run aborts while the search index is built" % type(e).__name__)
        return True
    if t["op"] == "y":
        ctx.fail("type2stan:fallback-raises", inp, "type2stan raised %s: to_stan of the type failed and colorized_pyval_fallback "
                 "calls to_node() without a handler (a ParsedTypeDocstring has no to_node)" % type(e).__name__)
        return True
    if t["op"] in "cbr":
        ctx.fail("%s:fallback-raises" % OP_NAMES[t["op"]], inp, "%s raised %s out of safe_to_stan's fallback" % (OP_NAMES[t["op"]], type(e).__name__))
        return True
    return False


def summary_stability(trace):
    """objects whose summary changed between two format_summary calls although nothing was done to them in between
    (extract_fields re-parses, so it resets the comparison): [(obj, before, after, ops in between)]"""
    last: Dict[int, Tuple[str, int]] = {}
    bad = []
    for n, t in enumerate(trace):
        if t["op"] == "x":
            last = {}
        elif t["op"] == "s" and t["raised"] is None and not t["hang"]:
            if t["obj"] in last and last[t["obj"]][0] != t["tok"]:
                k = last[t["obj"]][1]
                bad.append((t["obj"], last[t["obj"]][0], t["tok"], "".join("%s:%d " % (u["op"], u["obj"]) for u in trace[k + 1:n])))
            last[t["obj"]] = (t["tok"], n)
    return bad


def fault_oracle(ctx: Ctx, w: World, spec: Dict[str, Any], trace) -> None:
    from pydoctor.epydoc.markup.plaintext import ParsedPlaintextDocstring

    def fail(sig: str, what: str) -> None:
        ctx.fail(sig, {"kind": "fault", "spec": spec_json(spec)}, what)
    seen: Dict[Tuple[str, int], int] = {}
    prev = 0
    for t in trace:
        opn = OP_NAMES[t["op"]]
        if t["hang"]:
            fail("hang:" + opn, "%s did not return within the time limit" % opn)
        elif t["raised"] is not None:
            e = t["raised"]
            if t["op"] == "x" and isinstance(e, AssertionError) and spec["objs"].get(t["obj"], {}).get("doc") is None:
                pass  # extract_fields' documented precondition (object has a docstring) not met by the random stream
            elif t["op"] == "t":
                fail("toc:unguarded-exception", "format_toc raised %s: an exception of to_node()/build_table_of_content() "
                     "inside ParsedDocstring.get_toc is not handled" % type(e).__name__)
            elif wrapper_failure(ctx, t, {"kind": "fault", "spec": spec_json(spec)}, True):
                pass
            else:
                fail("%s:raises:%s" % (opn, type(e).__name__), "%s raised %s" % (opn, type(e).__name__))
        elif t["flat_err"]:
            fail("flatten:%s:%s" % (opn, t["flat_err"]), "stan returned by %s cannot be flattened" % opn)
        key = (t["op"], t["obj"])
        if key in seen and t["nreports"] != prev:
            fail("reported-twice:" + opn, "a repeated %s call on the same object filed %d more report(s)" % (opn, t["nreports"] - prev))
        if t["op"] == "x":  # extract_fields re-parses, and gives the attributes its fields name a new parsed_docstring:
            seen = {}       # later calls on any of them start afresh
        seen[key] = 1
        prev = t["nreports"]
    for (i, before, after, between) in summary_stability(trace):
        fail("summary:fallback-overwrites-source-summary", "the summary of %s changed from %s to %s after rendering OTHER objects (%s): "
             "format_summary_fallback stores the BROKEN summary on the source of the docstring instead of the object being rendered"
             % (NAMES[i], before[:30], after[:30], between.strip()))
    errs_now = {w.ids[n] for n in w.system.parse_errors.get("docstring", ())}
    reported = {}
    for (i, descr, section, off) in w.reports:
        if section == "docstring":      # the other sections (annotation, signature, …) are about the object itself
            reported.setdefault(i, []).append(descr)
    touched = {i for _, i in spec["ops"]}
    for p in spec.get("pd", {}).values():           # attributes named by ivar/type fields are written by extract_fields
        touched |= {f[3] for f in p["F"] if len(f) > 3 and f[3] is not None}
    ann_now = {w.ids[n] for n in w.system.parse_errors.get("annotation", ())}
    for t in trace:
        if t["op"] == "y" and t["raised"] is None and t["tok"] in ("typ=code", "typ=broken") and t["obj"] not in ann_now:
            fail("type:fallback-not-reported", "the type's to_stan failed (plain-text fallback shown) but nothing was reported in section annotation")
    # a summary whose renderer failed shows the BROKEN placeholder: the problem must have been reported against the source
    for t in trace:
        if t["op"] == "s" and t["raised"] is None and t["tok"] == "sum=broken":
            srcs = spec_source(spec, t["obj"])
            srcs = PARENT[t["obj"]] if srcs is None and spec["objs"].get(t["obj"], {}).get("parsed") is not None else srcs
            srcs = t["obj"] if srcs is None else srcs
            if srcs not in errs_now:
                fail("summary:render-failure-unreported", "the summary's renderer failed ('Broken description' is shown in the listings) and "
                     "nothing was reported against the object: format_summary calls safe_to_stan with report=False")
    sources = {spec_source(spec, i) for i in touched} | {PARENT[i] for i in touched if spec["objs"].get(i, {}).get("parsed") is not None}
    for i, o in enumerate(w.objs):
        if i in touched or i in sources:
            continue
        preset = spec["objs"].get(i, {}).get("parsed")
        if (o.parsed_docstring is not None and preset is None) or o.parsed_summary is not None or i in errs_now or i in reported:
            fail("isolation:untouched-object-changed", "object %s was never processed but its state or reports changed" % NAMES[i])
    x = spec.get("x")
    if x is None:
        return
    if any(op == "x" for op, _ in spec["ops"]) and spec.get("pd", {}).get(1, {}).get("F"):
        # extract_fields split an `ivar` field onto a child: the child's documentation IS that field body; when its
        # renderer fails the parent's whole docstring is shown and the parent is the object reported
        for f in spec["pd"][1]["F"]:
            if f[0] == 3 and len(f) > 3 and f[3] is not None and injected_outcome(spec, spec_docformat(spec, x), x)[0] == "ret":
                body = spec["pd"].get(f[1]) or default_pd(f[1])
                last = [g for g in spec["pd"][1]["F"] if g[0] == 3 and len(g) > 3 and g[3] == f[3]][-1]
                if body["S"][0] == "x" and last is f:
                    for t in trace:
                        if t["op"] == "d" and t["obj"] == f[3] and t["raised"] is None:
                            if t["body"] != "pre:" + enc(spec["objs"][x]["doc"]):
                                fail("split-field:fallback-not-parent-text", "the body of a split field failed to render and the "
                                     "attribute does not show the parent's original docstring")
                            if x not in {w.ids[n] for n in w.system.parse_errors.get("docstring", ())}:
                                fail("split-field:not-reported", "the failure of a split field body was not reported against the parent")
    # ---- single-object cases: the property's clauses one by one
    src = holder_of(x)          # the object the docstring is written on (x itself unless inherited)
    doc = spec["objs"][src]["doc"]
    fmt = spec_docformat(spec, src)
    out = injected_outcome(spec, fmt, x)
    if src != x and (x in errs_now or x in reported):
        fail("inherited:reported-against-inheriting-object", "a problem of an inherited docstring was reported against the "
             "inheriting object instead of the object the docstring is written on")
    shown = [t for t in trace if t["op"] == "d" and t["obj"] == x and t["raised"] is None and not t["hang"]]
    pd = w.objs[x].parsed_docstring
    if out[0] == "raise":
        if not (isinstance(pd, ParsedPlaintextDocstring) and pd._text == doc):
            fail("fallback:parsed-form-not-full-text", "parser gave up but parsed_docstring is not the plaintext of the whole docstring")
        for t in shown:
            if t["body"] != "pre:" + enc(doc):
                fail("fallback:display-differs", "parser gave up but the body shown is not the whole original text")
        if out[1]:
            if src not in errs_now or not reported.get(src):
                fail("fallback:not-reported", "parser gave up and nothing was reported against the object")
        else:
            ctx.count("fault:parser-contract-breach-injected")
    else:
        k, errs = out[1], out[2]
        if errs and (src not in errs_now or len([d for d in reported.get(src, []) if d.startswith("bad docstring: M")]) < len(errs)):
            fail("recovered-errors:not-reported", "the parser stored %d error(s) and returned; they were not all reported against the object" % len(errs))
        if k != "plain":
            p = spec.get("pd", {}).get(k) or default_pd(k)
            if p["S"][0] == "x":
                for t in shown:
                    if t["body"] != "pre:" + enc(doc):
                        fail("render-fallback:display-differs", "to_stan raised but the body shown is not the whole original docstring")
                if shown and src not in errs_now:
                    fail("render-fallback:not-reported", "to_stan raised and the object is not among the reported objects")
                elif shown and not any(d.startswith("bad docstring: ValueError: E" + p["S"][2:]) for d in reported.get(src, [])):
                    fail("report:render-failure-masked-by-earlier-warning", "to_stan raised, the whole text is shown as plain text, but the "
                         "log only has the parser's earlier warning(s): reportErrors files one group per (section, object)")
            pt_applies = bool(spec["pt"]) and fmt not in "gnp"
            # the fields whose handler formats the body (`ivar` never; `type` not for an Attribute, else only with an argument)
            formatted = [f for f in p["F"] if f[0] in (0, 1) or (f[0] == 2 and x not in ATTRS and len(f) > 3 and f[3] is not None)]
            for t in shown:
                for j, f in enumerate(formatted):
                    isty, bk = f[0] in (1, 2), f[1]
                    b = spec.get("pd", {}).get(bk) or default_pd(bk)
                    s = (spec.get("ty", {}).get(bk) or default_ty(bk))["S"] if (isty and pt_applies) else b["S"]
                    got = t["fields"][j] if j < len(t["fields"]) else "missing"
                    typed = isty and pt_applies
                    text = "" if typed or b["N"] != "r" else b.get("X", "")
                    want = "pre:" + enc(text) if text.strip() else "broken"
                    if s[0] == "x" and got != want:
                        fail("field:render-failure-text-lost" if got == "broken" else "field:fallback-differs",
                             "a field body's to_stan raised: the field must show its text as plain text (the BROKEN placeholder only "
                             "when it has no node tree or no visible text); shown %s" % got[:40])
                    if s[0] == "r" and got != "o" + s[1:]:
                        fail("field:lost", "a field body rendered fine but is not what the handler received")
    ys = [t["tok"] for t in trace if t["obj"] == BYSTANDER]
    firsts: Dict[str, str] = {}
    for t in trace:
        if t["obj"] == BYSTANDER and x != BYSTANDER:
            if t["op"] in firsts and firsts[t["op"]] != t["tok"]:
                fail("isolation:bystander-output-changed", "the rendering of another object's docstring changed after a failing object was processed")
            firsts.setdefault(t["op"], t["tok"])
    if x != BYSTANDER and (BYSTANDER in errs_now or BYSTANDER in reported):
        fail("isolation:bystander-reported", "a healthy object was reported while another object's docstring failed")


def spec_json(spec: Dict[str, Any]) -> Dict[str, Any]:
    d = dict(spec)
    d["par"] = [[f, i, list(v[:2]) + [list(map(list, v[2]))]] for (f, i), v in spec.get("par", {}).items()]
    d["objs"] = {str(k): v for k, v in spec["objs"].items()}
    d["pd"] = {str(k): v for k, v in spec.get("pd", {}).items()}
    d["ty"] = {str(k): v for k, v in spec.get("ty", {}).items()}
    d["modfmt"] = {str(k): v for k, v in spec.get("modfmt", {}).items()}
    return d


def spec_unjson(d: Dict[str, Any]) -> Dict[str, Any]:
    s = dict(d)
    s["par"] = {(f, i): (v[0], v[1], [tuple(e) for e in v[2]]) for f, i, v in d.get("par", [])}
    s["objs"] = {int(k): v for k, v in d["objs"].items()}
    s["pd"] = {int(k): dict(v, F=[tuple(f) for f in v["F"]]) for k, v in d.get("pd", {}).items()}
    s["ty"] = {int(k): v for k, v in d.get("ty", {}).items()}
    s["modfmt"] = {int(k): v for k, v in d.get("modfmt", {}).items()}
    s["ops"] = [tuple(o) for o in d["ops"]]
    if "plain" in s:
        s["plain"] = tuple(s["plain"])
    return s


# ------------------------------------------------------------------ real stream: docstring generators

FRAGMENTS = {
    "epytext": ["L{", "C{x}", "B{", "}", "{", "U{http://x}", "L{a<b}", "I{x", "L{x y}", "L{text<a.b>}", "@param x: y", "@param",
                "@type x: L{int", "@type x: int or None", "@return: ", "@rtype: C{str}", "@raise: ", "@raise E", "@ivar x: y",
                "@note: a", "@unknownfield: z", "@param x y", "  - item", " - item", "1. one", "  2. two", ">>> print(1)",
                "x::", "    literal", "Heading\n=======", "Sub\n---", "Short\n==========", "E{lb}", "E{zz}", "S{alpha}",
                "S{nope}", "M{x^2}", "\t", "G{classtree}", "X{idx}", "L{}", "U{}", "@param x:\n   - a\n  - b", "@see: L{",
                "@since", "@", "@:", "the record ends with }.", "prose C{x} and more prose } tail", "value; } trailing", "@param a: sep \x0c here", "@note: a \ufffe b", "@return: x \x0c", "    @param deep: x", "C{L{I{B{x}}}}", "::"],
    "restructuredtext": ["``x", "`x", "`x`_", "*x", "**x", "|x|", "x_", ".. foo::", ".. note::", ".. image::", ".. code:: python",
                         ":param x: y", ":type x: `int", ":returns:", ":rtype: str", ":ivar x:", ":raises E: when", "+--+\n|a |\n+--+",
                         "+--+\n|a", "====\nT\n====", "T\n=", "T\n---\n", "* item", "  indented", "::", "[1]_", ".. [1] note",
                         ".. _t:", "`t`_", ":role:`x`", ":math:`x", ".. include:: /etc/hostname", ".. raw:: html\n\n   <b>",
                         ".. csv-table::\n   :file: /x", ".. contents::", ".. sectnum::", ".. class:: x", ".. |s| replace:: t",
                         ".. unicode:: 0x", ".. versionadded:: 1", ".. deprecated::", ":py:class:`a.b`", ":obj:`~x`", "`x <http://a>`_",
                         "`x <y`_", "__ x", "anonymous__", ".. __: http://x", ".. table::\n\n   == ==\n   a  b", "A\n=\nB\n-\nC\n=\nD\n^\nE\n-",
                         ".. code-block:: python\n   :linenos:\n\n   x", ".. math::\n\n   \\frac", ">>> 1+", ".. |a| image:: x", "|a|",
                         ".. date::", ":Author: me", "Notes\n==", "3. three\n4. four", ".. _unused:", "Dup\n===\n\nx\n\nDup\n===", ".. default-role:: literal", ".. figure:: d.png\n\n   .. default-role:: literal",
                         ".. role:: custom(emphasis)", ":custom:`x`", ":param a: sep \x0c here", ":note: a \ufffe b", ":param:", ":unknown field: v", "\\", "x\\", ".. admonition::", ".. figure:: a\n   :scale: x"],
    "google": ["Args:", "    x (int): y", "  x: y", "Returns:", "    str: d", "Raises:", "    ValueError", "Attributes:", "Example::",
               "Note:", "Yields:", "Keyword Args:", "Args:\n x (list[int", "Todo:", "    * x", "Args:\n    *args: a\n    **kw: b",
               "Returns:\n  :class:`x`", "Warns:", "See Also:\n    f", "Args:\n\tx: tab", "Attributes:\n    x (`int): y", "Args:\n    x (int, optional", "Other Parameters:"],
    "numpy": ["Parameters\n----------", "x : int", "    desc", "Returns\n-------", "str", "Raises\n------", "See Also\n--------",
              "func_a : d", "Attributes\n----------", "Notes\n-----", "x : {a, b", "Parameters\n---", ".. deprecated:: 1",
              "Yields\n------\nint", "x, y : array_like", "*args", "Examples\n--------\n>>> a", "References\n----------\n.. [1] x",
              "Parameters\n----------\nx : int, optional, default", "See Also\n--------\nf, g :", "Methods\n-------\nm(x)"],
}
SEPARATORS = ["\n", "\n\n", " ", "\n  ", "", "\n    ", "\n\n  ", "\r\n", ": "]
SPECIALS = ["{", "}", "`", "*", "|", ":", "_", "\\", "\t", "\x0b", "@", "<", ">", "&", "::", "``", "\n", "\n\n", "  ", "=", "-", "\x00", "\x1b", "\u200b", "\u2028", "\x85", "\ufeff", "\U0001f600", "\u0301"]


def gen_fragments(rng, fmt: Optional[str] = None) -> str:
    pool = FRAGMENTS[fmt] if fmt and rng.random() < 0.7 else [f for v in FRAGMENTS.values() for f in v]
    parts = []
    for _ in range(rng.randint(1, 8)):
        parts.append(rng.choice(pool) if rng.random() < 0.85 else rng.choice(["word", "Some sentence here.", "x", rng.choice(SPECIALS)]))
        parts.append(rng.choice(SEPARATORS))
    return "".join(parts)


_CORPUS: List[str] = []


def corpus() -> List[str]:
    """docstrings of /repo/pydoctor/**/*.py and paragraphs of /repo/docs (read once, deterministic order)"""
    if _CORPUS:
        return _CORPUS
    seen = set()
    for path in sorted((REPO / "pydoctor").rglob("*.py")):
        if "/test/testpackages/" in str(path) and "syntax_error" in str(path):
            continue
        try:
            tree = ast.parse(path.read_text(encoding="utf-8"))
        except Exception:
            continue
        for node in ast.walk(tree):
            if isinstance(node, (ast.Module, ast.ClassDef, ast.FunctionDef, ast.AsyncFunctionDef)):
                d = ast.get_docstring(node)
                if d and 5 < len(d) < 1500 and d not in seen:
                    seen.add(d)
                    _CORPUS.append(d)
    for path in sorted((REPO / "docs").rglob("*.rst")):
        try:
            paras = path.read_text(encoding="utf-8").split("\n\n")
        except Exception:
            continue
        for i in range(0, len(paras), 3):
            d = "\n\n".join(paras[i:i + 3])
            if 5 < len(d) < 1500 and d not in seen:
                seen.add(d)
                _CORPUS.append(d)
    return _CORPUS


def mutate(rng, d: str) -> str:
    for _ in range(rng.randint(1, 4)):
        if not d:
            break
        m = rng.randrange(8)
        i = rng.randrange(len(d))
        if m == 0:
            d = d[:i] + d[i + rng.randint(1, 12):]
        elif m == 1:
            d = d[:i] + rng.choice(SPECIALS) + d[i:]
        elif m == 2:
            lines = d.split("\n")
            j = rng.randrange(len(lines))
            lines.insert(j, lines[j])
            d = "\n".join(lines)
        elif m == 3:
            lines = d.split("\n")
            j = rng.randrange(len(lines))
            lines[j] = rng.choice(["  ", "    ", "\t", " "]) + lines[j] if rng.random() < 0.6 else lines[j].lstrip()
            d = "\n".join(lines)
        elif m == 4:
            lines = d.split("\n")
            if len(lines) > 1:
                a, b = rng.randrange(len(lines)), rng.randrange(len(lines))
                lines[a], lines[b] = lines[b], lines[a]
            d = "\n".join(lines)
        elif m == 5:
            d = d[:i]
        elif m == 6:
            d = d[:i] + rng.choice(FRAGMENTS[rng.choice(list(FRAGMENTS))]) + d[i:]
        else:
            d = d.replace(rng.choice([":", "`", "{", "}", "@", "-", "="]), rng.choice(SPECIALS), rng.randint(1, 3))
    return d


def gen_unicode(rng, surrogates: bool = False) -> str:
    out = []
    for _ in range(rng.randint(1, 30)):
        r = rng.random()
        if r < 0.25:
            c = rng.randrange(0, 32)
        elif r < 0.32:
            c = rng.randrange(127, 160)
        elif r < 0.6:
            c = rng.randrange(32, 127)
        elif r < 0.7:
            c = rng.choice([0x2028, 0x2029, 0xFFFE, 0xFFFF, 0xFEFF, 0x200B, 0x200D, 0x202E, 0x0301, 0x0300, 0xFFFD, 0x85, 0xA0, 0x1FFFF, 0x10FFFF, 0xFDD0])
        elif r < 0.9:
            c = rng.randrange(0xA0, 0xD800) if rng.random() < 0.7 else rng.randrange(0xE000, 0x10000)
        else:
            c = rng.randrange(0x10000, 0x110000)
        if 0xD800 <= c < 0xE000:
            c = 0xFFFD
        out.append(chr(c))
    if surrogates:
        for _ in range(rng.randint(1, 3)):
            out.insert(rng.randrange(len(out) + 1), chr(rng.randrange(0xD800, 0xE000)))
    return "".join(out)


EPY_WARNINGS = ["@note this field item lacks its colon", "@param", "@return something", "Heading\n=====", "Title\n====\n\nSub\n--",
                "@see also the other thing"]
EPY_FATALS = ["Details about it follow.\n    This continuation line is indented too far.", "Some B{unbalanced brace here.",
              "A stray } brace.", "See L{a.b for more.", "  - item\n dedented text after the list", "Text C{code I{nested}.",
              "1. one\n  - wrong nesting\n 2. two", "U{http://x"]


def gen_epytext_warn_then_fatal(rng) -> str:
    """a NON-fatal epytext warning recorded first, a FATAL structuring/colorizing error later in the same docstring"""
    parts = [rng.choice(["Frobnicate the widget.", "Summary line.", "x"])]
    parts += rng.sample(EPY_WARNINGS, rng.randint(1, 2))
    parts += rng.sample(EPY_FATALS, rng.randint(1, 2))
    if rng.random() < 0.3:
        parts.append(rng.choice(["@param x: the x", "@return: nothing", "Last words."]))
    return "\n\n".join(parts) + rng.choice(["", "\n"])


LONG_HEADINGS = [
    "Differences between the synchronous and the asynchronous API when reading",
    "Differences between the synchronous and the asynchronous API when writing",
    "A deliberately long section heading that goes on and on well past any sensible limit for an anchor name in a URL",
    "A deliberately long section heading that goes on and on well past any sensible limit for an anchor name in a link",
]
SHORT_HEADINGS = ["Usage", "Usage-1", "Usage-2", "Notes", "usage", "See also", "API", "A-1", "A"]
ODD_HEADINGS = ["!!!", "???", "...", "\u4e2d\u6587\u6807\u9898", "\u65e5\u672c\u8a9e", "-", "- -", "1", "-1", "#1 & #2"]


def gen_heading_docstring(rng) -> str:
    """2-4 section headings (epytext and reST share the underline syntax): identical short / identical long / long differing
    in the last word / slugs that are empty / a heading equal to another one plus '-1'"""
    kind = rng.randrange(6)
    n = rng.randint(2, 4)
    if kind == 0:
        hs = [rng.choice(SHORT_HEADINGS[:3])] * n
    elif kind == 1:
        hs = [rng.choice(LONG_HEADINGS)] * n
    elif kind == 2:
        pair = LONG_HEADINGS[:2] if rng.random() < 0.5 else LONG_HEADINGS[2:]
        hs = [pair[j % 2] for j in range(n)]
    elif kind == 3:
        hs = [rng.choice(ODD_HEADINGS) for _ in range(n)]
    elif kind == 4:
        h = rng.choice(SHORT_HEADINGS + LONG_HEADINGS)
        hs = [h, h + "-1", h][:n] + ([h + "-1"] if n == 4 else [])
    else:
        hs = [rng.choice(SHORT_HEADINGS + LONG_HEADINGS + ODD_HEADINGS) for _ in range(n)]
    parts = [rng.choice(["Intro sentence.", "Storage back-ends.", ""])]
    for j, h in enumerate(hs):
        ch = "=" if (j == 0 or rng.random() < 0.7) else "-"
        width = len(h) * (2 if any(ord(c) > 0x2e80 for c in h) and rng.random() < 0.5 else 1)
        parts.append("%s\n%s" % (h, ch * width))
        parts.append(rng.choice(["Text under the heading.", "Reads block until the data is there.", "x"]))
    return "\n\n".join(p for p in parts if p) + "\n"


# past failures, run first in every real stream (the minimal forms of the inputs behind the known findings)
REGRESSION_DOCS = [
    "Storage back-ends.\n\n" + LONG_HEADINGS[0] + "\n" + "=" * len(LONG_HEADINGS[0]) + "\n\nReads block until the data is there.\n\n"
    + LONG_HEADINGS[1] + "\n" + "=" * len(LONG_HEADINGS[1]) + "\n\nWrites are queued.\n",
    "Frobnicate the widget.\n\n@note this field item lacks its colon\n\nDetails about the frobnication follow.\n"
    "    This continuation line is indented too far and must not be lost.\n",
    "Run the job.\n\nPage one of the notes,\x0ccontinued after an odd character.\nPage two of the notes.",
    "Run the job.\n\nPage one of the notes,\ufffecontinued after an odd character.\nPage two of the notes.",
    "Summary.\n @param a: x\n\n@param b: y",
    "Summary.\n\n    @note: x\n\n@param y: z",
    "Summary.\n @ivar a: x\n\n@ivar b: y",
    "@type: C{a\x0cb}",
    ":type: ``a\xa0b``",
    "int or ``a\xa0\xa0b``: the x",
    "The x.\n\n@type: L{int} or C{None}",
    "Unclosed `role\n\nand a \ufffe char",
    "Split a text into pages.\n\n@param a: The separator, a form feed ('\x0c') by default.\n@return: The list of pages.",
    "Split.\n\n:param a: sep \ufffe here\n:note: foo \uffff bar",
    "Split.\n\nArgs:\n    a: The separator, a form feed ('\x0c') by default.",
    "Summary.\n\n" + "x" * 10001,
    "A diagram.\n\n.. figure:: diagram.png\n\n   .. default-role:: literal\n",
    # a stray closing brace in prose (seeded C08-r5-1: downgraded to a warning, the text before it is dropped)
    "Frame format.\n\nThe record starts with C{STX} and the payload ends with }. Trailing words stay.",
    "A half quoted snippet: return value; } and then more prose follows here.",
    # docstrings whose ONLY problem docutils files at INFO level (seeded C08-r5-2: the reader ignored those)
    "Notes\n==\n\nBody text under a too short underline.",
    "Usage\n=====\n\nfirst\n\nUsage\n=====\n\nsecond",
    "Steps:\n\n3. three\n4. four",
    "Text.\n\n.. _unused-target:\n\nMore text.",
    # SEVERE docutils messages (seeded C08-r4-2: a reader that raises ParseError for them without storing it)
    "Intro.\n\n.. include:: /nonexistent-c08-file\n\nOutro.",
    "Intro.\n\n.. csv-table::\n   :file: /nonexistent-c08-file\n",
    "Intro.\n\n.. raw:: html\n   :file: /nonexistent-c08-file\n",
    "Doc.\n\n@param x the widget\n\nand a \ufffe char",
    "Summary with \ufffe char.\n\nBody.",
    "Summary with \x0c char.",
    " - item \u0301\x0f\x05m\x02B\u2029\xa0\x10\x92",
    "Args:\n x (list[int\n\nReturns\n-------\n",
]


def gen_real_docstring(rng) -> Tuple[str, str]:
    r = rng.random()
    if r < 0.08:
        return "epytext-warning-then-fatal", gen_epytext_warn_then_fatal(rng)
    if r < 0.16:
        return "section-headings", gen_heading_docstring(rng)
    if r < 0.17:
        return "long-line", rng.choice(["Summary.\n\n", "Decode.\n\nA payload::\n\n    ", ""]) + rng.choice("xQ ") * rng.choice([10001, 12000]) + rng.choice(["", "\n\nTail."])
    if r < 0.4:
        f = rng.choice(list(FRAGMENTS))
        return "fragments:" + f, gen_fragments(rng, f)
    if r < 0.8:
        c = corpus()
        return "mutated", mutate(rng, rng.choice(c))
    if r < 0.9:
        return "unicode", gen_unicode(rng)
    f = rng.choice(list(FRAGMENTS))
    return "fragments+unicode", gen_fragments(rng, f) + gen_unicode(rng)


# ------------------------------------------------------------------ real stream: run, observe the parameters, oracle

BYST_REAL = "Bystander summary sentence about `B`.\n\nSecond paragraph of plain words."


@contextlib.contextmanager
def record_patches(w: World):
    """wrap (not replace) the real parsers: record what the composed parser did for each object"""
    from pydoctor import epydoc2stan
    real_get = epydoc2stan.get_parser_by_name
    real_pt = epydoc2stan.processtypes

    from pydoctor.epydoc.markup import restructuredtext as R
    real_new_document = R._EpydocReader.new_document

    def new_document(self):
        # a second observer next to pydoctor's own: every system message docutils hands out, whatever its level
        doc = real_new_document(self)
        doc.reporter.attach_observer(lambda m: w.handed_now.append((m["level"], "".join(c.astext() for c in m))))
        return doc

    def wrap(p, obj):
        def rec(doc, errs):
            outer = getattr(w, "handed_depth", 0) == 0
            if outer:
                w.handed_now = []
            w.handed_depth = getattr(w, "handed_depth", 0) + 1
            try:
                pd = p(doc, errs)
            except Hang:
                raise
            except BaseException as e:
                w.records[w.oid(obj)] = ("raise", e, list(errs))
                raise
            finally:
                w.handed_depth -= 1
                if outer:
                    w.handed[w.oid(obj)] = list(w.handed_now)
            w.records[w.oid(obj)] = ("ret", pd, list(errs))
            return pd
        rec._c08_obj = obj
        return rec

    def get_parser(docformat, obj=None):
        return wrap(real_get(docformat, obj), obj)

    def processtypes(p):
        return wrap(real_pt(p), p._c08_obj)
    epydoc2stan.get_parser_by_name = get_parser
    epydoc2stan.processtypes = processtypes
    R._EpydocReader.new_document = new_document
    try:
        yield
    finally:
        epydoc2stan.get_parser_by_name = real_get
        epydoc2stan.processtypes = real_pt
        R._EpydocReader.new_document = real_new_document


REAL_ORDERS = ["edst", "sdte", "tsde"]   # pydoctor itself asks for summaries (listings) before bodies


def real_ops(x: int, order: int = 0) -> List[Tuple[str, int]]:
    y = BYSTANDER
    h = holder_of(x)
    around = [("s", h)] if h != x else []
    return [("d", y), ("s", y)] + around + [(c, x) for c in REAL_ORDERS[order % 3]] * 2 + around + [("d", y), ("s", y), ("t", y)]


class Observer:
    """after the run: call the parameters (parser record, to_stan, to_node, walk result, toc builder) once more to learn
    their outcomes, and phrase them as a model request"""

    def __init__(self, w: World, fmt: str, pt: int, td: int) -> None:
        self.w, self.fmt, self.pt, self.td = w, fmt, pt, td
        self.excids: Dict[str, int] = {}
        self.exc_descr: Dict[str, str] = {}
        self.descr: Dict[str, str] = {}
        self.names: Dict[int, str] = {}
        self.spec: Dict[str, Any] = {"kind": "real-model", "pt": 0, "td": td, "sys": fmt, "objs": {}, "pd": {}, "ty": {},
                                     "par": {}, "plainfor": {}}

    def exc_tok(self, e: BaseException) -> str:
        from pydoctor.epydoc.markup import ParseError
        # keyed by class: the message of some renderer exceptions (SAXParseException column) differs from call to call
        cls = type(e).__name__
        if isinstance(e, NotImplementedError) and not isinstance(e, ParseError):
            tok = "ni"
        elif isinstance(e, AssertionError):
            tok = "as"
        else:
            n = self.excids.setdefault(cls, len(self.excids) + 1)
            tok = ("p%d" if isinstance(e, ParseError) else "o%d") % n
        self.exc_descr[cls] = "x" + tok
        return tok

    def stan_out(self, pd, linker, k: int) -> str:
        try:
            with quiet():
                pd.to_stan(linker)
            return "r%d" % k
        except Hang:
            raise
        except Exception as e:
            return "x" + self.exc_tok(e)

    def node_out(self, pd) -> str:
        try:
            with quiet():
                pd.to_node()
            return "r"
        except Hang:
            raise
        except Exception as e:
            return "x" + self.exc_tok(e)

    def observe_pd(self, pd, linker, k: int, summ_k: int, toc_k: int) -> Tuple[str, str, str]:
        """(N, W, T) of a top-level parsed docstring; declares the summary / toc ParsedDocstrings"""
        from pydoctor.epydoc2stan import ParsedStanOnly
        from pydoctor.epydoc import markup
        n = self.node_out(pd)
        with quiet():
            s = pd.get_summary()
        if isinstance(s, ParsedStanOnly):
            wtok = "n" if canon_stan(s._fromstan) == "nosum" else "xo0"
        else:
            wtok = "s%d" % summ_k
            self.names[id(s)] = "user%d[-]" % summ_k
            self.spec["pd"][summ_k] = dict(default_pd(summ_k), S=self.stan_out(s, linker, summ_k))
        ttok = "e"
        if n == "r" and self.td > 0:
            try:
                with quiet():
                    c = markup.build_table_of_content(pd.to_node(), depth=self.td)
                if c:
                    ttok = "c%d" % toc_k
                    with quiet():
                        toc = pd.get_toc(self.td)
                    self.spec["pd"][toc_k] = dict(default_pd(toc_k), S=self.stan_out(toc, linker, toc_k))
            except Hang:
                raise
            except Exception as e:
                ttok = "x" + self.exc_tok(e)
        return n, wtok, ttok

    def observe_obj(self, i: int, base: int, doc: str, first_doc_entry) -> None:
        from pydoctor.epydoc.markup import ParseError
        from pydoctor.epydoc.markup.plaintext import ParsedPlaintextDocstring
        w = self.w
        o = w.objs[i]
        self.spec["objs"][holder_of(i)] = {"doc": doc}
        rec = w.records.get(i)
        if rec is None:
            return
        kind, val, errs = rec
        etoks = []
        for e in errs:
            d = e.descr()
            if d not in self.descr:
                self.descr[d] = "m%d" % (len([v for v in self.descr.values() if v[0] == "m"]) + 1 + base * 100)
            etoks.append((int(self.descr[d][1:]), (e._linenum if e._linenum is None or e._linenum >= 0 else 0), int(e.is_fatal())))
        linker = o.docstring_linker
        if kind == "raise":
            self.spec["par"][(self.fmt, i)] = ("raise", self.exc_tok(val), etoks)
        elif isinstance(val, ParsedPlaintextDocstring):
            self.spec["par"][(self.fmt, i)] = ("ret", "plain", etoks)
        else:
            self.spec["par"][(self.fmt, i)] = ("ret", base, etoks)
            fs = []
            bodies = first_doc_entry.get("field_bodies", []) if first_doc_entry else []
            for j, b in enumerate(bodies):
                k = base + 9 + j
                fs.append((0, k, 0))
                self.spec["pd"][k] = dict(default_pd(k), S=self.stan_out(b, linker, k), N=self.node_out(b))
                if self.spec["pd"][k]["N"] == "r":
                    from pydoctor import node2stan
                    with quiet():
                        self.spec["pd"][k]["X"] = "".join(node2stan.gettext(b.to_node()))
            if i in ATTRS:
                # handle_type stores the body of a `type` field of an Attribute's docstring as obj.parsed_type (not formatted)
                for j, f in enumerate(x for x in val.fields if x.tag() == "type"):
                    k = base + 40 + j
                    fs.append((2, k, 0, None))
                    self.names[id(f.body())] = "u%d" % k
            n, wtok, ttok = self.observe_pd(val, linker, base, base + 1, base + 2)
            self.spec["pd"][base] = {"S": self.stan_out(val, linker, base), "N": n, "W": wtok, "T": ttok, "F": fs}
            self.names[id(val)] = "user%d[%s]" % (base, ";".join("%d/u%d/0" % (f[0], f[1]) for f in fs) or "-")
        pd = o.parsed_docstring
        if isinstance(pd, ParsedPlaintextDocstring) and pd._text not in self.spec["plainfor"]:
            n, wtok, ttok = self.observe_pd(pd, linker, base + 5, base + 3, base + 4)
            self.spec["plainfor"][pd._text] = (n, wtok, ttok)
        elif isinstance(pd, ParsedPlaintextDocstring):
            # same text as an object observed before (the inheriting object): same declared behaviour, its own summary object
            wtok = self.spec["plainfor"][pd._text][1]
            with quiet():
                sm = pd.get_summary()
            if wtok[0] == "s":
                self.names[id(sm)] = "user%s[-]" % wtok[1:]

    def descr_token(self, d: str) -> str:
        if d in self.descr:
            return self.descr[d]
        m = re.match(r"(\w+): ", d)
        if m and m.group(1) in self.exc_descr:
            return self.exc_descr[m.group(1)]
        return "other:" + d[:30].replace(" ", "_")

    def pdname(self, pd) -> str:
        return self.names.get(id(pd), "real:" + type(pd).__name__)


def real_role(w: World, x: int):
    from pydoctor.epydoc.markup.plaintext import ParsedPlaintextDocstring

    def role(i: int, r: str) -> str:
        base = 1 if i == x else (41 if i == holder_of(x) else 21)
        plain = isinstance(w.objs[i].parsed_docstring, ParsedPlaintextDocstring)
        if plain and i == holder_of(x):
            base = 1      # plaintext behaviours are declared per TEXT (`plainfor`): x and the object it inherits from share it
        if r == "body":
            return "o%d" % base
        if r == "summary":
            return "o%d" % (base + 3 if plain else base + 1)
        if r == "toc":
            return "o%d" % (base + 4 if plain else base + 2)
        return "o%d" % (base + 9 + int(r[5:]))
    return role


def run_real_case(w: World, fmt: str, pt: int, x: int, doc: str, td: int, limit: float, order: int = 0):
    """returns (request, impl line, trace, record of x); request is None when the case cannot be put to the model"""
    w.reset(fmt, pt, td, {})
    w.spec = {}
    w.objs[holder_of(x)].docstring = doc
    w.objs[BYSTANDER].docstring = BYST_REAL
    ops = real_ops(x, order)
    outs, trace = run_ops(w, ops, stan_role=real_role(w, x), limit=limit)
    rec = w.records.get(x)
    if any(t["hang"] for t in trace):
        return None, None, trace, rec
    ob = Observer(w, fmt, pt, td)
    with time_limit(limit):
        for (i, base, d) in ((x, 1, doc), (BYSTANDER, 21, BYST_REAL)) + (((holder_of(x), 41, doc),) if holder_of(x) != x else ()):
            first = next((t for t in trace if t["op"] == "d" and t["obj"] == i and "field_bodies" in t), None)
            ob.observe_obj(i, base, d, first)
    ob.spec["ops"] = ops
    main = ob.spec["pd"].get(1)
    bodies = [t["body"] for t in trace if t["op"] == "d" and t["obj"] == x and "body" in t]
    if main is not None and (len({b.startswith("pre:") for b in bodies} | {main["S"][0] == "x"}) > 1
                             or (main["N"] == "r" and any(t["raised"] is not None for t in trace if t["obj"] == x))):
        # to_stan's outcome changed between calls: outside the model's "parameters are functions" assumption (left to the oracle)
        return None, None, trace, rec
    req = request_of(ob.spec)
    line = "ok " + " ; ".join(outs) + canon_state(w, ob.descr_token, ob.pdname, only_report_errors=True)
    run_real_extras(w, x, trace, limit)
    try:
        from pydoctor import epydoc2stan as E
        y = w.objs[BYSTANDER]
        with quiet(), time_limit(limit):
            before = flatten_safely(y.parsed_docstring.to_stan(y.docstring_linker))[0]
            after = flatten_safely(E.parse_docstring(y, BYST_REAL, y).to_stan(y.docstring_linker))[0]
        w.iso = (before or "", after or "")
    except Hang:
        raise
    except Exception:
        w.iso = None
    # seeded C08-r6-1: a role a docstring DECLARES (`.. role:: name`) must be unknown again in the next docstring
    w.iso_roles = []
    if fmt in "rgn":
        try:
            from docutils.parsers.rst import roles as _r
            from pydoctor.epydoc.markup import restructuredtext as R
            for name in sorted(set(n.lower() for n in re.findall(r"^[ \t]*\.\. role:: *([A-Za-z][A-Za-z0-9_-]*)", doc, re.M))):
                if name in w._rst_roles or name in getattr(_r, "_role_registry", {}):
                    continue
                errs: list = []
                with quiet(), time_limit(limit):
                    R.parse_docstring(":%s:`probe`" % name, errs)
                if not any("nknown interpreted text role" in e.descr() for e in errs):
                    w.iso_roles.append(name)
        except Hang:
            raise
        except Exception:
            pass
    return req, line, trace, rec


def run_real_extras(w: World, x: int, trace, limit: float) -> None:
    """the further wrappers on the same object, with the real colorizers (oracle only: they run after the state that is
    compared with the model has been taken)"""
    ops = [("q", x)] + ([("y", x), ("c", x)] if x in ATTRS else []) + ([("g", x)] if x in FUNCS else [])
    saved = w.spec
    w.spec = {}
    try:
        outs, extra = run_ops(w, ops, limit=limit)
    finally:
        w.spec = saved
    for t in extra:
        t["extra"] = True
    trace.extend(extra)


def epytext_words_lost(doc: str, rendered: str) -> List[str]:
    """words (3+ letters/digits) of an epytext source that the rendered page does not show; markup that legitimately
    does not show up is taken out of the source first: tag letters, link targets, symbol / escape names, field tags"""
    src = re.sub(r"[SE]\{[^{}]*\}", " ", doc)
    src = re.sub(r"<[^<>{}]*>(?=\})", " ", src)
    src = re.sub(r"\b[A-Z]\{", " {", src)
    src = re.sub(r"(?m)^\s*@\w+", " ", src)
    have = set(re.findall(r"[A-Za-z0-9]{3,}", rendered))
    return [wd for wd in re.findall(r"[A-Za-z0-9]{3,}", src) if wd not in have]


PRE_RE = re.compile(r'^<div><p class="pre">(.*?)</p>', re.S)


def real_oracle(ctx: Ctx, w: World, fmt: str, pt: int, x: int, doc: str, td: int, trace, rec, stream: str) -> bool:
    """the property, checked on the real code's own output; returns whether the parser reported at least one error"""
    from pydoctor.epydoc.markup import ParseError
    from pydoctor.epydoc.markup.plaintext import ParsedPlaintextDocstring
    inp = {"kind": "real", "fmt": fmt, "pt": pt, "x": x, "td": td, "doc": doc, "stream": stream}
    surrogate = any(0xD800 <= ord(c) < 0xE000 for c in doc)

    def fail(sig: str, what: str) -> None:
        ctx.fail(sig, inp, what)
    prev = 0
    seen = set()
    for t in trace:
        opn = OP_NAMES[t["op"]]
        if t["hang"]:
            fail("hang:" + opn, "%s did not return within the time limit (docformat %s)" % (opn, FMT_OF[fmt]))
            return False
        if t["raised"] is not None:
            if t["op"] == "t":
                fail("toc:unguarded-exception", "format_toc raised %s" % type(t["raised"]).__name__)
            elif wrapper_failure(ctx, t, inp, False):
                pass
            else:
                fail("%s:raises:%s" % (opn, type(t["raised"]).__name__), "%s raised %s" % (opn, type(t["raised"]).__name__))
        elif t["flat_err"]:
            if surrogate and t["flat_err"] == "UnicodeEncodeError":
                fail("render:lone-surrogate-unicodeencodeerror", "the stan returned by %s for a docstring containing a lone "
                     "surrogate cannot be flattened (UnicodeEncodeError in twisted's flattener)" % opn)
            else:
                fail("flatten:%s:%s" % (opn, t["flat_err"]), "stan returned by %s cannot be flattened" % opn)
        if (t["op"], t["obj"]) in seen and t["nreports"] != prev:
            fail("reported-twice:" + opn, "a repeated %s call filed more reports" % opn)
        seen.add((t["op"], t["obj"]))
        prev = t["nreports"]
    for (i, before, after, between) in summary_stability(trace):
        fail("summary:fallback-overwrites-source-summary", "the summary of %s changed from %s to %s after rendering OTHER objects (%s): "
             "format_summary_fallback stores the BROKEN summary on the source of the docstring instead of the object being rendered"
             % (NAMES[i], before[:30], after[:30], between.strip()))
    errs_now = {w.ids.get(n, 99) for n in w.system.parse_errors.get("docstring", ())}
    bad = [r for r in w.reports if r[2] == "docstring" and r[1].startswith("bad docstring: ")]
    hold = holder_of(x)     # the object the text is written on; x inherits it when h != x
    mine = [r for r in bad if r[0] == hold]
    if hold != x and (x in errs_now or any(r[0] == x for r in bad)):
        fail("inherited:reported-against-inheriting-object", "a problem of an inherited docstring was reported against the inheriting "
             "object (%s) instead of the object the docstring is written on (%s)" % (NAMES[x], NAMES[hold]))
    shown = [t for t in trace if t["op"] == "d" and t["obj"] == x and t["raised"] is None]
    pd = w.objs[x].parsed_docstring
    nerr = 0
    if rec is not None:
        kind, val, errs = rec
        nerr = len(errs) + (1 if kind == "raise" else 0)
        if kind == "raise":
            if not (isinstance(pd, ParsedPlaintextDocstring) and pd._text == doc):
                fail("fallback:parsed-form-not-full-text", "the %s parser gave up (%s) but parsed_docstring is not the plaintext of the "
                     "whole docstring" % (FMT_OF[fmt], type(val).__name__))
            for t in shown:
                if t["body"] != ("pre:?" if surrogate else "pre:" + enc(doc)):
                    fail("fallback:display-differs", "the parser gave up but the body shown is not <p class=pre> with the whole text")
                elif not t["flat_err"]:
                    h, _ = flatten_safely(t["stan"])
                    m = PRE_RE.match(h or "")
                    if not m or htmlmod.unescape(m.group(1)) != doc:
                        fail("fallback:visible-text-differs", "the flattened fallback does not read back as the original text")
            if hold not in errs_now or not mine:
                fail("fallback:not-reported", "the %s parser gave up (%s) and nothing was reported against the object"
                     % (FMT_OF[fmt], type(val).__name__))
            if isinstance(val, ParseError) and not any(e is val for e in errs):
                ctx.count("real:ParseError-raised-but-not-stored")
        else:
            if fmt == "e" and any(e.is_fatal() for e in errs):
                # property: "any fatal epytext markup error" makes the parser give up: plain text of the whole docstring
                fail("epytext:fatal-error-without-fallback", "the epytext parser recorded a fatal markup error (%s) but did not give up: "
                     "the docstring is rendered from a partial tree instead of being shown in full as plain text"
                     % next(e.descr() for e in errs if e.is_fatal())[:60])
                for t in shown:
                    if t["body"] != "pre:" + enc(doc):
                        fail("epytext:fatal-error:display-differs", "fatal epytext error but the body shown is not the whole original text")
            if errs and (hold not in errs_now or len(mine) < len(errs)):   # (a renderer failure may add one more line)
                fail("recovered-errors:not-reported", "the parser stored %d error(s) and returned; %d were reported against the object"
                     % (len(errs), len(mine)))
            if not errs and (x in errs_now and not any(t["body"].startswith("pre:") and fmt != "p" for t in shown)):
                pass
    elif doc:
        fail("parser-not-called", "a non-empty docstring was never handed to a parser")
    if shown and rec is not None and rec[0] == "ret" and not isinstance(rec[1], ParsedPlaintextDocstring):
        # reference for "the renderer fails on this docstring": parse the same text afresh and render that
        from pydoctor import epydoc2stan as E
        fresh_exc = None
        try:
            with quiet(), time_limit(20.0):
                E.parse_docstring(w.objs[x], doc, w.objs[hold]).to_stan(w.objs[hold].docstring_linker)
        except Hang:
            raise
        except Exception as e:
            fresh_exc = e
        if fresh_exc is not None:
            nerr += 1
            hidden = [t for t in shown if t["body"] != "pre:" + enc(doc)]
            if hidden and all(t["body"] == "broken" for t in hidden):
                fail("render-fallback:display-differs", "rendering this docstring fails (%s) and format_docstring shows only the "
                     "'Broken description' placeholder instead of the whole original text of %s"
                     % (type(fresh_exc).__name__, NAMES[hold]))
            elif hidden:
                fail("render:failure-hidden-by-cached-state",
                     "rendering this docstring fails (%s) but format_docstring showed something else than the whole original "
                     "text in %d of %d calls (entry-point order %s): a failed to_node() leaves a half-built cached document behind"
                     % (type(fresh_exc).__name__, len(hidden), len(shown), "".join(t["op"] for t in trace if t["obj"] == x)))
            elif hold not in errs_now:
                fail("render-fallback:not-reported", "to_stan failed and the object the docstring is written on is not among the reported objects")
            elif not any(type(fresh_exc).__name__ in r[1] for r in mine):
                fail("report:render-failure-masked-by-earlier-warning", "rendering failed (%s) and the whole text is shown as plain text, but only "
                     "the parser's earlier warning(s) are in the log (%d line(s)): reportErrors files one group per (section, object)"
                     % (type(fresh_exc).__name__, len(mine)))
    if any(t["op"] == "s" and t["obj"] == x and t["raised"] is None and t["tok"] == "sum=broken" for t in trace) and hold not in errs_now:
        fail("summary:render-failure-unreported", "the summary's renderer failed ('Broken description' is shown in the listings), the body "
             "rendered, and nothing was reported against the object (format_summary calls safe_to_stan with report=False)")
    if rec is not None and fmt in "rgn":
        stored = [e.descr() for e in rec[2]]
        for level, text in w.handed.get(x, []):
            if text in stored:
                stored.remove(text)
            else:
                fail("rst:docutils-message-not-reported:level%d" % level, "docutils handed pydoctor's reader a system message (level %d: %s) "
                     "that is not among the errors stored for the object, so it is never reported" % (level, text[:70]))
                break
    if fmt == "e" and rec is not None and rec[0] == "ret" and rec[2] and shown and not shown[-1]["flat_err"]:
        # the epytext parser only WARNED: the page must still have every word of the source
        lost = epytext_words_lost(doc, safe_text(shown[-1]["stan"]) or "")
        if lost:
            fail("epytext:warning:text-lost", "the epytext parser recorded only warnings (%s) and rendered the docstring, but words of the "
                 "source are not on the page: %s" % (rec[2][0].descr()[:40], " ".join(lost[:6])))

    def field_has_text(body) -> bool:
        from pydoctor import node2stan
        try:
            with quiet():
                return bool("".join(node2stan.gettext(body.to_node())).strip())
        except Hang:
            raise
        except Exception:
            return False
    for t in shown:
        if any(f == "broken" and field_has_text(bd) for f, bd in zip(t.get("fields", []), t.get("field_bodies", []))):
            fail("field:render-failure-text-lost", "the body of a field could not be rendered: the failure is reported, the field shows "
                 "'Broken description' and its text appears nowhere on the page (Field.format's fallback is the BROKEN placeholder)")
            break
    if rec is not None and rec[0] == "ret" and fmt in "rgn" and any("line-length-limit" in e.descr() for e in rec[2]):
        for t in shown:
            if not t["flat_err"] and not (safe_text(t["stan"]) or "").strip():
                fail("rst:line-length-limit:docstring-vanishes", "a line is longer than docutils' line_length_limit: docutils does not parse "
                     "the docstring at all, pydoctor keeps the empty document — the problem is reported, nothing of the text is shown")
                break
    if w.iso is not None and w.iso[0] != w.iso[1]:
        fail("isolation:failed-parse-leaks-into-next-docstring", "after this docstring was processed, another object's docstring (parsed afresh) "
             "is rendered differently than before: docutils' role registry (default-role) is not restored when the parse fails")
    if getattr(w, "iso_roles", None):
        fail("isolation:role-declared-in-one-docstring-known-in-the-next", "this docstring declares the role(s) %s with `.. role::`; a docstring parsed "
             "afterwards that uses `:%s:` without declaring it is no longer told 'Unknown interpreted text role': how it is read (and whether its "
             "problem is reported) depends on another object's docstring" % (", ".join(w.iso_roles), w.iso_roles[0]))
    # section anchors: pairwise distinct in the body, and every link of the table of contents leads to one of them
    lastd = next((t for t in reversed(shown) if t["flat_err"] is None and not t["body"].startswith("pre:")), None)
    lastt = next((t for t in reversed(trace) if t["op"] == "t" and t["obj"] == x and t["stan"] is not None and not t["flat_err"]), None)
    if lastd is not None:
        bh, _ = flatten_safely(lastd["stan"])
        ids = re.findall(r'\bid="([^"]*)"', bh or "")
        if len(ids) != len(set(ids)):
            fail("anchors:duplicate-id", "two elements of one rendered docstring carry the same id (%s)" % sorted(i for i in set(ids) if ids.count(i) > 1)[0][:60])
        if lastt is not None:
            th, _ = flatten_safely(lastt["stan"])
            for href in re.findall(r'href="#([^"]*)"', th or ""):
                if href not in ids:
                    fail("anchors:toc-link-without-target", "an entry of the table of contents links to #%s, which the body does not define" % href[:60])
                    break
    firsts: Dict[str, str] = {}
    for t in trace:
        if t["obj"] == BYSTANDER:
            if t["op"] in firsts and firsts[t["op"]] != t["tok"]:
                fail("isolation:bystander-output-changed", "another object's rendering changed")
            firsts.setdefault(t["op"], t["tok"])
    if BYSTANDER in errs_now or any(r[0] == BYSTANDER for r in bad):
        fail("isolation:bystander-reported", "a healthy object was reported")
    for r in bad:
        if r[0] not in (x, hold, BYSTANDER):
            fail("isolation:third-object-reported", "a report was filed against an object that was not processed")
    return nerr > 0


# ------------------------------------------------------------------ oracle-only stream: lone surrogates through the AST builder

BUILDER_DOCS = [
    "@return: the \ufffe value", "@return: the \x0c value", ":return: the \ufffe value", "Returns:\n    the \ufffe value",
    "@return: the value", "@return: the B{unclosed value", "The value.\n\n@return: it", "@rtype: C{int}\n@return: the \ufffe value",
    "Plain \ufffe text.", "@return:", "@return: x\n@return: y \x0c",
]


def builder_case(ctx: Ctx, fmt: str, pt: int, doc: str, limit: float) -> None:
    """the docstring reaches the objects the way it does in a run: as a string literal in module source, through the AST
    builder (module, class, method, attribute, PROPERTY) — oracle only"""
    import inspect
    from pydoctor import model, epydoc2stan as E
    lit = repr(doc)
    src = ("%s\nclass K:\n    %s\n    def f(self):\n        %s\n    a = 1\n    %s\n    @property\n    def p(self):\n        %s\n        return 1\n"
           % (lit, lit, lit, lit, lit))
    surrogate = any(0xD800 <= ord(c) < 0xE000 for c in doc)
    inp = {"kind": "builder", "fmt": fmt, "pt": pt, "doc_repr": lit}
    s = model.System()
    s.options.docformat = FMT_OF[fmt]
    s.options.processtypes = bool(pt)
    try:
        with quiet(), time_limit(limit):
            b = s.systemBuilder(s)
            b.addModuleString(src, "sm")
            b.buildModules()
    except Hang:
        ctx.fail("hang:build", inp, "building the module did not finish")
        return
    except Exception as e:
        ctx.fail("build:raises:" + type(e).__name__, inp, "building a module with this docstring raised")
        return
    written = inspect.cleandoc(doc)
    for name in ("sm", "sm.K", "sm.K.f", "sm.K.a", "sm.K.p"):
        o = s.allobjects[name]
        for opn, fn in (("summary", E.format_summary), ("docstring", E.format_docstring), ("toc", E.format_toc)):
            try:
                with quiet(), time_limit(limit):
                    st = fn(o)
                    html, err = (None, None) if st is None else flatten_safely(st)
            except Hang:
                ctx.fail("hang:" + opn, inp, opn + " did not return")
                ctx.count("builder:hangs")
                return          # one hang establishes the violation: do not pay the time limit again for the other objects
            except Exception as e:
                ctx.fail("%s:raises:%s" % (opn, type(e).__name__), inp, "%s raised %s" % (opn, type(e).__name__))
                continue
            if err == "UnicodeEncodeError" and surrogate:
                ctx.fail("render:lone-surrogate-unicodeencodeerror", inp,
                         "the stan returned by format_%s for a docstring containing a lone surrogate (written as an escape in the "
                         "source) cannot be flattened: UnicodeEncodeError in twisted's flattener, under every docformat" % opn)
            elif err:
                ctx.fail("flatten:%s:%s" % (opn, err), inp, "stan returned by %s cannot be flattened" % opn)
            elif opn == "docstring" and not surrogate:
                m = PRE_RE.match(html or "")
                if m and fmt != "p" and htmlmod.unescape(m.group(1)) != written:
                    sig = "property:return-only-docstring:fallback-text-lost" if name == "sm.K.p" else "fallback:visible-text-differs:" + name.rsplit(".", 1)[-1]
                    ctx.fail(sig, inp, "%s: the docstring fell back to plain text, but what is shown (%r) is not the text that was "
                             "written (%r)%s" % (name, htmlmod.unescape(m.group(1))[:40], written[:40],
                                                 ": _handlePropertyDef blanks attr.docstring when the docstring is only a @return field" if name == "sm.K.p" else ""))
        ctx.count("builder:objects")


SPLIT_DOCS = [("e", "Class summary line.\n\n@ivar x: the \x0c thing"), ("e", "Class summary line.\n\n@ivar x: the \ufffe thing\n@ivar y: fine"),
              ("r", "Class summary line.\n\n:ivar x: the \x0c thing"), ("g", "Class summary line.\n\nAttributes:\n    x: the \x0c thing"),
              ("n", "Class summary line.\n\nAttributes\n----------\nx\n    the \x0c thing"), ("e", "Class summary line.\n\n@ivar x: healthy")]


def builder_split_case(ctx: Ctx, fmt: str, doc: str, limit: float) -> None:
    """a class docstring documenting an attribute through a field, through the AST builder: rendering the attribute must
    not change what is shown for the class (oracle only)"""
    from pydoctor import model, epydoc2stan as E
    src = "class K:\n    %s\n    x = 1\n    y = 2\n" % repr(doc)
    inp = {"kind": "builder-split", "fmt": fmt, "doc_repr": repr(doc)}
    s = model.System()
    s.options.docformat = FMT_OF[fmt]
    for order in (("K", "x", "K"), ("x", "K", "x", "K")):
        try:
            with quiet(), time_limit(limit):
                sy = model.System()
                sy.options.docformat = FMT_OF[fmt]
                b = sy.systemBuilder(sy)
                b.addModuleString(src, "sm")
                b.buildModules()
                seen: Dict[str, str] = {}
                for n in order:
                    o = sy.allobjects["sm.K" if n == "K" else "sm.K.x"]
                    st = E.format_summary(o)
                    tok = canon_stan(st, "real:" + (flatten_safely(st)[0] or "?")[:60])
                    if n in seen and seen[n] != tok:
                        ctx.fail("summary:fallback-overwrites-source-summary", inp, "the summary of %s changed from %s to %s after the "
                                 "summary of the attribute it documents by a field was rendered (order %s)" % (n, seen[n][:40], tok[:40], "".join(order)))
                    seen[n] = tok
                    E.format_docstring(o)
        except Hang:
            ctx.fail("hang:summary", inp, "did not return")
            return
        except Exception as e:
            ctx.fail("summary:raises:" + type(e).__name__, inp, "raised")
    ctx.count("builder:split-cases")


def builder_redefined_case(ctx: Ctx, fmt: str, d1: str, d2: str, limit: float) -> None:
    """a class defined twice in one module, both docstrings with a markup problem: each problem must be reported"""
    from pydoctor import model, epydoc2stan as E
    src = "class T:\n    %s\n\n\nclass T:\n    %s\n" % (repr(d1), repr(d2))
    inp = {"kind": "builder-redefined", "fmt": fmt, "docs": [d1, d2]}
    try:
        with quiet() as buf, time_limit(limit):
            sy = model.System()
            sy.options.docformat = FMT_OF[fmt]
            b = sy.systemBuilder(sy)
            b.addModuleString(src, "sm")
            b.buildModules()
            for o in list(sy.allobjects.values()):
                E.format_docstring(o)
        lines = sorted({ln.split(":")[1] for ln in buf.getvalue().splitlines() if "bad docstring" in ln})
    except Hang:
        ctx.fail("hang:build", inp, "did not finish")
        return
    except Exception as e:
        ctx.fail("build:raises:" + type(e).__name__, inp, "raised")
        return
    if len(lines) < 2:
        ctx.fail("report:dedup-by-name:redefined-object-unreported", inp, "a class is defined twice in the module and both docstrings have a "
                 "markup problem, but only line(s) %s are reported: reportErrors de-duplicates on fullName(), which the replaced "
                 "definition still shares with its replacement when class docstrings are parsed" % ",".join(lines))
    ctx.count("builder:redefined-cases")


def include_blocking_case(ctx: Ctx, limit: float = 2.0) -> None:
    """`.. include::` of a file that never delivers (a FIFO nobody writes to): file insertion is enabled"""
    import os
    import tempfile
    from pydoctor import model, epydoc2stan as E
    d = tempfile.mkdtemp(prefix="c08-fifo-")
    path = os.path.join(d, "never")
    os.mkfifo(path)
    doc = "Intro.\n\n.. include:: %s\n" % path
    try:
        sy = model.System()
        sy.options.docformat = "restructuredtext"
        with quiet():
            b = sy.systemBuilder(sy)
            b.addModuleString("def f(): pass\n", "sm")
            b.buildModules()
        o = sy.allobjects["sm.f"]
        o.docstring = doc
        try:
            with quiet(), time_limit(limit):
                E.format_docstring(o)
        except Hang:
            ctx.fail("hang:rst-include-blocking-file", {"kind": "include-fifo", "doc": "Intro.\n\n.. include:: <FIFO>"},
                     "`.. include:: <path>` of a file that blocks (a FIFO, /dev/stdin) or never ends (/dev/zero) is followed: docutils' "
                     "file insertion is enabled, format_docstring does not return")
        except Exception:
            pass
    finally:
        try:
            os.unlink(path)
            os.rmdir(d)
        except OSError:
            pass
    ctx.count("builder:include-fifo")


def surrogate_case(ctx: Ctx, fmt: str, pt: int, doc: str, limit: float) -> None:
    builder_case(ctx, fmt, pt, doc, limit)


# ------------------------------------------------------------------ epytext _slugify stream

def slug_case(text: str, used: List[str], limit: float = 2.0):
    """(request, impl answer, oracle verdict or None)"""
    from pydoctor.epydoc.markup import epytext
    cands = [epytext.slugify(text)] + [epytext.slugify("%s-%d" % (text, i)) for i in range(1, len(set(used)) + 2)]
    req = "docstring slug U " + " ".join(enc(u) for u in used) + " C " + " ".join(enc(c) for c in cands)
    pd = epytext.ParsedEpytextDocstring(None, ())
    pd._section_slugs = set(used)
    verdict = None
    try:
        with time_limit(limit):
            r = pd._slugify(text)
        impl = "ok " + enc(r)
        if r in used:
            verdict = ("slugify:returned-used-slug", "_slugify returned an anchor that is already taken")
    except Hang:
        impl = "loops"
        verdict = ("hang:_slugify", "ParsedEpytextDocstring._slugify did not return: the candidates slugify(text), slugify(text-1), … "
                   "are not pairwise distinct, so the loop that makes section anchors unique never finds a free one")
    if verdict is None and len(set(cands)) != len(cands):
        verdict = ("slugify:candidates-not-distinct", "slugify(text-i) does not depend on i for this heading: the uniquifying loop "
                   "cannot terminate once the anchor is taken")
    return req, impl, verdict


def slug_stream(ctx: Ctx, n: int, max_hangs: int) -> None:
    from pydoctor.epydoc.markup import epytext
    pool = SHORT_HEADINGS + LONG_HEADINGS + ODD_HEADINGS
    reqs, impls, pay = [], [], []
    hangs = 0
    for k in range(n):
        if hangs >= max_hangs:
            ctx.count("slug:not-run-after-hangs")
            continue
        text = rng_text = ctx.rng.choice(pool) if ctx.rng.random() < 0.8 else gen_unicode(ctx.rng)[:40]
        m = ctx.rng.randint(0, 5)
        used = [epytext.slugify(text)] + [epytext.slugify("%s-%d" % (text, i)) for i in range(1, m)] if m else []
        used = [u for u in used if ctx.rng.random() < 0.85]
        used += [epytext.slugify(ctx.rng.choice(pool)) for _ in range(ctx.rng.randint(0, 2))]
        used = sorted(set(used))
        req, impl, verdict = slug_case(text, used)
        hangs += impl == "loops"
        inp = {"kind": "slug", "text": text, "used": used}
        if verdict:
            ctx.fail(verdict[0], inp, verdict[1])
        ctx.case(req, bool(used) and impl != "ok " + enc(epytext.slugify(text)), None)
        ctx.count("slug:cases")
        reqs.append(req)
        impls.append(impl)
        pay.append(inp)
    ctx.compare("epytext._slugify~Docstring.slugLoop", reqs, impls, pay)


# ------------------------------------------------------------------ run

def check_no_overrides(ctx: Ctx) -> None:
    """assumption of the model: get_summary / get_toc are the base-class implementations everywhere"""
    from pydoctor.epydoc.markup import ParsedDocstring
    import pydoctor.epydoc.markup.epytext, pydoctor.epydoc.markup.restructuredtext, pydoctor.epydoc.markup.plaintext  # noqa
    import pydoctor.epydoc.markup._types, pydoctor.epydoc.markup._pyval_repr, pydoctor.epydoc2stan  # noqa

    def subs(c):
        for s in c.__subclasses__():
            yield s
            yield from subs(s)
    for c in subs(ParsedDocstring):
        if c.__module__.startswith("harness."):
            continue
        for m in ("get_summary", "get_toc"):
            if m in c.__dict__:
                ctx.broken.append("correspondence assumption: %s.%s overrides ParsedDocstring.%s" % (c.__module__, c.__name__, m))


def run(ctx: Ctx) -> None:
    check_no_overrides(ctx)
    w = World()
    # ---- (a) fault injection on the real wrapper functions
    for m in w.param_mismatch:
        ctx.broken.append("correspondence assumption (parent / docsources parameters): " + m)
    cases = list(exhaustive_fault_cases(ctx.quick)) + list(wrapper_fault_cases())
    ctx.extra["exhaustive_fault_cases"] = len(cases)
    nrand = 900 if ctx.quick else 25000
    cases += [random_fault_case(ctx.rng) for _ in range(nrand)]
    reqs: List[str] = []
    impls: List[str] = []
    pay: List[Any] = []
    with instrument(w), fault_patches(w):
        for sp in cases:
            line, trace = run_fault_case(w, sp)
            req = request_of(sp)
            reqs.append(req)
            impls.append(line)
            pay.append({"kind": "fault", "spec": spec_json(sp)})
            nontriv = (" R -" not in line) or "broken" in line or "raise:" in line
            ctx.case(req, nontriv, {"request": req[:600], "impl": line[:600]} if nontriv and len(ctx.samples) < 2 else None)
            ctx.count("fault:" + ("single-object" if "x" in sp else "multi-object"))
            for op in sorted({op for op, _ in sp["ops"]}):
                ctx.count("fault:op:" + OP_NAMES[op])
            for tok in ("raise:", "broken", "brokensum", "nosum", "undoc", "=code", "sigbroken"):
                if tok in line:
                    ctx.count("fault:out:" + tok.rstrip(":"))
            fault_oracle(ctx, w, sp, trace)
    ctx.compare("fault-injection~Docstring.run", reqs, impls, pay)
    ctx.exhaustive = True
    # ---- (b) real parsers
    nstr = 180 if ctx.quick else 800
    limit = 8.0 if ctx.quick else 20.0     # per entry-point call; a case stops at its first hang
    max_hangs = 3                            # after that the violation is established: do not burn the tier's budget
    hangs = 0
    reqs, impls, pay = [], [], []
    sreqs, simpls, spay = [], [], []
    with instrument(w), record_patches(w):
        for n in range(nstr):
            stream, doc = ("regression", REGRESSION_DOCS[n]) if n < len(REGRESSION_DOCS) else gen_real_docstring(ctx.rng)
            if n < len(REGRESSION_DOCS):   # past failures: own / inherited / attribute docstring, every format, process-types on and off
                combos = [(f, pt, x) for f in "ergnp" for pt in (0, 1) for x in (2, 8, 3)]
            elif ctx.quick:
                combos = [(f, (n + fi) % 2, XS[(n + fi) % 5]) for fi, f in enumerate("ergnp")]
            else:
                combos = [(f, pt, x) for f in "ergnp" for pt in (0, 1) for x in XS]
            if hangs >= max_hangs:
                ctx.count("real:strings-not-run-after-%d-hangs" % max_hangs)
                continue
            for ci, (fmt, pt, x) in enumerate(combos):
                if hangs >= max_hangs:
                    break
                td = [0, 1, 3][(n + ci) % 3]
                try:
                    req, line, trace, rec = run_real_case(w, fmt, pt, x, doc, td, limit, n + ci)
                except Hang:
                    ctx.fail("hang:observe", {"kind": "real", "fmt": fmt, "pt": pt, "x": x, "td": td, "doc": doc}, "re-rendering hung")
                    hangs += 1
                    continue
                hangs += any(t["hang"] for t in trace)
                nontriv = real_oracle(ctx, w, fmt, pt, x, doc, td, trace, rec, stream)
                canonical = "real %s %d %d %s" % (fmt, pt, x, enc(doc))
                ctx.case(canonical, nontriv, {"docformat": FMT_OF[fmt], "processtypes": pt, "kind": KINDS[x], "docstring": doc[:200],
                                              "impl": (line or "")[:300]} if nontriv and len(ctx.samples) < 5 else None)
                ctx.count("real:" + stream.split(":")[0])
                ctx.count("real:fmt:" + FMT_OF[fmt])
                if rec is not None:
                    ctx.count("real:parser:" + ("raised:" + type(rec[1]).__name__ if rec[0] == "raise" else "returned" + ("+errors" if rec[2] else "")))
                if req is None:
                    ctx.count("real:model-skipped(nondeterministic renderer or hang)")
                else:
                    reqs.append(req)
                    impls.append(line)
                    pay.append({"kind": "real", "fmt": fmt, "pt": pt, "x": x, "td": td, "doc": doc, "order": n + ci})
                # epytext.parse: raises exactly the first fatal error it stored
                if fmt == "e" and pt == 0 and rec is not None:
                    from pydoctor.epydoc.markup import ParseError
                    errs = rec[2]
                    if rec[0] == "ret" or isinstance(rec[1], ParseError):
                        idx = {id(e): i + 1 for i, e in reversed(list(enumerate(errs)))}
                        sreqs.append("docstring signal " + (";".join("%d/n/%d" % (i + 1, int(e.is_fatal())) for i, e in enumerate(errs)) or "-"))
                        simpls.append("ok return" if rec[0] == "ret" else "ok raise m%s" % idx.get(id(rec[1]), "?"))
                        spay.append({"kind": "real", "fmt": fmt, "pt": pt, "x": x, "td": td, "doc": doc})
    ctx.compare("real-parsers~Docstring.run", reqs, impls, pay)
    ctx.compare("epytext.parse~Docstring.epytextSignal", sreqs, simpls, spay)
    # ---- (b2) epytext's anchor-uniquifying loop: the real ParsedEpytextDocstring._slugify vs slugLoop (slugify is the parameter)
    slug_stream(ctx, 300 if ctx.quick else 5000, max_hangs)
    # ---- (c) through the AST builder, property included (oracle only): fixed shapes, then lone surrogates
    for n, doc in enumerate(BUILDER_DOCS + REGRESSION_DOCS):
        for fi, fmt in enumerate("ergnp"):
            if ctx.dist.get("builder:hangs", 0) >= 2:
                ctx.count("builder:not-run-after-hangs")
                continue
            builder_case(ctx, fmt, (n + fi) % 2, doc, limit)
            ctx.case("builder %s %r" % (fmt, doc), True, None)
    for fmt, d1, d2 in (("e", "Provisional, see L{open_transport.", "The one everybody uses. Call B{close when done."),
                        ("r", "Provisional, see `open_transport.", "The one everybody uses, *unclosed emphasis."),
                        ("e", "Fine first definition.", "Second one with B{trouble.")):
        builder_redefined_case(ctx, fmt, d1, d2, limit) if "Fine" not in d1 else None
        ctx.case("builder-redefined %s" % fmt, True, None)
    include_blocking_case(ctx)
    for fmt, doc in SPLIT_DOCS:
        builder_split_case(ctx, fmt, doc, limit)
        ctx.case("builder-split %s %r" % (fmt, doc), True, None)
    nsur = 6 if ctx.quick else 60
    for n in range(nsur):
        doc = gen_unicode(ctx.rng, surrogates=True) if n else "x \udc80 y"
        for fi, fmt in enumerate("ergnp"):
            surrogate_case(ctx, fmt, (n + fi) % 2, doc, limit)
            ctx.case("surrogate %s %r" % (fmt, doc), True, None)


# ------------------------------------------------------------------ replay

def replay(ctx: Ctx, obj) -> int:
    inp = obj.get("input") or obj.get("request") or {}
    w = World()
    if inp.get("kind") == "fault":
        sp = spec_unjson(inp["spec"])
        with instrument(w), fault_patches(w):
            line, trace = run_fault_case(w, sp)
            n0 = len(ctx.failures)
            fault_oracle(ctx, w, sp, trace)
        req = request_of(sp)
        print("request:", req)
        print("impl   :", line)
    elif inp.get("kind") == "real":
        with instrument(w), record_patches(w):
            req, line, trace, rec = run_real_case(w, inp["fmt"], inp["pt"], inp["x"], inp["doc"], inp["td"], 20.0, inp.get("order", 0))
            n0 = len(ctx.failures)
            real_oracle(ctx, w, inp["fmt"], inp["pt"], inp["x"], inp["doc"], inp["td"], trace, rec, inp.get("stream", "replay"))
        print("docstring:", repr(inp["doc"]))
        print("request:", req)
        print("impl   :", line)
    elif inp.get("kind") == "slug":
        n0 = len(ctx.failures)
        req, impl, verdict = slug_case(inp["text"], inp["used"])
        print("heading:", repr(inp["text"]), "used:", inp["used"])
        print("impl   :", impl)
        if verdict:
            ctx.fail(verdict[0], inp, verdict[1])
    elif inp.get("kind") == "builder-redefined":
        n0 = len(ctx.failures)
        builder_redefined_case(ctx, inp["fmt"], inp["docs"][0], inp["docs"][1], 20.0)
        req = None
    elif inp.get("kind") == "include-fifo":
        n0 = len(ctx.failures)
        include_blocking_case(ctx)
        req = None
    elif inp.get("kind") == "builder-split":
        n0 = len(ctx.failures)
        builder_split_case(ctx, inp["fmt"], ast.literal_eval(inp["doc_repr"]), 20.0)
        req = None
        print("class docstring:", inp["doc_repr"])
    elif inp.get("kind") in ("surrogate", "builder"):
        n0 = len(ctx.failures)
        surrogate_case(ctx, inp["fmt"], inp["pt"], ast.literal_eval(inp["doc_repr"]), 20.0)
        req = None
        print("docstring:", inp["doc_repr"])
    else:
        print(obj)
        return 0
    if req:
        try:
            print("model  :", ctx.driver.run([req])[0])
        except Exception as e:
            print("model  : unavailable", e)
    new = ctx.failures[n0:]
    for f in new:
        print("oracle :", f["signature"], "-", f["what"])
    if not new:
        print("oracle : property holds on this input")
    return 1 if new else 0
