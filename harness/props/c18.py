"""C18 — equal inputs give byte-identical output (hash seed, directory-listing order, fresh / reused output directory)."""
from __future__ import annotations

import hashlib
import json
import os
import shutil
import subprocess
import sys
import tempfile
from concurrent.futures import ThreadPoolExecutor
from pathlib import Path
from typing import Any, Dict, List, Optional, Sequence, Tuple

from .. import sitescan
from ..core import Ctx, Infra, REPO, VERIF, enc, subprocess_env
from ..gen.project import Gen, Knobs, Unit

THEOREMS = [
    "Determinism.sort_perm_invariant", "Determinism.sortedBy_perm_invariant", "Determinism.traversal_listing_invariant",
    "Determinism.membership_only_invariant", "Determinism.sorted_after_invariant", "Determinism.sortedBy_after_invariant",
    "Determinism.singleton_only_invariant",
    "Determinism.pageUrl_invariant", "Determinism.rootSymlink_invariant", "Determinism.rootSymlink_no_indexError",
    "Determinism.rootSymlink_link_fresh", "Determinism.rootSymlink_hidden", "Determinism.hasIndexPage_invariant", "Determinism.rootUnknown_invariant", "Determinism.popSingle_invariant",
    "Determinism.rootKinds_invariant",
    "Determinism.projectname_invariant", "Determinism.projectName_eq_old",
    "Determinism.projectname_counterexample_old", "Determinism.projectname_old_depends_on_enumeration",
    "Determinism.keyed_writes_invariant", "Determinism.run_writes_through", "Determinism.run_characterization",
    "Determinism.rerun_idempotent", "Determinism.output_independent_of_old_content",
    "Determinism.pairLe_isOrder", "Determinism.alphaLe_isOrder", "Determinism.sourceLe_isOrder", "Determinism.lcLe_isOrder",
    "Determinism.sortedWith_perm_invariant", "Determinism.sortedWith_sorted", "Determinism.sortedWith_stable",
    "Determinism.sortedWith_tie_depends_on_input",
    "Determinism.lc_order_invariant", "Determinism.full_order_invariant", "Determinism.names_order_invariant",
    "Determinism.alpha_order_invariant_partial", "Determinism.alpha_order_invariant_of_lower_distinct",
    "Determinism.alpha_tie_counterexample", "Determinism.alpha_ties_keep_input_order",
    "Determinism.source_order_invariant_partial", "Determinism.source_tie_counterexample",
    "Determinism.source_ties_keep_input_order", "Determinism.source_never_mixed", "Determinism.sortedSource_defined",
    "Determinism.lower_order_invariant_partial", "Determinism.lower_tie_counterexample",
    "Determinism.unmaskedAttrs_enum_invariant", "Determinism.unmaskedAttrs_in_contents_order",
    "Determinism.unmaskedAttrs_no_indexError", "Determinism.documentOrder_in_registry_order",
    "Determinism.documentOrder_visible_only",
    "Determinism.addTemplate_swap", "Determinism.addTemplateDir_listing_invariant_partial",
    "Determinism.addTemplateDir_listing_counterexample_old", "Determinism.addTemplateDirSorted_listing_invariant",
    "Determinism.getExtensions_listing_invariant", "Determinism.getExtensionsSorted_listing_invariant",
    "Determinism.getExtensions_listing_counterexample_old", "Determinism.getExtensionsOld_listing_invariant_partial",
    "Determinism.kindAfterVisitors_order_counterexample", "Determinism.kindAfterVisitors_single_claim",
    "Determinism.setRepr_invariant", "Determinism.setReprSorted_invariant",
    "Determinism.setReprOld_invariant_partial", "Determinism.setRepr_counterexample_old",
    "Determinism.rstDate_is_the_clock", "Determinism.rstDate_counterexample",
    "Determinism.buildtime_function_of_inputs", "Determinism.buildtime_epoch_used", "Determinism.buildtime_epoch_zero",
    "Determinism.buildtime_option_wins", "Determinism.buildtime_clock_when_unset", "Determinism.buildtime_notInt_refused",
]
PARTIAL = {
    "Determinism.alpha_order_invariant_partial":
        "statement: the alphabetical member / module tables (util.alphabetical_order_func) do not depend on the order of the "
        "input list. Full statement for objects with distinct full names is false: the key holds the LOWERED full name. "
        "Proved when no two objects of the list share (privacy, kind, lowered name). Excluded inputs (m.F / m.f): "
        "alpha_tie_counterexample; for them alpha_ties_keep_input_order shows the tied entries keep the input (contents) order, "
        "and the stream `writer sorts` replays such ties on the real code on every run. The input order is pydoctor's own "
        "dict order, so the byte oracle is unaffected - this is not a C18 violation",
    "Determinism.source_order_invariant_partial":
        "same for util.source_order_func (--cls-member-order/--mod-member-order=source): excluded are objects of equal privacy "
        "and kind on one source line (a = b = 0); source_tie_counterexample, source_ties_keep_input_order",
    "Determinism.lower_order_invariant_partial":
        "findRootClasses (classIndex roots) and the zope `implements` list sort by x.lower(): excluded are names that differ in "
        "case only; lower_tie_counterexample; ties keep dict / list order",
    "Determinism.rstDate_is_the_clock":
        "statement: the time a docstring shows through docutils' `date` directive is a function of SOURCE_DATE_EPOCH / "
        "--buildtime. False: it is the wall clock whatever is given (rstDate_counterexample, next to the footer time, which "
        "is fixed). No hypothesis on the inputs repairs it. OPEN finding wall-clock:rst-date-directive",
    "Determinism.rerun_idempotent":
        "hypothesis wfRun: the name that becomes the root symlink (<root>.html) is not written after the link is made, and "
        "either not before it, or the link target (index.html) is rewritten afterwards and differs from it. Since /repo "
        "5201211 the alias is skipped when <root>.html is index.html or the file of a summary / search page "
        "(Determinism.rootSymlink_link_fresh), so no run of the current code falls outside the hypothesis through those "
        "names; the hypothesis is still evaluated on the operation log of every real build (stream oplog)",
}
RULE = ("generated projects (1-3 roots: packages and plain modules; with / without --project-name; every docformat; "
        "docstrings with cross references; duplicates; private names; attrs / zope.interface / deprecate uses; stray "
        "non-module directory entries) each built by the real pydoctor in subprocesses under 4 PYTHONHASHSEED values x 2 "
        "directory-listing orders (os.listdir / os.scandir / Path.iterdir reordered inside the child) x fresh and reused "
        "output directory, EVERY build at its own wall-clock second (datetime.now / time.time moved inside the child, no "
        "sleeping), plus the reference build repeated at another second, plus two --buildtime builds with the variable "
        "unset. SOURCE_DATE_EPOCH is fixed per project and cycles over 0, 1700000000, 1, 2^31-1, 2^31, a 12-digit value, -1, "
        "'abc', '00', '0 ', 1000000000, a year-10000 value and 10^18 (the last and 'abc' / year-10000 are refused by the "
        "unchanged tree: they must be refused the same way by every run and leave no output). Whole output trees compared "
        "byte for byte (sha-256 of every file, symlink targets, file set; no normalisation). One evaluation = one build of "
        "one project compared with that project's reference build. Non-trivial = the project has >= 2 roots, or a package "
        "with >= 3 directory entries, or the build went into a reused directory, or ran at another wall-clock second. "
        "A fixed corpus of 11 projects (every finding's input and the shape each seeded change needs: unnamed multi-root, "
        "case-colliding siblings, inherited members tying on line / case with both member orders, classIndex root ties, the "
        "single-root variants, SOURCE_DATE_EPOCH 0 / '00' / '0 ' / 'abc') runs first on every run.")
ASSUMPTIONS = [
    "the static scan that ties the site catalogue (harness/c18_sites.json) to the code is a syntactic, flow-insensitive "
    "HEURISTIC (harness/sitescan.py): sets reaching an Iterable parameter, sets built by third-party code and dynamic "
    "attribute access are not seen; only the byte comparison speaks for them",
    "ordering inside lunr, twisted.web.template, docutils, json and the file system itself is not modelled; only the "
    "byte comparison speaks for them",
    "the extension module of the --introspect-c-modules projects is compiled during the run with the system C compiler "
    "(cc / gcc / clang and Python.h); without one that shape is not generated (counted c-module:no-compiler)",
    "attribution of a listing-order difference to the extension load order is made by an experiment: the same build with only "
    "pydoctor/extensions/ listed in name order (launcher --pin) equals the reference build",
    "module and package names are identifiers (urllib.parse.quote is the identity on every name the url stream sends); "
    "TemplateLookup: the version check of HTML templates and the directory-override check are not transcribed (stream uses "
    "templates without a version, flat directories)",
    "fixed projects cover a single root called `index`, one named like a summary page, and one hidden by --privacy",
    "sorted(package_path.iterdir()) compares pathlib paths of one directory, i.e. their names as str (code point order)",
    "the output-directory model is flat: names are paths relative to the output directory, links point to names of the "
    "same directory, at most 40 links are followed (Linux); directories (mkdir(exist_ok=True)) are not entries",
    "the wall clock is moved by rebinding datetime.datetime (a subclass whose now/utcnow/today are fixed) and time.time inside "
    "the child before pydoctor is imported; a reader of the clock that bypasses both (C level) would not be moved - builds "
    "still run at naturally different times, but not necessarily in different seconds; children run with TZ=UTC",
    "int() and datetime.utcfromtimestamp() decide how a SOURCE_DATE_EPOCH string is classified for the model "
    "(CPython is the reference for these two parameters)",
    "str.lower() is CPython's: every object / str travels to the model with its lowered form (parameter of the sort keys)",
    "the writers' sorts are observed by planting a `sorted` global (records input, key, result; calls the builtin) in "
    "templatewriter.summary/util/pages/sidebar and epydoc2stan while real pages are rendered in-process; list.sort is used once "
    "(UndocumentedSummaryPage) and is read back from the rendered list. Python's sort is stable (CPython's guarantee); the "
    "model uses core List.mergeSort, stable as well (sortedWith_stable)",
    "not transcribed (listed as not-modelled in harness/c18_sites.json `sorts`, each with the reason its key is total): "
    "format_undocumented (enum values), _pyval_repr FLAGS table, PriorityProcessor._post_processors (unique counter), "
    "_configparser parser preference",
    "search documents (all-documents.html, lunr corpus), the objects.inv lines and every `contents` walk follow dict insertion "
    "order (CPython guarantee) of System.allobjects / Documentable.contents, itself fixed by the sorted traversal and the "
    "command-line order of the roots; lunr's own index layout is third party",
    "different builds of one project use different absolute output paths (they run in parallel); pydoctor does not "
    "write the output path into the output",
]
EXPLANATION = ("Theorems: every catalogued set-iteration site - the project-name guess included since /repo f35e237 sorts the "
               "root names - is invariant under the enumeration, sorted traversal is invariant under the listing order, a "
               "re-run into the previous result is the identity. The property itself is decided by the byte comparison of "
               "real builds. projectNameOld / projectname_counterexample_old record the pre-fix behaviour (historical).")
TRUSTED = ["sha-256 equality stands for byte equality of files"]

EPOCH = 1000000000
BUILDTIME = "2001-09-09 01:46:40"          # the same instant, in driver.BUILDTIME_FORMAT
# the environment dimension: SOURCE_DATE_EPOCH of project number n is EPOCHS[n % len(EPOCHS)] (all builds of one
# project share it - "the same build time"); unset + --buildtime is the `bt` pair of builds every project gets.
# 0 / '00' / '0 ' are the legal boundary value (the epoch itself); the last three are refused by the unchanged tree
# (error exit, error exit, traceback) - the same way in every run.
EPOCHS = ["0", "1700000000", "1", "2147483647", "2147483648", "123456789012", "-1", "abc", "00", "0 ",
          str(EPOCH), "253402300800", "1000000000000000000"]
CLOCK_BASE = 1750000000
SUMMARY_NAMES = {"moduleIndex.html", "classIndex.html", "nameIndex.html", "undoccedSummary.html"}
SEARCH_NAMES = {"all-documents.html", "searchindex.json", "fullsearchindex.json"}


# ------------------------------------------------------------------ project generator

ROOTN = ["pkg", "lib", "app", "mod", "util", "core", "zz_top", "_priv"]
SUBN = ["_b", "core", "d", "e", "sub", "zz", "api", "Upper"]
DOCFORMATS = ["epytext", "restructuredtext", "google", "numpy", "plaintext"]


class DetGen(Gen):
    """harness.gen.project.Gen with 1-3 roots"""

    def __init__(self, rng, nroots: int) -> None:
        super().__init__(rng, Knobs(max_modules=7))
        self.nroots = nroots

    def layout(self) -> List[tuple]:
        rng = self.rng
        res: List[tuple] = []
        rootnames = rng.sample(ROOTN, self.nroots)

        def grow(q: str, parent: Optional[str], depth: int, budget: List[int]) -> None:
            ispkg = depth < 2 and rng.random() < (0.7 if depth == 0 else 0.3)
            res.append((q, ispkg, parent))
            budget[0] -= 1
            if ispkg:
                for n in sorted(rng.sample(SUBN, rng.randint(1, 4))):
                    if budget[0] <= 0:
                        break
                    grow(q + "." + n, q, depth + 1, budget)
        for r in rootnames:
            grow(r, None, 0, [rng.randint(1, 5)])
        return res


def xref(fmt: str, target: str) -> str:
    if fmt == "epytext":
        return "L{%s}" % target
    if fmt == "plaintext":
        return target
    return "`%s`" % target


def doc_block(rng, fmt: str, targets: List[str]) -> str:
    """a docformat-specific docstring body with cross references (some dangling) and fields"""
    t = [rng.choice(targets) for _ in range(rng.randint(0, 3))] + (["no.such.Thing"] if rng.random() < 0.3 else [])
    words = ["Summary", "line", "café", "naïve", "λ-term", "x < y & z", "100%"]
    text = " ".join([rng.choice(words) for _ in range(rng.randint(1, 4))] + [xref(fmt, x) for x in t]) + "."
    if fmt == "epytext":
        fields = "\n\n    @param a: first %s\n    @type a: C{int}\n    @return: nothing\n    @see: %s" % (
            xref(fmt, rng.choice(targets)), xref(fmt, rng.choice(targets)))
    elif fmt == "restructuredtext":
        fields = "\n\n    :param a: first %s\n    :type a: int\n    :returns: nothing\n\n    .. note:: see %s" % (
            xref(fmt, rng.choice(targets)), xref(fmt, rng.choice(targets)))
    elif fmt == "google":
        fields = "\n\n    Args:\n        a (int): first %s\n\n    Returns:\n        None: nothing" % xref(fmt, rng.choice(targets))
    elif fmt == "numpy":
        fields = "\n\n    Parameters\n    ----------\n    a : int\n        first %s\n\n    Returns\n    -------\n    None" % xref(fmt, rng.choice(targets))
    else:
        fields = "\n\n    plain second paragraph"
    return text + (fields if rng.random() < 0.7 else "")


CONFLICT_SNIPPET = ("import attr, zope.schema\nfrom zope.interface import Attribute\n@attr.s(auto_attribs=True)\nclass Claimed{n}:\n"
                    "    \"attrs and zope.interface both recognise these assignments\"\n"
                    "    x: int = Attribute('doc of x')\n    y: str = zope.schema.TextLine(description='doc of y')\n    z: int = 0\n")
RST_DATE_SNIPPET = ("def stamped{n}():\n    \"\"\"Built |now|.\n\n    .. |now| date:: %Y-%m-%d %H:%M:%S\n    \"\"\"\n")

C_SOURCE = r'''
#include <Python.h>
static PyObject* f(PyObject* self, PyObject* args, PyObject* kw) { Py_RETURN_NONE; }
static PyMethodDef methods[] = {
  {"f", (PyCFunction)f, METH_VARARGS|METH_KEYWORDS,
   "f($module, /, flags={'alpha', 'beta', 'gamma', 'delta'}, pair=({'x', 'y', 'z'}, 1), n=3)\n--\n\nDo f."},
  {"g", (PyCFunction)f, METH_VARARGS|METH_KEYWORDS, "g($module, /, one={'only'}, empty=(), d={'k': 1})\n--\n\nDo g."},
  {NULL, NULL, 0, NULL}
};
static struct PyModuleDef mod = {PyModuleDef_HEAD_INIT, "cmod", "C module.", -1, methods};
PyMODINIT_FUNC PyInit_cmod(void) { return PyModule_Create(&mod); }
'''
_CMOD: Dict[str, Optional[Path]] = {}


def compiled_cmodule(scratch: Path) -> Optional[Path]:
    """a tiny extension module whose text signatures have set defaults, compiled once per run with the system C compiler
    (None when there is none: the shape is then not generated, and counted)"""
    import sysconfig
    key = str(scratch)
    if key in _CMOD:
        return _CMOD[key]
    res: Optional[Path] = None
    cc = shutil.which("cc") or shutil.which("gcc") or shutil.which("clang")
    inc = sysconfig.get_paths().get("include")
    if cc and inc and (Path(inc) / "Python.h").exists():
        d = scratch / "cmod-build"
        d.mkdir(exist_ok=True)
        (d / "cmod.c").write_text(C_SOURCE)
        out = d / ("cmod" + (sysconfig.get_config_var("EXT_SUFFIX") or ".so"))
        r = subprocess.run([cc, "-shared", "-fPIC", "-O0", "-I", inc, str(d / "cmod.c"), "-o", str(out)],
                           stdout=subprocess.PIPE, stderr=subprocess.PIPE)
        if r.returncode == 0 and out.exists():
            res = out
    _CMOD[key] = res
    return res


def add_cmodule(p: Dict[str, Any]) -> Dict[str, Any]:
    """one more root: package cpkg with the compiled module, documented with --introspect-c-modules"""
    p["files"]["cpkg/__init__.py"] = "x = 1\n"
    # an empty `native.so` stray would be imported by --introspect-c-modules and abort the run (ImportError: file too short:
    # C01's subject, not C18's)
    p["files"] = {k: v for k, v in p["files"].items() if not k.endswith(".so")}
    p["roots"] = p["roots"] + ["cpkg"]
    p["args"] = p["args"] + ["--introspect-c-modules"]
    p["cmodule"] = "cpkg"
    return p


EXT_SNIPPETS = [
    "import attr\n@attr.s(auto_attribs=True)\nclass AttrsData{n}:\n    '''attrs class'''\n    x: int = 0\n    y: str = attr.ib(default='a')\n",
    "from zope.interface import Interface, Attribute, implementer\nclass IThing{n}(Interface):\n    '''an interface'''\n    size = Attribute('the size')\n    def go(arg):\n        '''go'''\n@implementer(IThing{n})\nclass Thing{n}:\n    size = 1\n    def go(self, arg):\n        pass\n",
    "from twisted.python.deprecate import deprecated\nfrom incremental import Version\n@deprecated(Version('{root}', 1, 2, 3))\ndef old_api{n}():\n    '''was useful'''\n",
    "import attr\nfrom zope.interface import implementer, Interface\nfrom twisted.python.deprecate import deprecated\nfrom incremental import Version\nclass IBoth{n}(Interface):\n    pass\n@implementer(IBoth{n})\n@attr.s\nclass Both{n}:\n    '''attrs + zope'''\n    a = attr.ib(type=int)\n    @deprecated(Version('{root}', 2, 0, 0), replacement='go')\n    def gone(self):\n        '''deprecated method'''\n",
]


def gen_project(rng, idx: int) -> Dict[str, Any]:
    nroots = [1, 2, 3, rng.choice([1, 2, 3])][idx % 4]
    g = DetGen(rng, nroots)
    units = g.project()
    fmt = rng.choice(DOCFORMATS)
    targets = [u.qname for u in units]
    for q, names in list(g.defs.items()) + list(g.funcs.items()):
        targets += [q + "." + n for n in names]
    files: Dict[str, str] = {}
    roots: List[str] = []
    for n, u in enumerate(units):
        src = u.source
        extra: List[str] = []
        for k in range(rng.randint(0, 2)):
            nm = "%s%d_%d" % (rng.choice(["documented", "Documented", "_hidden"]), n, k)
            if nm[0].isupper():
                extra += ["class %s:" % nm, '    """%s\n    """' % doc_block(rng, fmt, targets),
                          "    def meth(self, a):", '        """%s\n        """' % doc_block(rng, fmt, targets).replace("\n    ", "\n        "),
                          "    attr = {1, 2, 3}", '    """a set valued attribute"""']
            else:
                extra += ["def %s(a):" % nm, '    """%s\n    """' % doc_block(rng, fmt, targets)]
        if rng.random() < 0.3:
            extra += rng.choice(EXT_SNIPPETS).format(n=n, root=u.qname.split(".")[0]).splitlines()
        if rng.random() < 0.15:
            extra += CONFLICT_SNIPPET.format(n=n).splitlines()
        if fmt == "restructuredtext" and rng.random() < 0.4:
            extra += RST_DATE_SNIPPET.format(n=n).splitlines()
        src = src + "\n".join(extra) + ("\n" if extra else "")
        parts = u.qname.split(".")
        rel = "/".join(parts) + ("/__init__.py" if u.is_package else ".py")
        files[rel] = src
        if u.parent is None:
            roots.append("/".join(parts) if u.is_package else rel)
    # stray directory entries: things addPackage must skip, whatever the listing order
    for u in units:
        if u.is_package and rng.random() < 0.6:
            d = "/".join(u.qname.split("."))
            for stray in rng.sample(["data.txt", ".hidden.py", "stale.pyc", "native.so", "notes/x.py", "README",
                                     "Zcaps.py", "_under.py", "ünicode.txt"], rng.randint(1, 4)):
                files.setdefault(d + "/" + stray, "x = 1\n" if stray.endswith(".py") else "")
    args = ["--docformat=" + fmt]
    explicit: Optional[str] = None
    if rng.random() < 0.5:
        explicit = rng.choice(["Proj", "My Project", "café-api", "a/b"])
        args.append("--project-name=" + explicit)
    if rng.random() < 0.4:
        args.append("--project-version=1.%d" % rng.randint(0, 9))
    if rng.random() < 0.3:
        args.append("--project-url=https://example.org/")
    if rng.random() < 0.3:
        args.append("--theme=" + rng.choice(["readthedocs", "base", "classic"]))
    if rng.random() < 0.3:
        args.append("--privacy=" + rng.choice(["HIDDEN:**._hidden*", "PUBLIC:**._b", "PRIVATE:**.core"]))
    if rng.random() < 0.3:
        args += ["--html-viewsource-base=https://example.org/src", "--project-base-dir=@SRC@"]
    if rng.random() < 0.2:
        args.append("--sidebar-expand-depth=%d" % rng.randint(1, 3))
    p = {"id": "p%d" % idx, "files": files, "roots": roots, "args": args, "explicit": explicit,
         "docformat": fmt, "kind": "generated"}
    if rng.random() < 0.15 and "cpkg" not in [r.split("/")[0] for r in roots]:
        add_cmodule(p)
    return p


def with_name(p: Dict[str, Any], name: str) -> Dict[str, Any]:
    q = dict(p)
    q["id"] = p["id"] + "+name"
    q["args"] = [a for a in p["args"] if not a.startswith("--project-name=")] + ["--project-name=" + name]
    q["explicit"] = name
    return q


def project_digest(p: Dict[str, Any]) -> str:
    h = hashlib.sha256()
    h.update(json.dumps([sorted(p.get("files", {}).items()), p["roots"], p["args"], p.get("srcroot")], sort_keys=True).encode())
    return h.hexdigest()[:16]


def materialise(p: Dict[str, Any], base: Path) -> Path:
    """write the generated sources; returns the source root"""
    if p.get("srcroot"):
        return Path(p["srcroot"])
    src = base / "src"
    for rel, text in p["files"].items():
        f = src / rel
        f.parent.mkdir(parents=True, exist_ok=True)
        f.write_text(text, encoding="utf-8")
    if p.get("cmodule"):
        so = compiled_cmodule(base.parent)
        if so is not None:
            (src / p["cmodule"]).mkdir(parents=True, exist_ok=True)
            shutil.copy(so, src / p["cmodule"] / so.name)
    for rel, text in p.get("templates", {}).items():
        f = base / "tpl" / rel
        f.parent.mkdir(parents=True, exist_ok=True)
        f.write_text(text, encoding="utf-8")
    return src


# ------------------------------------------------------------------ deterministic corpus (runs FIRST on every run)

TIES_BASE = ("class Base:\n    '''base'''\n    first = second = third = 0\n    Alpha = 1\n    alpha = 2\n    ALPHA = 3\n"
             "    def run(self): pass\n    def Run(self): pass\n"
             "class Mid(Base):\n    '''mid'''\n    second = 5\n"
             "class Sub(Mid):\n    '''inherits ties'''\n    own = 1; other = 2\n"
             "def helper(): pass\n"
             "def Helper(): pass\n"
             "x = y = 0\n")


def corpus_projects() -> List[Dict[str, Any]]:
    """every finding's input and every seeded change's needed shape (/verif/seeded/C18*/meta.json), as fixed projects"""
    def proj(pid: str, files: Dict[str, str], roots: List[str], args: List[str], epoch: str, explicit: Optional[str] = None) -> Dict[str, Any]:
        return {"id": "corpus-" + pid, "kind": "generated", "files": files, "roots": roots, "explicit": explicit,
                "args": (["--docformat=plaintext"] if not any("date::" in v for v in files.values()) else ["--docformat=restructuredtext"]) + args,
                "docformat": "plaintext", "epoch": epoch}
    return [
        # finding hashseed:project-name-guess (fixed f35e237) = seeded C18-1: several roots, no --project-name;
        # SOURCE_DATE_EPOCH=0 = seeded C18-r2-3
        proj("two-roots-unnamed", {"lib.py": "x = 1\n", "mod.py": "y = 2\n"}, ["lib.py", "mod.py"], [], "0"),
        proj("three-roots-unnamed", {"pkg/__init__.py": "", "pkg/m.py": "class K: pass\n", "lib.py": "x = 1\n", "app.py": "z = 3\n"},
             ["pkg", "lib.py", "app.py"], [], "00"),
        # seeded C18-2: siblings whose names differ in case only (a case-insensitive traversal sort would tie)
        proj("case-siblings", {"pkg/__init__.py": "'''p'''\n", "pkg/Shapes.py": "class Circle:\n    '''c'''\n",
                               "pkg/shapes.py": "class circle:\n    '''c'''\n", "pkg/SHAPES.py": "def f(): pass\n",
                               "pkg/Sub/__init__.py": "", "pkg/sub/__init__.py": "", "pkg/sub/m.py": "x=1\n", "pkg/Sub/M.py": "x=1\n"},
             ["pkg"], [], "1700000000"),
        # seeded C18-r2-1: inherited members that tie under the member sort key (one source line / names differing in case)
        proj("inherited-ties-source", {"ties.py": TIES_BASE}, ["ties.py"], ["--cls-member-order=source", "--mod-member-order=source"], "0 "),
        proj("inherited-ties-alpha", {"ties.py": TIES_BASE}, ["ties.py"], [], "1"),
        # classIndex roots / external bases whose names differ in case only (findRootClasses key = lower())
        proj("root-class-ties", {"rc.py": "import ext\nclass A(ext.Foo): pass\nclass B(ext.foo): pass\nclass C(ext.FOO): pass\n"
                                          "class Top: pass\nclass top: pass\nclass D(Top): pass\nclass d(Top): pass\n"},
             ["rc.py"], [], "2147483648"),
        # seeded C18-r2-2 / 5201211 / a09aa28: exactly one root; one named like a summary page, one called index, one hidden
        proj("single-root", {"solo/__init__.py": "'''s'''\n", "solo/a.py": "x=1\n", "solo/b.py": "y=1\n", "solo/c.py": "z=1\n"}, ["solo"], [], "-1"),
        proj("classIndex", {"classIndex.py": '"""A module named like a summary page."""\nclass K:\n    """k"""\n'}, ["classIndex.py"], [], "123456789012"),
        proj("index", {"index.py": '"""A module called index."""\ndef f():\n    """f"""\n'}, ["index.py"], [], "2147483647"),
        proj("hidden-root", {"hid.py": '"""A hidden root."""\nx = 1\n'}, ["hid.py"], ["--privacy=HIDDEN:hid"], str(EPOCH)),
        # finding listing-order:template-dir-case-collision (fixed ea400d3): a --template-dir with files whose names differ in case only
        dict(proj("template-case-collision", {"m.py": "x = 1\n"}, ["m.py"], ["--template-dir=@TPL@"], "1"),
             templates={"Extra.css": "/* UPPER */\n", "extra.css": "/* lower */\n", "My.css": "A\n", "my.css": "b\n", "plain.txt": "t\n"},
             modes=["sorted", "reverse"]),
        # hunter round. finding listing-order:extension-load-order (fixed 2786e75): attrs and zopeinterface both claim an assignment
        dict(proj("extension-conflict", {"m.py": CONFLICT_SNIPPET.format(n=0)}, ["m.py"], ["--project-name=demo"], "1700000000", "demo"),
             modes=["sorted", "reverse"]),
        # finding hashseed:introspected-set-default (fixed 828eb1f): --introspect-c-modules, set default in a text signature
        add_cmodule(proj("c-module-set-default", {"lib.py": "x = 1\n"}, ["lib.py"], ["--project-name=demo"], "1", "demo")),
        # open finding wall-clock:rst-date-directive: docutils' date directive shows the clock whatever build time is given
        proj("rst-date-directive", {"m.py": '"""Generated at |now|.\n\n.. |now| date:: %Y-%m-%d %H:%M:%S\n"""\n__docformat__ = "restructuredtext"\n'
                                             + RST_DATE_SNIPPET.format(n=0)}, ["m.py"], ["--project-name=demo"], "2147483647", "demo"),
        # a SOURCE_DATE_EPOCH the tree refuses
        proj("epoch-not-a-number", {"m.py": "x = 1\n"}, ["m.py"], [], "abc"),
    ]


# ------------------------------------------------------------------ builds

def snapshot(out: Path) -> Dict[str, Tuple[str, ...]]:
    snap: Dict[str, Tuple[str, ...]] = {}
    if not out.exists():
        return snap
    for dirpath, dirnames, filenames in os.walk(out):
        dirnames.sort()
        for n in sorted(dirnames + filenames):
            full = os.path.join(dirpath, n)
            rel = os.path.relpath(full, out)
            if os.path.islink(full):
                snap[rel] = ("L", os.readlink(full))
            elif os.path.isdir(full):
                snap[rel] = ("D",)
            else:
                h = hashlib.sha256()
                with open(full, "rb") as f:
                    for chunk in iter(lambda: f.read(1 << 20), b""):
                        h.update(chunk)
                snap[rel] = ("F", h.hexdigest(), str(os.path.getsize(full)))
    return snap


def file_kind(rel: str) -> str:
    if rel == "index.html":
        return "index"
    if rel in SUMMARY_NAMES:
        return "summary"
    if rel in SEARCH_NAMES:
        return "search"
    if rel == "objects.inv":
        return "inventory"
    if rel.endswith(".html"):
        return "page"
    return "static"


def diff_snap(a: Dict[str, Tuple[str, ...]], b: Dict[str, Tuple[str, ...]]) -> List[str]:
    return sorted(k for k in set(a) | set(b) if a.get(k) != b.get(k))


def diff_kind(a: Dict[str, Tuple[str, ...]], b: Dict[str, Tuple[str, ...]]) -> str:
    d = diff_snap(a, b)
    if not d:
        return ""
    if set(a) != set(b):
        return "fileset"
    for pref in ("page", "index", "summary", "search", "inventory", "static"):
        for k in d:
            if file_kind(k) == pref:
                return pref
    return "other"


def classify_epoch(value: Optional[str]) -> str:
    """the model's EnvEpoch token for a SOURCE_DATE_EPOCH string; int() and utcfromtimestamp() are CPython's
    (parameters of the model with CPython as their reference)"""
    import datetime
    import warnings
    if value is None:
        return "unset"
    try:
        n = int(value)
    except ValueError:
        return "notint"
    try:
        with warnings.catch_warnings():
            warnings.simplefilter("ignore")
            datetime.datetime.utcfromtimestamp(n)
    except ValueError:
        return "yearrange"
    except (OverflowError, OSError):
        return "platformrange"
    return "v=%d" % n


def clock_for(p: Dict[str, Any], *key: Any) -> int:
    """a wall-clock instant for one build: a deterministic function of the build, never the same second twice"""
    import random
    return CLOCK_BASE + random.Random("%s|%r" % (project_digest(p), key)).randrange(-10 ** 7, 10 ** 7)


def run_build(p: Dict[str, Any], src: Path, out: Path, hashseed: int, mode: str, sidecar: Path,
              tag: str = "", clock: int = CLOCK_BASE, timeout: int = 1500, pin: str = "") -> Dict[str, Any]:
    """tag: '' = SOURCE_DATE_EPOCH of the project; 'clock' = the same at another wall-clock time; 'bt' = variable
    unset, --buildtime given; 'noenv' = neither (correspondence of the build-time decision only)"""
    env = subprocess_env(hashseed)
    env.pop("SOURCE_DATE_EPOCH", None)
    env["TZ"] = "UTC"
    args = [a.replace("@SRC@", str(src)).replace("@TPL@", str(src.parent / "tpl")) for a in p["args"]]
    epoch: Optional[str] = None
    if tag == "bt":
        args.append("--buildtime=" + BUILDTIME)
    elif tag != "noenv":
        epoch = p.get("epoch", str(EPOCH))
        env["SOURCE_DATE_EPOCH"] = epoch
    cmd = [sys.executable, "-m", "harness.impl.launch_shuffled", mode, "--sidecar", str(sidecar),
           "--outdir", str(out), "--srcroot", str(src), "--clock", str(clock)] + (["--pin", pin] if pin else []) + ["--",
           "-q", "--html-output=" + str(out)] + args + [str(src / r) for r in p["roots"]]
    pre = snapshot(out)
    try:
        pr = subprocess.run(cmd, env=env, cwd=str(VERIF), stdout=subprocess.PIPE, stderr=subprocess.PIPE, timeout=timeout)
    except subprocess.TimeoutExpired:
        raise Infra("pydoctor build timed out: " + p["id"])
    err = pr.stderr.decode("utf-8", "replace")
    tail = "\n".join(l for l in err.splitlines() if not l.startswith("  "))[-600:]
    side: Dict[str, Any] = {}
    if sidecar.exists():
        try:
            side = json.loads(sidecar.read_text())
        except ValueError:
            side = {}
    return {"exit": pr.returncode, "stderr_tail": tail, "traceback": "Traceback (most recent call last)" in err,
            "side": side, "pre": pre, "post": snapshot(out), "hashseed": hashseed, "mode": mode, "tag": tag,
            "epoch": epoch, "clock": clock}


def job(p: Dict[str, Any], src: Path, base: Path, hashseed: int, mode: str, tag: str) -> List[Dict[str, Any]]:
    """fresh build, then (matrix builds) the same build again into the same directory; every build at its own
    wall-clock second"""
    name = "%d_%s%s" % (hashseed, mode.replace(":", ""), "_" + tag if tag else "")
    out = base / ("out_" + name)
    r1 = run_build(p, src, out, hashseed, mode, base / ("side_%s_1.json" % name), tag, clock_for(p, hashseed, mode, tag, 1))
    r1["reused"] = False
    if tag:
        shutil.rmtree(out, ignore_errors=True)
        return [r1]
    r2 = run_build(p, src, out, hashseed, mode, base / ("side_%s_2.json" % name), tag, clock_for(p, hashseed, mode, tag, 2))
    r2["reused"] = True
    shutil.rmtree(out, ignore_errors=True)
    return [r1, r2]


def matrix(ctx_seed: int, quick: bool, n: int = 0) -> Tuple[List[int], List[str]]:
    """hash seeds and listing orders for project number n: always 4 seeds x 2 orders (x fresh / reused)"""
    if quick:
        return [0, 1, 2, 3], ["asis", "reverse"]
    seeds = [0, 1 + n % 5, 7 + n % 3, 100 + n]
    modes = ["asis", "reverse"] if n % 2 == 0 else ["sorted", "shuffle:%d" % (ctx_seed * 1000 + n)]
    return seeds, modes


# ------------------------------------------------------------------ the direct oracle

def oracle(ctx: Ctx, p: Dict[str, Any], results: Dict[Tuple[int, str, str], List[Dict[str, Any]]],
           seeds: List[int], modes: List[str]) -> None:
    """byte comparison of every build with the reference build; failures classified by cause"""
    multi_unnamed = len(p["roots"]) >= 2 and p.get("explicit") is None
    inp = {k: p[k] for k in ("id", "files", "roots", "args", "kind", "templates", "modes", "cmodule") if k in p}
    tnames = [os.path.basename(t) for t in p.get("templates", {})]
    template_collision = len({t.lower() for t in tnames}) < len(tnames)
    if p.get("srcroot"):
        inp["srcroot"] = p["srcroot"]
    ok_exit = (0, 2, 3)
    inp["epoch"] = p.get("epoch", str(EPOCH))
    envclass = classify_epoch(inp["epoch"])
    ctx.count("env:SOURCE_DATE_EPOCH=" + (envclass if not envclass.startswith("v=") else repr(inp["epoch"])))
    mat = {k: rs for k, rs in results.items() if k[2] == ""}
    allres = [r for rs in mat.values() for r in rs] + results.get((seeds[0], modes[0], "clock"), [])
    exits = sorted({r["exit"] for r in allres})
    if not envclass.startswith("v="):
        # a value the unchanged tree refuses: it must be refused the same way by every run, and leave no output
        ctx.count("env-refused:" + envclass)
        for r in allres:
            ctx.case("%s %d %s %s refused" % (project_digest(p), r["hashseed"], r["mode"], r["reused"]), True, None)
        if any(e in ok_exit for e in exits) or len(exits) > 1 or len({r["traceback"] for r in allres}) > 1:
            ctx.fail("env:refused-inconsistently", inp, "SOURCE_DATE_EPOCH=%r: exit codes %s over the builds of one project" % (inp["epoch"], exits))
        elif any(r["post"] for r in allres):
            ctx.fail("env:refused-with-output", inp, "SOURCE_DATE_EPOCH=%r is refused but output was written" % inp["epoch"])
        oracle_buildtime_pair(ctx, p, inp, results, None, False)
        return
    if any(e not in ok_exit for e in exits):
        # a crashing build is C01's subject; here only "crashes under some seeds / orders and not under others" counts
        ctx.count("build-crashed")
        rerun_only = [rs for rs in mat.values() if len(rs) == 2 and rs[0]["exit"] in ok_exit and rs[1]["exit"] not in ok_exit]
        if rerun_only and all(rs[0]["exit"] in ok_exit for rs in mat.values()):
            ctx.fail("reused-dir:exit-status", inp, "the build succeeds into a fresh directory and exits %s when run again into "
                     "the directory it produced: %s" % (rerun_only[0][1]["exit"], rerun_only[0][1]["stderr_tail"][-200:]))
        elif len(exits) > 1:
            ctx.fail("exit-status-differs", inp, f"exit codes {exits} for one project: " + allres[0]["stderr_tail"][-200:])
        else:
            ctx.notes.append("project %s: every build exits %s: %s" % (p["id"], exits, allres[0]["stderr_tail"][-160:]))
        return
    if len(exits) > 1:
        ctx.fail("exit-status-differs", inp, f"exit codes {exits} for one project")
    ref = results[(seeds[0], modes[0], "")][0]
    nfail_before = sum(f["count"] for f in ctx.failures)
    # (t) the wall clock: the reference build again, same seed, same listing, fresh directory, another second
    for r in results.get((seeds[0], modes[0], "clock"), []):
        ctx.case("%s %d %s clock" % (project_digest(p), r["hashseed"], r["mode"]), True, None)
        ctx.count("build:other-wall-clock")
        k = diff_kind(ref["post"], r["post"])
        if k and any("date::" in v for v in p.get("files", {}).values()) and ref["side"].get("buildtime") == r["side"].get("buildtime"):
            k = "rst-date-directive"
        if k:
            ctx.fail("wall-clock:" + k, inp, "SOURCE_DATE_EPOCH=%r, same hash seed and listing order, wall clock %d vs %d: %s differ "
                     "(build time shown: %s vs %s)" % (inp["epoch"], ref["clock"], r["clock"], diff_snap(ref["post"], r["post"])[:4],
                                                       ref["side"].get("buildtime"), r["side"].get("buildtime")))
            oracle_buildtime_pair(ctx, p, inp, results, ref, False)
            return      # every other comparison of this project would only repeat it
    files = p.get("files", {})
    pkgdirs = {os.path.dirname(f) for f in files if f.endswith("/__init__.py")}
    pkg3 = any(len({f[len(d) + 1:].split("/")[0] for f in files if f.startswith(d + "/")}) >= 3 for d in pkgdirs)
    byname: Dict[str, Dict[str, Tuple[str, ...]]] = {}
    for (hs, mode, tag), rs in sorted(results.items()):
        if tag:
            continue
        for r in rs:
            nontriv = len(p["roots"]) >= 2 or pkg3 or r["reused"] or p.get("kind") != "generated"
            canon = "%s %d %s %s" % (project_digest(p), hs, mode, "reused" if r["reused"] else "fresh")
            ctx.case(canon, nontriv, None)
            ctx.count("build:" + ("reused" if r["reused"] else "fresh"))
        first, second = rs[0], rs[1]
        # (c) fresh vs reused output directory
        k = diff_kind(first["post"], second["post"])
        if k:
            ctx.fail("reused-dir:" + k, inp, "hash seed %d, listing %s: running again into the directory of the previous run "
                     "changes %s" % (hs, mode, diff_snap(first["post"], second["post"])[:4]))
        # (b) listing order, same hash seed
        base_same_seed = results[(hs, modes[0], "")][0]
        if mode != modes[0]:
            k = diff_kind(base_same_seed["post"], first["post"])
            if k and not template_collision and p.get("_base") is not None and p.get("_ext_order_cause"):
                ctx.fail("listing-order:extension-load-order", inp, "hash seed %d: listing order %s vs %s (cause established for this project above)" % (hs, modes[0], mode))
                k = ""
            elif k and not template_collision and p.get("_base") is not None:
                # attribution experiment (once per project): the same build with ONLY pydoctor/extensions listed in name order
                pinned = ext_order_experiment(p, hs, mode, base_same_seed["clock"], "m%d" % hs)
                if pinned["exit"] in (0, 2, 3) and not diff_kind(base_same_seed["post"], pinned["post"]):
                    p["_ext_order_cause"] = True
                    ctx.fail("listing-order:extension-load-order", inp,
                             "hash seed %d: listing order %s vs %s changes %s; with only pydoctor/extensions/ listed in name order the "
                             "trees are equal; extensions loaded as %s vs %s" % (
                                 hs, modes[0], mode, diff_snap(base_same_seed["post"], first["post"])[:4],
                                 base_same_seed["side"].get("extensions"), first["side"].get("extensions")))
                    k = ""
            if k:
                ctx.fail("listing-order:" + ("template-dir-case-collision" if template_collision else k), inp,
                         "hash seed %d: listing order %s vs %s changes %s" % (
                             hs, modes[0], mode, diff_snap(base_same_seed["post"], first["post"])[:4]))
        # (a) hash seed, same listing order
        elif hs != seeds[0]:
            k = diff_kind(ref["post"], first["post"])
            if k:
                n0, n1 = ref["side"].get("projectname"), first["side"].get("projectname")
                if multi_unnamed and n0 != n1:
                    ctx.fail("hashseed:project-name-guess", inp,
                             "PYTHONHASHSEED=%d guesses project name %r, PYTHONHASHSEED=%d guesses %r; %d files differ (%s ...)" % (
                                 seeds[0], n0, hs, n1, len(diff_snap(ref["post"], first["post"])),
                                 ", ".join(diff_snap(ref["post"], first["post"])[:3])))
                elif p.get("cmodule") and set(diff_snap(ref["post"], first["post"])) <= {p["cmodule"] + ".cmod.html"}:
                    ctx.fail("hashseed:introspected-set-default", inp,
                             "PYTHONHASHSEED=%d vs %d: only %s.cmod.html differs (--introspect-c-modules; the text signatures of the "
                             "extension module have set defaults)" % (seeds[0], hs, p["cmodule"]))
                else:
                    ctx.fail("hashseed:" + k, inp, "PYTHONHASHSEED=%d vs %d changes %s" % (
                        seeds[0], hs, diff_snap(ref["post"], first["post"])[:4]))
        # builds that guessed the same name must agree whatever the seed: nothing hides behind the known finding
        if multi_unnamed:
            nm = first["side"].get("projectname")
            if nm in byname:
                k = diff_kind(byname[nm], first["post"])
                if k and mode == modes[0] and p.get("cmodule") and set(diff_snap(byname[nm], first["post"])) <= {p["cmodule"] + ".cmod.html"}:
                    ctx.fail("hashseed:introspected-set-default", inp, "two builds that guessed the same project name differ in %s.cmod.html only" % p["cmodule"])
                elif k and mode == modes[0]:
                    ctx.fail("hashseed:" + k, inp, "two builds that guessed the same project name %r differ in %s" % (
                        nm, diff_snap(byname[nm], first["post"])[:4]))
            elif mode == modes[0]:
                byname[nm] = first["post"]
    oracle_buildtime_pair(ctx, p, inp, results, ref, nfail_before != sum(f["count"] for f in ctx.failures),
                          nontrivial=len(p["roots"]) >= 2 or pkg3)


def ext_order_experiment(p: Dict[str, Any], hs: int, mode: str, clock: int, name: str, tag: str = "") -> Dict[str, Any]:
    """the build (hs, mode) again, at the given wall clock, with ONLY pydoctor/extensions/ listed in name order"""
    out = p["_base"] / ("out_pin_" + name)
    r = run_build(p, p["_src"], out, hs, mode, p["_base"] / ("side_pin_%s.json" % name), tag, clock, pin="pydoctor/extensions")
    if r["exit"] not in (0, 2, 3):          # a loaded machine: once more
        shutil.rmtree(out, ignore_errors=True)
        r = run_build(p, p["_src"], out, hs, mode, p["_base"] / ("side_pin_%s.json" % name), tag, clock, pin="pydoctor/extensions")
    shutil.rmtree(out, ignore_errors=True)
    return r


def oracle_buildtime_pair(ctx: Ctx, p: Dict[str, Any], inp: Dict[str, Any], results: Dict[Tuple[int, str, str], List[Dict[str, Any]]],
                          ref: Optional[Dict[str, Any]], already: bool, nontrivial: bool = True) -> None:
    """SOURCE_DATE_EPOCH unset, the same --buildtime: two builds with different hash seed, listing order and wall clock"""
    multi_unnamed = len(p["roots"]) >= 2 and p.get("explicit") is None
    bts = [rs[0] for (hs, mode, tag), rs in sorted(results.items()) if tag == "bt"]
    for r in bts:
        ctx.case("%s %d %s buildtime" % (project_digest(p), r["hashseed"], r["mode"]), nontrivial, None)
        ctx.count("build:buildtime")
    if len(bts) >= 2:
        if {r["exit"] for r in bts} - {0, 2, 3}:
            if len({r["exit"] for r in bts}) > 1:
                ctx.fail("exit-status-differs", inp, "--buildtime builds exit %s" % sorted({r["exit"] for r in bts}))
            return
        k = diff_kind(bts[0]["post"], bts[1]["post"])
        tn = [os.path.basename(t) for t in p.get("templates", {})]
        if k and len({t.lower() for t in tn}) < len(tn) and bts[0]["mode"] != bts[1]["mode"]:
            ctx.fail("listing-order:template-dir-case-collision", inp, "--buildtime builds under two listing orders differ in %s" % diff_snap(bts[0]["post"], bts[1]["post"])[:4])
        elif k and any("date::" in v for v in p.get("files", {}).values()) and \
                bts[0]["side"].get("buildtime") == bts[1]["side"].get("buildtime"):
            if not already:
                ctx.fail("wall-clock:rst-date-directive", inp, "two builds with the same --buildtime at two wall-clock seconds differ in %s; "
                         "the sources use the reStructuredText `date` directive" % diff_snap(bts[0]["post"], bts[1]["post"])[:4])
        elif k and p.get("cmodule") and bts[0]["hashseed"] != bts[1]["hashseed"] and \
                set(diff_snap(bts[0]["post"], bts[1]["post"])) <= {p["cmodule"] + ".cmod.html"}:
            if not already:
                ctx.fail("hashseed:introspected-set-default", inp, "--buildtime builds under PYTHONHASHSEED %d / %d differ in %s.cmod.html only" % (
                    bts[0]["hashseed"], bts[1]["hashseed"], p["cmodule"]))
        elif k and not already and bts[0]["mode"] != bts[1]["mode"] and p.get("_base") is not None:
            # the pair differs in listing order as well: is it the extension load order? (both builds with pydoctor/extensions pinned)
            a = ext_order_experiment(p, bts[0]["hashseed"], bts[0]["mode"], bts[0]["clock"], "bta", "bt")
            b = ext_order_experiment(p, bts[1]["hashseed"], bts[1]["mode"], bts[1]["clock"], "btb", "bt")
            if not diff_kind(a["post"], b["post"]):
                ctx.fail("listing-order:extension-load-order", inp, "--buildtime builds under listing orders %s / %s differ in %s; with only "
                         "pydoctor/extensions/ listed in name order they are equal" % (bts[0]["mode"], bts[1]["mode"], diff_snap(bts[0]["post"], bts[1]["post"])[:4]))
            else:
                ctx.fail("buildtime:" + k, inp, "two builds with the same --buildtime (hash seed, listing order and wall clock differ) "
                         "differ in %s" % diff_snap(bts[0]["post"], bts[1]["post"])[:4])
        elif k and not already:       # otherwise the cause has been named by the SOURCE_DATE_EPOCH matrix
            n0, n1 = bts[0]["side"].get("projectname"), bts[1]["side"].get("projectname")
            if multi_unnamed and n0 != n1:
                ctx.fail("hashseed:project-name-guess", inp, "--buildtime builds guess %r and %r" % (n0, n1))
            else:
                ctx.fail("buildtime:" + k, inp, "two builds with the same --buildtime (hash seed, listing order and wall clock differ) "
                         "differ in %s" % diff_snap(bts[0]["post"], bts[1]["post"])[:4])
        # observation only: --buildtime and SOURCE_DATE_EPOCH naming the same instant
        if ref is not None and inp.get("epoch") == str(EPOCH):
            same_name = [r for r in bts if r["side"].get("projectname") == ref["side"].get("projectname")]
            if same_name:
                ctx.count("buildtime-vs-epoch:" + ("same-bytes" if not diff_kind(ref["post"], same_name[0]["post"]) else "different-bytes"))


# ------------------------------------------------------------------ correspondence streams fed by the sidecars

def ntoks(names: Sequence[str]) -> str:
    return " ".join(enc(n) for n in names)


def safe(name: str) -> bool:
    return all(c.isalnum() or c in "._" for c in name) and all(ord(c) < 128 for c in name)


class Streams:
    def __init__(self) -> None:
        self.data: Dict[str, Tuple[List[str], List[str], List[Any]]] = {}
        self.seen: set = set()

    def add(self, stream: str, req: str, impl: str, payload: Any) -> None:
        if (stream, req, impl) in self.seen:
            return
        self.seen.add((stream, req, impl))
        r, i, pl = self.data.setdefault(stream, ([], [], []))
        r.append(req)
        i.append(impl)
        pl.append(payload)

    def flush(self, ctx: Ctx) -> None:
        for stream, (r, i, pl) in sorted(self.data.items()):
            ctx.compare(stream, r, i, pl)
            ctx.count("corr:" + stream, len(r))


def suffix_tokens() -> Tuple[str, str, str]:
    import importlib.machinery as m
    j = lambda l: ",".join(enc(s) for s in l) or "-"
    return j(m.all_suffixes()), j(m.SOURCE_SUFFIXES), j(m.EXTENSION_SUFFIXES)


def buildtime_stream(st: Streams, p: Dict[str, Any], r: Dict[str, Any]) -> None:
    """System.__init__ + driver.get_system's build-time decision against `buildTime`, for every build incl. refused ones"""
    import datetime
    opt = "-"
    if r["tag"] == "bt":
        opt = "t=%d" % int((datetime.datetime.strptime(BUILDTIME, "%Y-%m-%d %H:%M:%S") - datetime.datetime(1970, 1, 1)).total_seconds())
    req = "determinism buildtime %d %s %s" % (r["clock"], classify_epoch(r["epoch"]), opt)
    side = r["side"]
    if "buildtime_seconds" in side:
        impl = "time %d" % side["buildtime_seconds"]
    elif r["exit"] == 1 and not r["traceback"]:
        impl = "exit-error"
    elif r["traceback"]:
        impl = "crash"
    else:
        impl = "exit %s without build time" % r["exit"]
    st.add("get_system.buildtime~buildTime", req, impl, {"project": p["id"], "SOURCE_DATE_EPOCH": r["epoch"], "tag": r["tag"], "clock": r["clock"]})


def sidecar_streams(st: Streams, p: Dict[str, Any], src: Path, r: Dict[str, Any]) -> None:
    side = r["side"]
    if "root_enum" not in side:
        return
    enum = side["root_enum"]
    where = {"project": p["id"], "hashseed": r["hashseed"], "mode": r["mode"], "root_enum": enum}
    st.add("get_system.projectname~projectName",
           "determinism projectname %s %s" % (enc(side["explicit"]) if side["explicit"] is not None else "-", ntoks(enum)),
           "ok " + enc(side["projectname"]), where)
    st.add("summaryPages~hasIndexPage", "determinism indexpage %d %s" % (1 if side["any_root_visible"] else 0, ntoks(enum)),
           "yes" if "IndexPage" in side["summary_pages"] else "no", where)
    for full, url in side["page_urls"].items():
        if safe(full):
            st.add("Documentable.url~pageUrl", "determinism pageurl %s %s" % (enc(full), ntoks(enum)), "ok " + enc(url), where)
    for pfx, unknown in side["unknown_root"].items():
        st.add("linker.root_names~rootUnknown", "determinism unknownroot %s %s" % (enc(pfx), ntoks(enum)),
               "yes" if unknown else "no", where)
    links = sorted((k, v[1]) for k, v in r["post"].items() if v[0] == "L")
    if not links:
        impl = "none"
    elif len(links) == 1 and links[0][1] == "index.html":
        impl = "link " + enc(links[0][0])
    else:
        impl = "other " + repr(links)
    st.add("writeSummaryPages.symlink~rootSymlink",
           "determinism symlink %d %s %s" % (1 if side["any_root_visible"] else 0,
                                             ",".join(enc(f) for f in side["page_files"]) or "-", ntoks(enum)), impl, where)
    # traversal: one request per root that is a package with a name no other root shares
    listing: Dict[str, List[str]] = {}
    for d, names in side.get("listings", []):
        listing[d] = names
    tops = [Path(x).name for x in p["roots"]]
    a, s, e = suffix_tokens()
    for rootrel in p["roots"]:
        rootdir = src / rootrel
        name = rootdir.name
        if not rootdir.is_dir() or tops.count(name) + tops.count(name + ".py") > 1:
            continue
        toks: List[str] = []
        okreq = True
        stack = [(rootdir, [name])]
        while stack:
            d, comps = stack.pop()
            rel = os.path.relpath(d, src)
            if rel not in listing:
                okreq = False
                break
            ents = []
            for n in listing[rel]:
                f = d / n
                if f.is_dir():
                    if (f / "__init__.py").exists():
                        ents.append("p=" + enc(n))
                        stack.append((f, comps + [n]))
                    else:
                        ents.append("d=" + enc(n))
                else:
                    ents.append("f=" + enc(n))
            toks += ["@", "/".join(enc(c) for c in comps)] + ents
        if not okreq:
            continue
        evs = [k + "=" + "/".join(enc(c) for c in comps) for k, comps in side.get("traversal", []) if comps and comps[0] == name]
        st.add("System.addPackage~addPackage", "determinism traverse %d %s %s %s %s %s" % (
                   1 if "--introspect-c-modules" in p["args"] else 0, a, s, e, enc(name), " ".join(toks)),
               " ".join(["ok"] + evs), dict(where, root=name, listing={k: v for k, v in listing.items()}))
    # operation log of the output directory
    ids: Dict[str, int] = {}

    def cid(h: str) -> int:
        return ids.setdefault(h, len(ids) + 1)

    def dir_tokens(snap: Dict[str, Tuple[str, ...]]) -> List[str]:
        out = []
        for k in sorted(snap, key=lambda s: [ord(c) for c in s]):
            v = snap[k]
            if v[0] == "F":
                out.append("F=%s=%d" % (enc(k), cid(v[1])))
            elif v[0] == "L":
                out.append("L=%s=%s" % (enc(k), enc(v[1])))
        return out
    post = r["post"]

    def final_content(name: str) -> Optional[int]:
        seen = 0
        while name in post and post[name][0] == "L" and seen < 41:
            name = os.path.normpath(os.path.join(os.path.dirname(name), post[name][1]))
            seen += 1
        v = post.get(name)
        return cid(v[1]) if v is not None and v[0] == "F" else None
    pre_toks = dir_tokens(r["pre"])
    ops: List[str] = []
    bad: Optional[str] = None
    for op in side.get("fs_ops", []):
        if op[0] == "W":
            c = final_content(op[1])
            if c is None:
                bad = "written file is gone: " + op[1]
                break
            ops.append("W=%s=%d" % (enc(op[1]), c))
        elif op[0] == "U":
            ops.append("U=" + enc(op[1]))
        elif op[0] == "S":
            ops.append("S=%s=%s" % (enc(op[1]), enc(op[2])))
        elif op[0] == "D":
            continue
        else:
            bad = "operation the model does not have: " + repr(op)
            break
    req = "determinism run %s | %s" % (" ".join(pre_toks), " ".join(ops))
    impl = bad if bad else " ".join(["ok wf=yes"] + dir_tokens(post))
    st.add("output-directory oplog~run", req, impl, dict(where, reused=r["reused"], ops=len(ops)))


# ------------------------------------------------------------------ in-process streams

def site_function_stream(ctx: Ctx, st: Streams) -> None:
    """real System objects with 0-4 roots: every consumer of root_names against the model, on the
    enumeration THIS interpreter produces; astutils._annotation_for_elements; IndexPage.rootkind"""
    from pydoctor import model, astutils
    from pydoctor.templatewriter import summary
    import ast as _ast
    rng = ctx.rng
    n = 60 if ctx.quick else 600
    for _ in range(n):
        system = model.System()
        k = rng.choice([0, 1, 1, 2, 2, 3, 4])
        names = rng.sample(ROOTN + ["a", "b", "x1", "Mod"], k)
        objs = []
        for nm in names:
            cls = system.Package if rng.random() < 0.5 else system.Module
            if rng.random() < 0.3:
                system.options.privacy = list(system.options.privacy) + [(model.PrivacyClass.HIDDEN, nm)]   # --privacy=HIDDEN:<root>
            o = cls(system, nm)
            system.addObject(o)
            objs.append(o)
            if rng.random() < 0.5:
                sub = system.Module(system, "child", o) if isinstance(o, model.Package) else system.Class(system, "K", o)
                system.addObject(sub)
                objs.append(sub)
        enum = list(system.root_names)
        where = {"roots": names, "root_enum": enum}
        for o in objs:
            st.add("Documentable.url~pageUrl", "determinism pageurl %s %s" % (enc(o.fullName()), ntoks(enum)), "ok " + enc(o.url), where)
        vis = any(o.isVisible for o in system.rootobjects)
        st.add("summaryPages~hasIndexPage", "determinism indexpage %d %s" % (1 if vis else 0, ntoks(enum)),
               "yes" if summary.IndexPage in summary.summaryPages(system) else "no", dict(where, any_root_visible=vis))
        ctx.count("site-fn:roots=%d" % k)
    # astutils._annotation_for_elements
    pool = [1, 2.5, "s", b"b", True, None, (1,), [1], {1: 2}, {1}, 1j]
    for _ in range(n):
        seq = [rng.choice(pool) for _ in range(rng.randint(0, 4))]
        anns = [astutils._annotation_for_value(e) for e in seq]
        if not all(isinstance(a, _ast.Name) for a in anns):
            continue
        enum = list({a.id for a in anns})       # the set the function builds, enumerated by this interpreter
        res = astutils._annotation_for_elements(seq)
        st.add("astutils._annotation_for_elements~popSingle", "determinism popsingle " + ntoks(enum),
               "ok " + enc(res.id) if isinstance(res, _ast.Name) else "none", {"elements": repr(seq)})


def os_semantics_stream(ctx: Ctx, st: Streams, scratch: Path) -> None:
    """random operation lists on a real directory with the primitives pydoctor uses, against `run`"""
    rng = ctx.rng
    names = ["a", "b", "c", "index.html", "pkg.html"]
    n = 150 if ctx.quick else 2000
    for i in range(n):
        d = scratch / ("os%d" % i)
        d.mkdir()
        ops = []
        status = "ok"
        contents: Dict[bytes, int] = {}
        for _ in range(rng.randint(1, 8)):
            kind = rng.choice("WWWUS")
            nm = rng.choice(names)
            try:
                if kind == "W":
                    c = rng.randint(1, 9)
                    ops.append("W=%s=%d" % (enc(nm), c))
                    with (d / nm).open("wb") as f:
                        f.write(b"%d" % c)
                elif kind == "U":
                    ops.append("U=" + enc(nm))
                    try:
                        (d / nm).unlink()
                    except FileNotFoundError:
                        pass
                else:
                    t = rng.choice(names)
                    ops.append("S=%s=%s" % (enc(nm), enc(t)))
                    (d / nm).symlink_to(t)
            except FileExistsError:
                status = "FileExistsError"
                break
            except OSError as e:
                import errno
                status = "ELOOP" if e.errno == errno.ELOOP else "OSError:%d" % e.errno
                break
        if status == "ok":
            toks = []
            for k in sorted(os.listdir(d), key=lambda s: [ord(c) for c in s]):
                f = d / k
                if f.is_symlink():
                    toks.append("L=%s=%s" % (enc(k), enc(os.readlink(f))))
                else:
                    toks.append("F=%s=%d" % (enc(k), int(f.read_bytes())))
            impl = " ".join(["ok"] + toks)
        else:
            impl = status
        st.add("os primitives~step", "determinism exec | " + " ".join(ops), impl, {"ops": ops})
        shutil.rmtree(d, ignore_errors=True)


# ------------------------------------------------------------------ the site catalogue

STRICT = ("iterate:", "sorted", "escape:arg", "escape:stored")      # escape:return = where a set is produced: informational


def strict(site: Dict[str, str]) -> bool:
    return site["source"] == "listing" or site["kind"].startswith(STRICT)


def catalogue_stream(ctx: Ctx) -> None:
    cat = json.loads((VERIF / "harness" / "c18_sites.json").read_text())["sites"]
    try:
        found = sitescan.scan(REPO)
    except Exception as e:       # a file that no longer parses etc.
        ctx.disagree("site-catalogue", "scan", "catalogue", "scan failed: %r" % e)
        return
    ckeys = {(s["file"], s["function"], s["expression"], s["kind"]): s for s in cat}
    fkeys = {(s["file"], s["function"], s["expression"], s["kind"]): s for s in found}
    for k, s in sorted(fkeys.items()):
        ctx.traces_validated += 1
        ctx.count("site:" + ("listing:" if s["source"] == "listing" else "") + s["kind"].split(":")[0])
        if k in ckeys:
            ctx.count("site-class:" + ckeys[k]["classification"])
            continue
        if strict(s):
            ctx.disagree("site-catalogue", {"file": k[0], "function": k[1], "expression": k[2], "line": s["line"]},
                         "not in the modelled catalogue", "code has " + s["source"] + " consumed as " + k[3])
        else:
            ctx.count("site-uncatalogued-order-free")
    for k, s in sorted(ckeys.items()):
        if k not in fkeys:
            if strict(s):
                ctx.disagree("site-catalogue", {"file": k[0], "function": k[1], "expression": k[2]},
                             "catalogued as %s (%s)" % (k[3], s["classification"]), "the code no longer has this site")
            else:
                ctx.count("site-catalogue-stale-order-free")
    ctx.extra["site_catalogue"] = {"catalogued": len(ckeys), "found_by_scan": len(fkeys),
                                   "classes": sorted({s["classification"] for s in cat})}


def sort_catalogue_stream(ctx: Ctx) -> None:
    """every sorted()/.sort() call of the tree under test against the committed list (file, function, what, key)"""
    cat = json.loads((VERIF / "harness" / "c18_sites.json").read_text())["sorts"]
    try:
        found = sitescan.scan_sorts(REPO)
    except Exception as e:
        ctx.disagree("sort-catalogue", "scan", "catalogue", "scan failed: %r" % e)
        return

    def k(x: Dict[str, str]) -> Tuple[str, ...]:
        return (x["file"], x["function"], x["sorted"], x["key"], x["reverse"])
    ck = {k(x): x for x in cat}
    fk = {k(x): x for x in found}
    for key_, x in sorted(fk.items()):
        ctx.traces_validated += 1
        if key_ in ck:
            ctx.count("sort-site:" + ck[key_]["keyclass"])
        else:
            ctx.disagree("sort-catalogue", {"file": key_[0], "function": key_[1], "sorted": key_[2], "line": x["line"]},
                         "not in the catalogue of sort sites", "code sorts with key=%s reverse=%s" % (key_[3], key_[4]))
    for key_, x in sorted(ck.items()):
        if key_ not in fk:
            ctx.disagree("sort-catalogue", {"file": key_[0], "function": key_[1], "sorted": key_[2]},
                         "catalogued with key=%s (%s)" % (key_[3], x["keyclass"]), "the code no longer has this sort (or its key changed)")
    ctx.extra["sort_catalogue"] = {"catalogued": len(ck), "found_by_scan": len(fk)}


PRES_SOURCES = [
    {"m.py": TIES_BASE},
    # class-private names (__x) neither mask nor are masked across classes (model.is_class_private, /repo d869973)
    {"cp.py": "class A:\n    __secret = 1\n    __dunder__ = 2\n    plain = 3\n    def __hidden(self): pass\n"
              "class B(A):\n    __secret = 4\n    __dunder__ = 5\n    def __hidden(self): pass\nclass C(B):\n    plain = 6\n    __secret = 7\n"},
    {"rc.py": "import ext\nclass A(ext.Foo): pass\nclass B(ext.foo): pass\nclass C(ext.FOO): pass\nclass Top: pass\nclass top: pass\n"
              "class D(Top): pass\nclass d(Top): pass\nclass E(Top, ext.Foo): pass\n"},
    {"zi.py": "from zope.interface import Interface, implementer\nclass IFoo(Interface): pass\nclass ifoo(Interface): pass\n"
              "class IBar(Interface): pass\n@implementer(IFoo, ifoo, IBar)\nclass Impl: pass\n@implementer(IFoo)\nclass impl: pass\n"},
]


def obj_token(o: Any) -> str:
    from pydoctor import model
    full = o.fullName()
    return "%d;%s;%d;%s;%s;%s" % (o.privacyClass.value, o.kind.value if o.kind is not None else "-", o.linenumber or 0,
                                  "m" if isinstance(o, model.Module) else "o", enc(full), enc(full.lower()))


def str_token(x: str) -> str:
    return "%s;%s" % (enc(x), enc(x.lower()))


def presentation_stream(ctx: Ctx, st: Streams, scratch: Path) -> None:
    """Render real projects in-process while OBSERVING every `sorted(...)` call of the writer modules (a `sorted` global is
    planted in each module: it records input, key function and result, and calls the builtin); each recorded sort is
    then asked of the model with the transcribed key.  Also: util.unmasked_attrs / inherited_members on every class,
    and the list.sort of UndocumentedSummaryPage read back from the rendered page."""
    import builtins
    import re
    from pydoctor import model, epydoc2stan
    from pydoctor.options import Options
    from pydoctor.templatewriter import summary, util, pages, TemplateLookup
    from pydoctor.templatewriter.pages import sidebar
    from pydoctor.templatewriter.writer import TemplateWriter
    from twisted.web.template import flattenString, tags
    from ..gen.project import build_system
    try:
        import importlib.resources as importlib_resources
    except ImportError:       # pragma: no cover
        import importlib_resources  # type: ignore
    rng = ctx.rng
    spied = [summary, util, pages, sidebar, epydoc2stan]
    projects: List[Tuple[str, Any, List[str]]] = []
    for n, files in enumerate(PRES_SOURCES):
        for order in ("alphabetical", "source"):
            units = [Unit(f[:-3], False, src, None) for f, src in files.items()]
            projects.append(("corpus%d-%s" % (n, order), units, ["--cls-member-order=" + order, "--mod-member-order=" + order]))
    for i in range(5 if ctx.quick else 60):
        g = DetGen(rng, rng.choice([1, 2, 3]))
        projects.append(("gen%d" % i, g.project(), ["--cls-member-order=" + rng.choice(["alphabetical", "source"]),
                                                   "--mod-member-order=" + rng.choice(["alphabetical", "source"])]))
    for pid, units, args in projects:
        opts = Options.from_args(args + ["--project-name=p"])
        system = opts.systemclass(opts)
        try:
            build_system(units, system=system)
        except Exception as e:          # C01's matter
            ctx.count("presentation:build-crashed:" + type(e).__name__)
            continue
        records: List[Tuple[List[Any], Any, List[Any]]] = []

        def spy(iterable: Any, *, key: Any = None, reverse: bool = False) -> List[Any]:
            inp = list(iterable)
            res_ = builtins.sorted(inp, key=key, reverse=reverse)
            records.append((inp, key, res_))
            return res_
        out = scratch / ("pres_" + pid)
        lookup = TemplateLookup(importlib_resources.files("pydoctor.themes") / "base")
        lookup.add_templatedir(importlib_resources.files("pydoctor.themes") / "classic")
        for m in spied:
            m.sorted = spy  # type: ignore[attr-defined]
        try:
            w = TemplateWriter(out, lookup)
            w.prepOutputDirectory()
            w.writeSummaryPages(system)
            w.writeIndividualFiles(system.rootobjects)
        except Exception as e:
            ctx.count("presentation:render-crashed:" + type(e).__name__)
            continue
        finally:
            for m in spied:
                del m.sorted  # type: ignore[attr-defined]
        ctx.count("presentation:projects")
        for inp, key, res in records:
            kname = getattr(key, "__qualname__", "-") if key is not None else "-"
            distinct = len({id(x) for x in inp}) == len(inp)
            pos = " ".join(["ok"] + [str(next(i for i, x in enumerate(inp) if x is y)) for y in res]) if distinct else "dup"
            where = {"project": pid, "key": kname, "n": len(inp)}
            if len(inp) >= 2:
                ties = len(inp) - len({repr(key(x)) if key is not None else repr(x) for x in inp})
                ctx.count("sort:%s:%s" % (kname.replace(".<locals>.<lambda>", ".lambda"), "ties" if ties else "no-ties"))
            if key in (util.alphabetical_order_func, util.source_order_func, summary._lckey):
                which = {util.alphabetical_order_func: "alpha", util.source_order_func: "source", summary._lckey: "lc"}[key]
                st.add("writer sorts~sortedWith", "determinism order %s %s" % (which, " ".join(obj_token(o) for o in inp)), pos, where)
            elif kname == "LetterElement.names.<locals>.<lambda>":
                st.add("writer sorts~sortedWith", "determinism strorder names " + " ".join(str_token(x) for x in inp), pos, where)
            elif kname == "findRootClasses.<locals>.<lambda>":
                # roots.items(): (name, class or list) pairs with distinct names; the key reads the name only
                names = [x[0] for x in inp]
                p2 = " ".join(["ok"] + [str(names.index(y[0])) for y in res])
                st.add("writer sorts~sortedWith", "determinism strorder lower " + " ".join(str_token(x) for x in names), p2, where)
            elif kname == "ZopeInterfaceClassPage.extras.<locals>.<lambda>":
                if len(set(inp)) == len(inp):
                    p2 = " ".join(["ok"] + [str(inp.index(y)) for y in res])
                    st.add("writer sorts~sortedWith", "determinism strorder lower " + " ".join(str_token(x) for x in inp), p2, where)
            elif kname == "IndexPage.rootkind.<locals>.<lambda>":
                names = [k_.name for k_ in inp]
                p2 = " ".join(["ok"] + [str(names.index(y.name)) for y in res])
                st.add("writer sorts~sortedWith", "determinism strorder plain " + " ".join(str_token(x) for x in names), p2, where)
            elif key is None and all(isinstance(x, str) for x in inp):
                if len(set(inp)) == len(inp):
                    p2 = " ".join(["ok"] + [str(inp.index(y)) for y in res])
                    st.add("writer sorts~sortedWith", "determinism strorder plain " + " ".join(str_token(x) for x in inp), p2, where)
            elif kname == "format_undocumented.<locals>.<lambda>":
                ctx.count("sort:not-modelled:enum-values")
            else:
                ctx.disagree("writer sorts~sortedWith", where, "no transcribed key for this sort", "the writers sort with key " + kname)
        # inherited members
        for cls in system.objectsOfType(model.Class):
            mro = list(cls.mro())
            ids: Dict[int, int] = {}
            groups = []
            for c in mro:
                toks = []
                for o in c.contents.values():
                    ids[id(o)] = len(ids)
                    toks.append("%s;%s" % (enc(o.name), "v" if o.isVisible else "h"))
                groups.append(" ".join(toks))
            impl = " ".join(["ok"] + [str(ids[id(o)]) for o in util.inherited_members(cls)])
            st.add("util.inherited_members~inheritedMembers", "determinism inherited " + " | ".join(groups), impl,
                   {"project": pid, "class": cls.fullName()})
            ctx.count("inherited:mro-length=%d" % min(len(mro), 4))
            for chain in util.nested_bases(cls):
                ids2: Dict[int, int] = {}
                g2 = []
                for c in chain:
                    toks = []
                    for o in c.contents.values():
                        ids2[id(o)] = len(ids2)
                        toks.append("%s;%s" % (enc(o.name), "v" if o.isVisible else "h"))
                    g2.append(" ".join(toks))
                impl2 = " ".join(["ok"] + [str(ids2[id(o)]) for o in util.unmasked_attrs(chain)])
                st.add("util.unmasked_attrs~unmaskedAttrs", "determinism unmasked " + " | ".join(g2), impl2,
                       {"project": pid, "chain": [c.fullName() for c in chain]})
        # search documents: order of all-documents.html / the lunr corpus
        from pydoctor.templatewriter import search
        docs = [d["id"] for d in search.get_all_documents_flattenable(system)]
        corpus = [d[0]["qname"] for d in search.LunrIndexWriter(out / "x.json", system, ["qname"]).get_corpus()]
        reg = [(o.fullName(), o.isVisible) for o in system.allobjects.values()]
        if all(safe(n.replace(" ", "_")) for n, _ in reg):
            req = "determinism documents " + " ".join("%s;%s" % (enc(n), "v" if v else "h") for n, v in reg)
            st.add("search.get_all_documents~documentOrder", req, " ".join(["ok"] + [enc(n) for n in docs]), {"project": pid})
            st.add("search.get_corpus~documentOrder", req, " ".join(["ok"] + [enc(n) for n in corpus]), {"project": pid})
        # UndocumentedSummaryPage: list.sort(key=fullName), read back from the rendered list
        undoc = [o for o in system.allobjects.values() if o.isVisible and not summary.hasdocstring(o)]
        if undoc:
            page = summary.UndocumentedSummaryPage(system, lookup)
            html: List[bytes] = []
            flattenString(None, page.stuff(None, tags.ul())).addCallback(html.append)
            shown = [re.sub(r"<[^>]+>", "", m_) for m_ in re.findall(r"<code>(.*?)</code>", html[0].decode("utf-8"))] if html else []
            names = [o.fullName() for o in undoc]
            if len(shown) == len(names) and len(set(names)) == len(names) and all(n in names for n in shown):
                impl = " ".join(["ok"] + [str(names.index(n)) for n in shown])
            else:
                impl = "page shows %d names for %d objects" % (len(shown), len(names))
            st.add("UndocumentedSummaryPage~sortedFull", "determinism order full " + " ".join(obj_token(o) for o in undoc), impl, {"project": pid})
        shutil.rmtree(out, ignore_errors=True)


def template_lookup_stream(ctx: Ctx, st: Streams, scratch: Path) -> None:
    """real TemplateLookup(base).add_templatedir(custom) with the two directories listed in a chosen order
    (pathlib.Path.iterdir answers that order for these two directories only), against `addTemplateDirSorted`
    (the request carries the listing order; the model, like Template.fromdir since ea400d3, sorts it)"""
    import pathlib
    from pydoctor.templatewriter import TemplateLookup, HtmlTemplate
    rng = ctx.rng
    stems = ["extra", "Extra", "EXTRA", "my", "My", "page", "Page", "other", "z"]
    real_iterdir = pathlib.Path.iterdir
    orders: Dict[str, List[str]] = {}

    def iterdir(self: pathlib.Path) -> Any:
        key = str(self)
        if key in orders:
            return iter([self / n for n in orders[key]])
        return real_iterdir(self)
    n = 40 if ctx.quick else 400
    cases: List[Tuple[List[str], List[str]]] = [(["extra.css", "page.html"], ["Extra.css", "extra.css", "My.css", "my.css"]),
                                                (["extra.css", "page.html"], ["extra.css", "Extra.css", "my.css", "My.css"])]
    for _ in range(n):
        def names(k: int) -> List[str]:
            return list(dict.fromkeys(rng.choice(stems) + rng.choice([".css", ".html", ".txt", ".CSS"]) for _ in range(k)))
        cases.append((names(rng.randint(0, 3)), names(rng.randint(1, 5))))
    pathlib.Path.iterdir = iterdir  # type: ignore[assignment]
    try:
        for i, (bnames, cnames) in enumerate(cases):
            bdir, cdir = scratch / ("tplb%d" % i), scratch / ("tplc%d" % i)
            ids: Dict[str, int] = {}
            toks: List[List[str]] = [[], []]
            for which, (d, nms) in enumerate(((bdir, bnames), (cdir, cnames))):
                d.mkdir()
                rng.shuffle(nms)
                orders[str(d)] = list(nms)
                for nm in nms:
                    html = nm.lower().endswith(".html")
                    text = ("<div>%s %d</div>" if html else "%s %d") % (nm, which)
                    (d / nm).write_text(text)
                    toks[which].append("%s;%s;%s;%d" % (enc(nm), enc(nm.lower()), "h" if html else "s", ids.setdefault(text, len(ids) + 1)))
            try:
                lookup = TemplateLookup(bdir)
                lookup.add_templatedir(cdir)
                ents = []
                for t in lookup.templates:
                    text = t.text if isinstance(t, HtmlTemplate) else t.data.decode()      # type: ignore[attr-defined]
                    ents.append((t.name.lower(), "%s=%s=%s=%d" % (enc(t.name.lower()), enc(t.name), "h" if isinstance(t, HtmlTemplate) else "s", ids[text])))
                impl = " ".join(["ok"] + [e for _, e in sorted(ents, key=lambda x: [ord(c) for c in x[0]])])
            except Exception as e:
                impl = type(e).__name__
            lowered = [x.lower() for x in cnames]
            ctx.count("template-dir:" + ("case-collision" if len(set(lowered)) < len(lowered) else "distinct"))
            st.add("TemplateLookup.add_templatedir~addTemplateDirSorted", "determinism templates %s | %s" % (" ".join(toks[0]), " ".join(toks[1])),
                   impl, {"base": orders[str(bdir)], "custom": orders[str(cdir)]})
            shutil.rmtree(bdir, ignore_errors=True)
            shutil.rmtree(cdir, ignore_errors=True)
    finally:
        pathlib.Path.iterdir = real_iterdir  # type: ignore[assignment]


def hunter_streams(ctx: Ctx, st: Streams) -> None:
    """extension discovery under chosen listing orders; 'last loaded visitor wins' for an assignment two extensions claim;
    repr of a live set through model._EscapedRepr; docutils' date directive under a moved clock"""
    import itertools
    import pathlib
    import time as _time
    from pydoctor import extensions, model
    from ..gen.project import build_system
    rng = ctx.rng
    # --- extensions.get_extensions under chosen listing orders of the package directory
    try:
        import importlib.resources as importlib_resources
    except ImportError:       # pragma: no cover
        import importlib_resources  # type: ignore
    extdir = pathlib.Path(str(importlib_resources.files("pydoctor.extensions")))
    real_iterdir = pathlib.Path.iterdir
    entries = sorted(p.name for p in real_iterdir(extdir))
    order: List[str] = []

    def iterdir(self: pathlib.Path) -> Any:
        if self == extdir and order:
            return iter([self / n for n in order])
        return real_iterdir(self)
    pathlib.Path.iterdir = iterdir  # type: ignore[assignment]
    try:
        orders = [list(entries), list(reversed(entries))]
        for _ in range(10 if ctx.quick else 100):
            o = list(entries)
            rng.shuffle(o)
            orders.append(o)
        for o in orders:
            order[:] = o
            impl = [m.split(".")[-1] for m in extensions.get_extensions()]
            req = "determinism extensions " + " ".join("%s;%s" % (enc(n), "f" if (extdir / n).is_file() else "d") for n in o)
            st.add("extensions.get_extensions~getExtensions", req, " ".join(["ok"] + [enc(x) for x in impl]), {"listing": o})
    finally:
        order[:] = []
        pathlib.Path.iterdir = real_iterdir  # type: ignore[assignment]
    # --- the kind of an assignment that several visitor extensions claim: each extension alone, then every load order
    builtin = sorted(m for m in extensions.get_extensions())
    src = CONFLICT_SNIPPET.format(n=0)

    def kinds(exts: List[str]) -> Dict[str, int]:
        cls = type("S", (model.System,), {"extensions": list(exts)})
        system = cls()
        build_system([Unit("m", False, src, None)], system=system)
        return {a: system.allobjects["m.Claimed0." + a].kind.value for a in ("x", "y", "z")}
    try:
        base = kinds([])
        alone = {e: kinds([e]) for e in builtin}
        for perm in itertools.permutations(builtin):
            got = kinds(list(perm))
            for a in ("x", "y", "z"):
                claims = ["-" if alone[e][a] == base[a] else str(alone[e][a]) for e in perm]
                st.add("visitor extensions, load order~kindAfterVisitors", "determinism kindafter %d %s" % (base[a], " ".join(claims)),
                       "ok %d" % got[a], {"attribute": a, "order": [e.split(".")[-1] for e in perm]})
                ctx.count("kind-claims:%d" % sum(1 for c in claims if c != "-"))
    except Exception as e:
        ctx.disagree("visitor extensions, load order~kindAfterVisitors", "setup", "model", "could not build: %r" % e)
    # --- repr of a live set
    words = ["alpha", "beta", "gamma", "delta", "x", "y", "z", "a b", "<t>", "q'"]
    for _ in range(40 if ctx.quick else 400):
        s_ = set(rng.sample(words, rng.randint(0, 5)))
        enum = list(s_)
        import html as _html
        # the model works on the raw reprs (the order is decided before html.escape is applied to the whole text)
        st.add("model._EscapedRepr(set)~setRepr", "determinism setrepr " + " ".join(enc(repr(x)) for x in enum),
               "ok " + enc(_html.unescape(repr(model._EscapedRepr(s_)))), {"enumeration": enum})
    # --- docutils' date directive under a moved clock, SOURCE_DATE_EPOCH set / unset
    import calendar
    from pydoctor.epydoc.markup import restructuredtext
    real_strftime, real_gmtime = _time.strftime, _time.gmtime
    saved = os.environ.get("SOURCE_DATE_EPOCH")
    try:
        for _ in range(6 if ctx.quick else 40):
            now = CLOCK_BASE + rng.randrange(-10 ** 7, 10 ** 7)
            epoch = rng.choice([None, "0", "1700000000"])
            if epoch is None:
                os.environ.pop("SOURCE_DATE_EPOCH", None)
            else:
                os.environ["SOURCE_DATE_EPOCH"] = epoch
            _time.strftime = lambda fmt, t=None, _n=now: real_strftime(fmt, real_gmtime(_n) if t is None else t)  # type: ignore[assignment]
            errs: List[Any] = []
            parsed = restructuredtext.parse_docstring("T |now| T\n\n.. |now| date:: %Y-%m-%d %H:%M:%S\n", errs)
            _time.strftime = real_strftime  # type: ignore[assignment]
            text = parsed.to_node().astext()
            import re
            m = re.search(r"T (\d{4}-\d\d-\d\d \d\d:\d\d:\d\d) T", text)
            impl = "time %d" % calendar.timegm(_time.strptime(m.group(1), "%Y-%m-%d %H:%M:%S")) if m else "no date in " + text[:60]
            st.add("docutils date directive~rstDateTime", "determinism rstdate %d %s -" % (now, classify_epoch(epoch)), impl,
                   {"SOURCE_DATE_EPOCH": epoch, "clock": now})
    finally:
        _time.strftime = real_strftime  # type: ignore[assignment]
        if saved is None:
            os.environ.pop("SOURCE_DATE_EPOCH", None)
        else:
            os.environ["SOURCE_DATE_EPOCH"] = saved


# ------------------------------------------------------------------ run

def real_projects() -> List[Dict[str, Any]]:
    res: List[Dict[str, Any]] = []
    tp = REPO / "pydoctor" / "test" / "testpackages"
    for d in sorted(tp.iterdir()):
        if d.is_dir() and (d / "__init__.py").exists():
            res.append({"id": "testpackages/" + d.name, "srcroot": str(tp), "roots": [d.name], "args": [],
                        "explicit": None, "kind": "testpackage", "files": {}})
    pairs = [x for x in res if x["id"].endswith("/basic") or x["id"].endswith("/allgames")]
    if len(pairs) == 2:
        res.append({"id": "testpackages/basic+allgames", "srcroot": str(tp), "roots": ["basic", "allgames"], "args": [],
                    "explicit": None, "kind": "testpackage", "files": {}})
    return res


def run(ctx: Ctx) -> None:
    catalogue_stream(ctx)
    sort_catalogue_stream(ctx)
    scratch = Path(tempfile.mkdtemp(prefix="c18-"))
    st = Streams()
    try:
        site_function_stream(ctx, st)
        os_semantics_stream(ctx, st, scratch)
        presentation_stream(ctx, st, scratch)
        template_lookup_stream(ctx, st, scratch)
        hunter_streams(ctx, st)
        nproj = 5 if ctx.quick else 200
        # the corpus first, on every run: detection of the known shapes never depends on the seed
        run_projects(ctx, st, corpus_projects(), scratch, jobs=16)
        projects: List[Dict[str, Any]] = []
        i = 0
        while len(projects) < nproj:
            p = gen_project(ctx.rng, i)
            i += 1
            projects.append(p)
            if len(p["roots"]) >= 2 and p["explicit"] is None and len(projects) < nproj:
                projects.append(with_name(p, "Paired"))      # same sources, name given: nothing else may differ
        run_projects(ctx, st, projects, scratch, jobs=16)
        if not ctx.quick:
            run_projects(ctx, st, real_projects(), scratch, jobs=16, first_index=3)
            own = {"id": "pydoctor-own-sources", "srcroot": str(REPO), "roots": ["pydoctor"],
                   "args": ["--docformat=epytext", "--project-name=pydoctor"], "explicit": "pydoctor", "kind": "own-sources", "files": {},
                   "epoch": "0"}
            run_projects(ctx, st, [own], scratch, jobs=10)
        st.flush(ctx)
    finally:
        shutil.rmtree(scratch, ignore_errors=True)


def run_projects(ctx: Ctx, st: Streams, projects: List[Dict[str, Any]], scratch: Path, jobs: int, first_index: int = 0) -> None:
    tasks = []
    prepared = []
    mats = []
    for n, p in enumerate(projects):
        seeds, modes = matrix(ctx.seed, ctx.quick, n)
        modes = p.get("modes", modes)
        mats.append((seeds, modes))
        base = scratch / ("%s_%d" % (p["id"].replace("/", "_").replace("+", "_"), n))
        base.mkdir(parents=True)
        src = materialise(p, base)
        prepared.append((p, src, base))
        p.setdefault("epoch", EPOCHS[(n + first_index) % len(EPOCHS)])
        for hs in seeds:
            for mode in modes:
                tasks.append((n, hs, mode, ""))
        tasks.append((n, seeds[0], modes[0], "clock"))
        tasks.append((n, seeds[-1], modes[-1], "bt"))
        tasks.append((n, seeds[0], modes[0], "bt"))
        tasks.append((n, seeds[1], modes[0], "noenv"))
    results: List[Dict[Tuple[int, str, str], List[Dict[str, Any]]]] = [dict() for _ in projects]

    def work(t):
        n, hs, mode, bt = t
        p, src, base = prepared[n]
        return t, job(p, src, base, hs, mode, bt)
    with ThreadPoolExecutor(max_workers=jobs) as ex:
        for (n, hs, mode, bt), rs in ex.map(work, tasks):
            results[n][(hs, mode, bt)] = rs
    for n, (p, src, base) in enumerate(prepared):
        seeds, modes = mats[n]
        ctx.count("projects:" + p.get("kind", "generated"))
        ctx.count("roots=%d%s" % (len(p["roots"]), "" if p.get("explicit") is None else "+name"))
        if p.get("docformat"):
            ctx.count("docformat:" + p["docformat"])
        p["_src"], p["_base"] = src, base
        try:
            oracle(ctx, p, results[n], seeds, modes)
        finally:
            p.pop("_src", None)
            p.pop("_base", None)
            p.pop("_ext_order_cause", None)
        if p.get("cmodule"):
            ctx.count("c-module:" + ("built" if compiled_cmodule(scratch) is not None else "no-compiler"))
        for rs in results[n].values():
            for r in rs:
                buildtime_stream(st, p, r)
                if r["exit"] in (0, 2, 3):
                    sidecar_streams(st, p, src, r)
        if len(ctx.samples) < 3 and p.get("kind") == "generated":
            ref = results[n][(seeds[0], modes[0], "")][0]
            ctx.samples.append({"project": p["id"], "roots": p["roots"], "args": p["args"], "files": sorted(p["files"]),
                                "SOURCE_DATE_EPOCH": p["epoch"], "output_files": len(ref["post"]), "guessed_or_given_name": ref["side"].get("projectname")})
        if not p.get("srcroot"):
            shutil.rmtree(base, ignore_errors=True)


# ------------------------------------------------------------------ replay

def replay(ctx: Ctx, obj) -> int:
    inp = obj.get("input") or obj.get("request") or {}
    if "roots" not in inp:
        print(json.dumps(obj, indent=1)[:4000])
        return 0
    p = dict(inp)
    p.setdefault("files", {})
    p.setdefault("kind", "generated")
    p["explicit"] = next((a.split("=", 1)[1] for a in p["args"] if a.startswith("--project-name=")), None)
    scratch = Path(tempfile.mkdtemp(prefix="c18-replay-"))
    try:
        st = Streams()
        run_projects(ctx, st, [p], scratch, jobs=16)
        st.flush(ctx)
    finally:
        shutil.rmtree(scratch, ignore_errors=True)
    print("project :", p["id"], "roots", p["roots"], "args", p["args"])
    print("builds  :", ctx.evaluations, " model/implementation lines compared:", ctx.traces_validated,
          " disagreements:", len(ctx.disagreements))
    for d in ctx.disagreements[:5]:
        print("disagree:", json.dumps(d)[:600])
    for f in ctx.failures:
        print("oracle  : FAIL [%s] x%d  %s" % (f["signature"], f["count"], f["what"]))
    if not ctx.failures:
        print("oracle  : every build of this project is byte-identical to the reference build")
    return 1 if ctx.failures else 0
